"""C09 — every API function enforces its minimum access level.

Theorems: coq/theories/Props/C09.v over the tables regenerated from /repo (Gen/C09Gen.v).
Tie: (T) harness/translate/apitable.py + routes.py, cross-checked against the imported module objects (closure cells of the
api_call wrappers, handler classes, the running routing table) + (C, exhaustive) the REAL tornado application built from
`_make_routing_table()` served on a loopback socket: every URLSpec x 7 methods x {no header, view-only, normal, admin
token} x flag sets, API function bodies replaced by recording stubs (the `func` cell of each wrapper closure).
Each observed outcome is compared in Coq (vm_compute) with the model on the regenerated tables (tie) and with the
hand-written specification `required_spec` (oracle -> violations with the concrete request as replay).
One function is additionally run with its REAL body: post_slave_device_events authenticates inside the function (wrapper
level none); registered slave objects with recorder methods, 15 kinds of credential, compared with Events.v / Spec.v.
"""
import asyncio
import contextlib
import glob
import hashlib
import inspect
import itertools
import json
import logging
import os
import sys
import time

from harness.common import coq
from harness.translate import apitable, routes

ID = 'C09'
PROPS = 'theories/Props/C09.v'
MODEL_TARGETS = ['theories/C09/SpecRun.vo', 'theories/C09/Run.vo']
TRANSLATORS = [apitable.translate, routes.translate]
TIE = ('translators (API level table, wrapper decision, routing table, handler methods) cross-checked against the imported '
       'module objects + exhaustive correspondence of the real tornado application with the Coq model by vm_compute')
ALLOWED_AXIOMS = []
TRUSTED_BASE = [
    'harness/translate/apitable.py, harness/translate/routes.py (fail-closed ast translators; every table they emit is '
    'compared at run time with the api_call closure cells, the handler classes and the running routing table)',
    'correspondence harness harness/props/c09.py: stubbing of API function bodies through the wrapper closure cell, '
    'loopback tornado HTTPServer + AsyncHTTPClient, JWT headers from core.api.auth.make_auth_header',
    'path abstraction: a concrete path is identified with the URL shape of the first URLSpec of the running table whose '
    'regex matches it (computed with the real compiled regexes; tornado resolves the same list in the same order)',
    'modelled, not verified: tornado routing and method dispatch, PyJWT (the derivation of the caller level from the '
    'Authorization header is property C10); the frontend package (qui) routes are an opaque non-API block',
]
ASSUMPTIONS = [
    'the caller level is what APIHandler.prepare derives from the Authorization header (C10); admin password is not empty '
    '(an empty admin password makes every unauthenticated request admin, by design)',
    'C09_enforced is stated for well-formed requests (JSON content type on POST/PATCH/PUT); a malformed one is answered 400 '
    'before the level check and never runs the body (C09_no_run_below_level has no such premise)',
    'POST /devices/{name}/events is level none at the wrapper; its own authentication runs with the REAL function body '
    'against registered slave objects whose handle_event/save/update_last_sync/schedule_provisioning_and_update are '
    'recorders (everything after the authentication is what is replaced); the facts about each presented credential '
    '(origin, key, freshness) are known to the harness by construction of the header; PyJWT signature checking is trusted',
    'credential histories use PATCH /device (passwords, display_name) and PUT /device with the hub\'s own document; POST /reset '
    '(factory reset legitimately empties the passwords, and reboots) is not part of the histories',
    'setup mode off (NotFoundHandler redirects GET to the frontend in setup mode instead of 404)',
    'the frontend is served from the source tree (settings.frontend.debug) because the built dist/ folder is not in the repo',
]

METHODS = routes.METHODS
USERS = [None, 'viewonly', 'normal', 'admin']
PASSWORDS = {'admin': 'c09-admin-pw', 'normal': 'c09-normal-pw', 'viewonly': 'c09-viewonly-pw'}
SAMPLE_ID = 'dev-1_x'
SAMPLE_REST = 'ports/p1/value'
UNKNOWN_PATHS = ['/api/nonexistent', '/api/ports/p1/bogus', '/api/devices/a.b', '/api/device/extra', '/api',
                 '/api/ports/p1/value/extra', '/nonapi/x', '/api/']
QUI_PATHS = ['/', '/frontend/', '/frontend/manifest.json', '/frontend/service-worker.js', '/frontend/static/app/none.js']
HEADER = 'From QT Require Import C09.Run.\nOpen Scope string_scope.\nOpen Scope Z_scope.\n'
REPLAY_HELP = ('bin/check C09 --replay <this file>  (or by hand: start qtoggleserver from /repo with the settings named in '
               'case.flags_on switched on and the others off, then send case.method case.path with the token of case.user; '
               'expected = the level required by coq/theories/C09/Spec.v required_spec)')

_state = {}
COQ_JOBS = 2


# ---------------------------------------------------------------------------------------------------------------------
# environment: flags

class _FakeDriver:
    def __init__(self, samples):
        self.samples = samples

    def is_samples_supported(self):
        return self.samples


def _set_setting(name, value):
    from qtoggleserver.conf import settings
    obj = settings
    parts = name.split('.')[1:]
    for p in parts[:-1]:
        obj = getattr(obj, p)
    if not hasattr(obj, parts[-1]):
        raise RuntimeError('unknown setting ' + name)
    setattr(obj, parts[-1], value)


ON_VALUES = {'settings.system.fwupdate.driver': 'c09.harness.FakeFirmwareDriver', 'settings.core.virtual_ports': 1024}
OFF_VALUES = {'settings.system.fwupdate.driver': None, 'settings.core.virtual_ports': 0}


def apply_flag(name, on, workdir):
    from qtoggleserver import persist
    from qtoggleserver.conf import settings
    if name.startswith('settings.'):
        _set_setting(name, ON_VALUES.get(name, True) if on else OFF_VALUES.get(name, False))
    elif name == 'persist.is_samples_supported()':
        persist._thread_local.driver = _FakeDriver(bool(on))
    elif name == 'is_discover_enabled()':
        settings.slaves.discover.ap.interface = 'wlan-c09' if on else None
        settings.slaves.discover.ap.interface_cmd = None
    elif name == 'system.conf.can_write_conf_file()':
        if on:
            p = os.path.join(workdir, 'qtoggleserver.conf')
            if not os.path.exists(p):
                with open(p, 'w') as f:
                    f.write('# c09 harness\n')
            settings.source = p
        else:
            settings.source = None
    else:
        raise RuntimeError('the harness does not know how to switch flag %r' % name)


def default_flags(flag_names, workdir):
    """the value each flag has with the package's default settings (read from the imported settings, before any change)"""
    from qtoggleserver import system
    from qtoggleserver.conf import settings
    from qtoggleserver.slaves import discover
    out = {}
    for n in flag_names:
        if n.startswith('settings.'):
            obj = settings
            for p in n.split('.')[1:]:
                obj = getattr(obj, p)
            out[n] = bool(obj)
        elif n == 'persist.is_samples_supported()':
            # what the configured (default: JSON) persistence driver class answers, without instantiating it
            from qtoggleserver.persist import base as persist_base
            from qtoggleserver.utils import dynload as dynload_utils
            cls = dynload_utils.load_attr(settings.persist.driver)
            out[n] = cls.is_samples_supported is not persist_base.BaseDriver.is_samples_supported
        elif n == 'is_discover_enabled()':
            out[n] = discover.is_enabled()
        elif n == 'system.conf.can_write_conf_file()':
            out[n] = system.conf.can_write_conf_file()
        else:
            raise RuntimeError('the harness does not know flag %r' % n)
    return out


# ---------------------------------------------------------------------------------------------------------------------
# environment: the implementation, stubs, cross-checks

def setup_impl(ctx, res):
    """import the implementation, cross-check the translated tables with the module objects, install the stubs.
    -> dict or None (None: cannot run requests safely)"""
    if _state.get('impl'):
        return _state['impl']
    logging.disable(logging.CRITICAL)
    from qtoggleserver.core import expressions  # noqa: F401  (import order: avoids the circular import in core.ports)
    from qtoggleserver.conf import settings
    from qtoggleserver.core import api as core_api
    from qtoggleserver.core.api import auth as core_api_auth
    from qtoggleserver.core.device import attrs as core_device_attrs
    from qtoggleserver.web import base as web_base
    from qtoggleserver.web import handlers as web_handlers
    from qtoggleserver.web import server as web_server

    settings.frontend.debug = True
    settings.system.setup_mode_cmd = None
    hashes = {u: hashlib.sha256(p.encode()).hexdigest() for u, p in PASSWORDS.items()}
    core_device_attrs.admin_password_hash = hashes['admin']
    core_device_attrs.normal_password_hash = hashes['normal']
    core_device_attrs.viewonly_password_hash = hashes['viewonly']

    # every api_call wrapper reachable from a loaded qtoggleserver module
    for path in apitable.funcs_files():
        __import__(apitable.modname(path))
    wrappers = {}
    for m in list(sys.modules.values()):
        if m is None or not getattr(m, '__name__', '').startswith('qtoggleserver'):
            continue
        for v in list(vars(m).values()):
            if inspect.isfunction(v) and v.__closure__ and v.__code__.co_freevars == ('access_level', 'func'):
                wrappers[id(v)] = v
    runtime_levels = {}
    for w in wrappers.values():
        name = '%s.%s' % (w.__module__, w.__name__)
        if name in runtime_levels:
            res['tie_failures'].append('two api_call wrappers named %s' % name)
        runtime_levels[name] = w.__closure__[0].cell_contents

    tr = routes.LAST
    api = apitable.LAST
    problems = []
    if api is not None:
        if api['levels'] != runtime_levels:
            a, b = api['levels'], runtime_levels
            diff = {k: (a.get(k), b.get(k)) for k in set(a) | set(b) if a.get(k) != b.get(k)}
            problems.append('API level table: translated != closure cells (translated, runtime): %r' % diff)
        rt_consts = {k: getattr(core_api, k) for k in api['consts']}
        if rt_consts != api['consts']:
            problems.append('ACCESS_LEVEL constants: translated %r, runtime %r' % (api['consts'], rt_consts))
        rt_users = {k: v for k, v in core_api.ACCESS_LEVEL_MAPPING.items() if isinstance(k, str)}
        if rt_users != api['users']:
            problems.append('ACCESS_LEVEL_MAPPING: translated %r, runtime %r' % (api['users'], rt_users))
    if tr is not None:
        for cname, c in tr['classes'].items():
            cls = getattr(web_handlers, cname, None)
            if cls is None:
                problems.append('handler class %s not found at run time' % cname)
                continue
            if c['kind'] == 'KApi':
                if not issubclass(cls, web_base.APIHandler):
                    problems.append('%s is not an APIHandler at run time' % cname)
                elif bool(cls.AUTH_ENABLED) != c['auth']:
                    problems.append('%s.AUTH_ENABLED: translated %r, runtime %r' % (cname, c['auth'], cls.AUTH_ENABLED))
            for m in METHODS:
                own = getattr(cls, m.lower()) is not getattr(web_base.BaseHandler, m.lower())
                if c['kind'] == 'KApi' and own != (m in c['methods']):
                    problems.append('%s.%s: translated %s, runtime %s' % (
                        cname, m.lower(), 'defined' if m in c['methods'] else 'absent', 'defined' if own else 'absent'))
        for n, v in vars(web_handlers).items():
            if inspect.isclass(v) and issubclass(v, web_base.BaseHandler) and v.__module__ == web_handlers.__name__ \
                    and n not in tr['classes']:
                problems.append('handler class %s exists at run time but was not translated' % n)
    res['tie_failures'] += problems

    # stubs: the body of every API function is replaced; nothing of the real functions can run
    calls = {}
    originals = {}

    def make_stub(name):
        async def stub(request, *a, **kw):
            try:
                case = request.headers.get('X-Case')
            except Exception:
                case = None
            try:
                lvl = request.access_level
            except Exception:
                lvl = None
            calls.setdefault(case, []).append((name, lvl))
            # a GET answers a small document (so that anything a handler keeps from a served answer is really kept and can
            # show up later for another caller); other methods answer nothing (their default status is 204/201)
            try:
                return {'c09': 'stub'} if request.method == 'GET' else None
            except Exception:
                return None
        stub.__name__ = name.split('.')[-1]
        return stub

    stubbed = set()
    for w in wrappers.values():
        name = '%s.%s' % (w.__module__, w.__name__)
        originals[name] = w.__closure__[1].cell_contents
        stub = make_stub(name)
        w.__closure__[1].cell_contents = stub
        if hasattr(w, '__wrapped__'):
            w.__wrapped__ = stub  # functools.wraps exposes the real body; a call through it must not run it either
        stubbed.add(id(w))

    # safety net: a function handed to call_api_func that is not a stubbed api_call wrapper must not run for real
    real_call = web_base.APIHandler.call_api_func

    async def guarded_call_api_func(self, func, *a, **kw):
        if id(func) not in stubbed:
            case = self.request.headers.get('X-Case')
            calls.setdefault(case, []).append(
                ('UNCHECKED:%s.%s' % (getattr(func, '__module__', '?'), getattr(func, '__name__', '?')), self.access_level))
            self.set_status(599)
            await self.finish()
            return
        return await real_call(self, func, *a, **kw)

    web_base.APIHandler.call_api_func = guarded_call_api_func

    # with every API body stubbed nothing may schedule work on the hub's main loop or reboot: core.main.loop is a recorder
    # that attributes a call to the request being handled (the RequestHandler found on the caller's stack)
    from qtoggleserver import system as qs_system
    from qtoggleserver.core import main as core_main
    from tornado.web import RequestHandler

    def _current_case():
        f = inspect.currentframe()
        while f is not None:
            h = f.f_locals.get('self')
            if isinstance(h, RequestHandler):
                try:
                    return h.request.headers.get('X-Case'), getattr(h, 'access_level', None)
                except Exception:
                    return None, None
            f = f.f_back
        return None, None

    class _LoopRecorder:
        def _rec(self, what, fn):
            case, lvl = _current_case()
            calls.setdefault(case, []).append(
                ('SIDE-EFFECT:core.main.loop.%s(%s)' % (what, getattr(fn, '__name__', repr(fn))), lvl))

        def call_later(self, delay, fn, *a, **kw):
            self._rec('call_later', fn)

        def call_soon(self, fn, *a, **kw):
            self._rec('call_soon', fn)

        def create_task(self, coro, *a, **kw):
            self._rec('create_task', coro)
            try:
                coro.close()
            except Exception:
                pass

    def _reboot():
        case, lvl = _current_case()
        calls.setdefault(case, []).append(('SIDE-EFFECT:system.reboot', lvl))
    _reboot.__name__ = 'reboot'
    if core_main.loop is None:
        core_main.loop = _LoopRecorder()
    qs_system.reboot = _reboot

    def fresh_auth():
        # tokens carry iat and are refused after settings.core.max_client_time_skew (300 s): make them per flag set
        return {u: core_api_auth.make_auth_header(core_api_auth.ORIGIN_CONSUMER, u, hashes[u]) for u in PASSWORDS}
    levels = {None: core_api.ACCESS_LEVEL_NONE}
    for u in PASSWORDS:
        levels[u] = core_api.ACCESS_LEVEL_MAPPING[u]
    events_name = 'qtoggleserver.slaves.api.funcs.devices.post_slave_device_events'
    events_wrapper = next((w for w in wrappers.values() if '%s.%s' % (w.__module__, w.__name__) == events_name), None)
    impl = {'calls': calls, 'fresh_auth': fresh_auth, 'events_wrapper': events_wrapper, 'originals': originals,
            'wrappers_by_name': {'%s.%s' % (w.__module__, w.__name__): w for w in wrappers.values()},
            'events_original': originals.get(events_name), 'hashes': hashes, 'levels': levels, 'server': web_server, 'runtime_levels': runtime_levels,
            'n_wrappers': len(wrappers)}
    _state['impl'] = impl
    return impl


# ---------------------------------------------------------------------------------------------------------------------
# one flag set: routing table, application, requests

def sample_path(tmpl):
    return tmpl.replace('{+}', SAMPLE_REST).replace('{}', SAMPLE_ID)


def safe_template(rx):
    """URL shape of a running regex; a regex outside the translator's shapes keeps its own text as "shape" (the
    specification then does not know it) instead of stopping the harness"""
    try:
        return routes.template_of_regex(rx)
    except routes.Untranslatable:
        return rx, False


def sample_for_regex(rx):
    """a concrete path for a running URLSpec: from the URL shape, or, for foreign shapes, by filling every group"""
    import re
    tmpl, _ = safe_template(rx)
    if tmpl != rx:
        return sample_path(tmpl)
    p = rx.lstrip('^').rstrip('$')
    if p.endswith('/?'):
        p = p[:-2]
    prev = None
    while prev != p:   # innermost groups first
        prev = p
        p = re.sub(r'\((?:\?P<\w+>|\?:)?[^()]*\)[+*?]?', SAMPLE_ID, p)
    p = p.replace('.*', '').replace('.+', SAMPLE_ID).replace('\\', '')
    try:
        return p if re.match(rx, p) else None
    except re.error:
        return None


def spec_key(spec):
    h = spec.handler_class
    return spec.regex.pattern, (h.__name__ if h.__module__.startswith('qtoggleserver') else 'qui')


def is_qui(spec):
    return not spec.handler_class.__module__.startswith('qtoggleserver')


def expected_table(tr, on):
    """[(regex, handler)] the translated entries predict for the flags that are on; the opaque block is ('<qui>', 'qui')"""
    out = []
    for e in tr['entries']:
        if all(g in on for g in e['guard_atoms']):
            out.append(('<qui>', 'qui') if e['kind'] == 'KOpaque' else (tornado_pattern(e['regex']), e['handler']))
    return out


def tornado_pattern(rx):
    return rx if rx.endswith('$') else rx + '$'


def observed_table(table):
    out = []
    for s in table:
        if is_qui(s):
            if not out or out[-1] != ('<qui>', 'qui'):
                out.append(('<qui>', 'qui'))
        else:
            out.append(spec_key(s))
    return out


def classify(table, path):
    """(cls, tmpl) of a concrete path under the running table: first URLSpec whose regex matches"""
    for s in table:
        if s.regex.match(path):
            if is_qui(s):
                return 2, '<frontend-files>', s
            tmpl, _ = safe_template(s.regex.pattern)
            if tmpl in ('/api/*', '/*'):
                return 1, tmpl, s
            return 0, tmpl, s
    return 1, '<none>', None


async def build_app(impl, tr, flagset, workdir, res):
    """apply the flags, build the real routing table and application; cross-check the table with the translated one"""
    from qtoggleserver import web
    from qtoggleserver.conf import settings
    from tornado.web import Application
    for n in tr['flags']:
        apply_flag(n, n in flagset, workdir)
    if settings.frontend.enabled:
        await web.init()
    table = impl['server']._make_routing_table()
    exp, obs = expected_table(tr, flagset), observed_table(table)
    if exp != obs and not tr.get('fallback'):
        res['tie_failures'].append({'note': 'routing table differs from the translated one', 'flags_on': sorted(flagset),
                                    'translated': [x for x in exp if x not in obs][:6],
                                    'running': [x for x in obs if x not in exp][:6]})
    for s in table:
        if is_qui(s) and (s.regex.match('/api/x') or s.regex.match('/api/') or s.regex.pattern.startswith('^/api')):
            res['tie_failures'].append('a frontend-package route matches API paths: %s' % s.regex.pattern)
    app = Application(handlers=table, debug=False, compress_response=False)
    return table, app


def paths_for(tr, table, full):
    """concrete paths to request under one flag set: one per translated entry (enabled or not) and per running URLSpec,
    the unknown paths, the frontend paths; `full` adds the trailing-slash variants"""
    paths = []
    seen = set()

    def add(p):
        if p not in seen:
            seen.add(p)
            paths.append(p)
    for e in tr['entries']:
        if e['kind'] == 'KApi':
            add(sample_path(e['tmpl']))
            if full and e['slash']:
                add(sample_path(e['tmpl']) + '/')
    for s in table:
        if not is_qui(s):
            tmpl, slash = safe_template(s.regex.pattern)
            if tmpl not in ('/api/*', '/*'):
                p = sample_for_regex(s.regex.pattern)
                if p is not None:
                    add(p)
    for p in UNKNOWN_PATHS + QUI_PATHS:
        add(p)
    return paths


async def run_requests(impl, app, reqs):
    """reqs: list of dict(path, method, user, json) -> list of ('ran', name) | ('status', code) | ('err', text)"""
    from tornado.httpclient import AsyncHTTPClient, HTTPRequest
    from tornado.httpserver import HTTPServer
    from tornado.netutil import bind_sockets
    socks = bind_sockets(0, '127.0.0.1')
    port = socks[0].getsockname()[1]
    srv = HTTPServer(app)
    srv.add_sockets(socks)
    client = AsyncHTTPClient(force_instance=True, max_clients=48)
    calls = impl['calls']
    calls.clear()
    auth = impl['fresh_auth']()
    out = [None] * len(reqs)
    sem = asyncio.Semaphore(48)

    async def one(i, r):
        hd = {'X-Case': str(i)}
        if 'auth_header' in r:
            if r['auth_header'] is not None:
                hd['Authorization'] = r['auth_header']
        elif r['user']:
            hd['Authorization'] = auth[r['user']]
        body = None
        if r['method'] in ('POST', 'PUT', 'PATCH'):
            body = r['body'].replace('{CASE}', str(i)) if 'body' in r else '{}'
            hd['Content-Type'] = 'application/json' if r['json'] else 'text/plain'
        async with sem:
            try:
                resp = await client.fetch(
                    HTTPRequest('http://127.0.0.1:%d%s' % (port, r['path']), method=r['method'], headers=hd, body=body,
                                allow_nonstandard_methods=True, follow_redirects=False, request_timeout=30,
                                decompress_response=False),
                    raise_error=False)
                code = resp.code
            except Exception as e:  # connection level failure
                out[i] = ('err', '%s: %s' % (type(e).__name__, e))
                return
        ran = calls.get(str(i), [])
        if len(ran) > 1 and any(not n.startswith('SIDE-EFFECT:') for n, _ in ran):
            ran = [x for x in ran if not x[0].startswith('SIDE-EFFECT:')]   # effects of a served function are its own
        elif len(ran) > 1:
            ran = ran[:1]
        if len(ran) == 1:
            name, lvl = ran[0]
            if not name.startswith(('UNCHECKED:', 'SIDE-EFFECT:')) and not r.get('noauth') and lvl != impl['levels'][r['user']]:
                out[i] = ('ran', name, code, 'level seen by the function %r' % lvl)
            else:
                out[i] = ('ran', name, code)
        elif len(ran) > 1:
            out[i] = ('err', 'several API functions ran: %r' % (ran,))
        else:
            out[i] = ('status', code)

    try:
        await asyncio.gather(*[one(i, r) for i, r in enumerate(reqs)])
    finally:
        client.close()
        srv.stop()
        await srv.close_all_connections()
    return out


def make_reqs(paths, full_json):
    reqs = []
    for p in paths:
        for m in METHODS:
            for u in USERS:
                reqs.append({'path': p, 'method': m, 'user': u, 'json': True})
                if full_json and m in ('POST', 'PUT', 'PATCH'):
                    reqs.append({'path': p, 'method': m, 'user': u, 'json': False})
    return reqs


class Intern:
    """string constants of a shard, defined once and referred to by name (Coq elaborates long string literals slowly)"""

    def __init__(self):
        self.names = {}

    def __call__(self, s):
        if s not in self.names:
            self.names[s] = 's%d' % len(self.names)
        return self.names[s]

    def defs(self):
        return ''.join('Definition %s : string := %s.\n' % (n, coq.string(s)) for s, n in self.names.items())


def coq_obs(o, S):
    if o[0] == 'ran':
        return '(ORan %s)' % S(o[1])
    if o[0] == 'status':
        return '(OStatus %d)' % o[1]
    return '(OStatus (-1))'


def coq_case(c, S):
    return '(%d, %s, %s, %d, %s, %s)' % (c['cls'], S(c['tmpl']), c['method'], c['level'], coq.boolean(c['json']),
                                         coq_obs(c['observed'], S))


def violation_of(c, required=None):
    o = c['observed']
    lvl = c['level']
    if c['cls'] == 1:
        kind = 'unknown-route-not-404'
        what = '%s %s (no route of this shape is enabled) answered %s instead of 404' % (c['method'], c['path'], o[1:])
    elif required == -2:
        kind = 'route-served-without-its-feature'
        what = ('%s %s as %s (level %d) %s, but the feature this route belongs to is off in this configuration '
                '(route_condition_spec / method_condition_spec in coq/theories/C09/Spec.v): it must be an unknown route, 404'
                % (c['method'], c['path'], c['user'] or 'unauthenticated', lvl,
                   'ran %s' % o[1] if o[0] == 'ran' else 'was answered %s' % (o[1],)))
    elif o[0] == 'ran' and required == -1:
        kind = 'route-not-in-specification'
        what = ('%s %s as %s (level %d) ran %s, but no route of shape %s is in the specification (coq/theories/C09/Spec.v): '
                'its required level is not defined' % (c['method'], c['path'], c['user'] or 'unauthenticated', lvl, o[1],
                                                       c['tmpl']))
    elif o[0] == 'ran':
        kind = 'served-below-level'
        what = ('%s %s as %s (level %d) ran %s: the specification requires a higher level for this route and method'
                % (c['method'], c['path'], c['user'] or 'unauthenticated', lvl, o[1]))
    else:
        kind = 'wrong-refusal'
        what = ('%s %s as %s (level %d) was answered %d: not what the specification prescribes at this level '
                '(served iff level >= required; otherwise 401 when unauthenticated, 403 when authenticated)'
                % (c['method'], c['path'], c['user'] or 'unauthenticated', lvl, o[1]))
    return {
        'key': {'kind': kind, 'route': c['tmpl'], 'method': c['method'], 'level': lvl},
        'what': what,
        'case': {'flags_on': c['flags_on'], 'path': c['path'], 'method': c['method'], 'user': c['user'], 'json': c['json']},
        'expected': ('404 (unknown route)' if c['cls'] == 1 else
                     '404: the route\'s feature is off' if required == -2 else
                     'route not in the specification' if required == -1 else
                     'required level %s for %s %s; caller level %d: %s' % (
                         required, c['method'], c['tmpl'], lvl,
                         'serve' if required is not None and 0 <= required <= lvl else
                         'refuse with %d, body not run' % (401 if lvl == 0 else 403))),
        'observed': list(o),
    }


async def run_flagset(ctx, impl, tr, flagset, res, full, explicit=None):
    """-> list of case dicts for one flag set (explicit: list of request dicts instead of the enumeration)"""
    table, app = await build_app(impl, tr, flagset, ctx.workdir, res)
    reqs = explicit if explicit is not None else make_reqs(paths_for(tr, table, full), full)
    noauth = {n for n, c in tr['classes'].items() if not c['auth']}
    metas = []
    for r in reqs:
        cls, tmpl, spec = classify(table, r['path'])
        r['noauth'] = bool(spec is not None and spec.handler_class.__name__ in noauth)
        metas.append((cls, tmpl))
    outs = await run_requests(impl, app, reqs)
    cases = []
    for r, (cls, tmpl), o in zip(reqs, metas, outs):
        c = {'flags_on': sorted(flagset), 'path': r['path'], 'method': r['method'], 'user': r['user'], 'json': r['json'],
             'level': impl['levels'][r['user']], 'cls': cls, 'tmpl': tmpl, 'observed': o}
        if o[0] == 'err' or (o[0] == 'ran' and len(o) > 3):
            res['tie_failures'].append({'note': 'request did not complete as a single decision', 'case': c})
        cases.append(c)
    return cases


# ---------------------------------------------------------------------------------------------------------------------
# POST /devices/{name}/events: the function's own authentication, exercised with its REAL body

SLAVE_PASSWORD = 'c09-slave-admin-pw'
EV_SLAVES = {   # name -> (constructor arguments, facts (exists, has_hash, poll, listen))
    'c09offline': (dict(poll_interval=0, listen_enabled=False, admin_password=SLAVE_PASSWORD), (1, 1, 0, 0)),
    'c09polled': (dict(poll_interval=5, listen_enabled=False, admin_password=SLAVE_PASSWORD), (1, 1, 1, 0)),
    'c09listened': (dict(poll_interval=0, listen_enabled=True, admin_password=SLAVE_PASSWORD), (1, 1, 0, 1)),
    'c09nopw': (dict(poll_interval=0, listen_enabled=False, admin_password_hash=None), (1, 0, 0, 0)),
    'c09unknown': (None, (0, 0, 0, 0)),
}


def ev_credentials(impl, slave_hash, unset=False):
    """[(label, Authorization header or None, facts (present, jwt, iss, device, fresh, slave_key))]; slave_hash is the key
    the slave's genuine token is signed with"""
    import jwt
    from qtoggleserver.core.api import auth as core_api_auth
    now = int(time.time())
    sha = lambda p: hashlib.sha256(p.encode()).hexdigest()  # noqa: E731

    def tok(claims, key, alg='HS256'):
        return 'Bearer ' + jwt.encode(claims, key=key, algorithm=alg)
    hub = impl['fresh_auth']()
    dev = {'iss': 'qToggle', 'ori': 'device', 'iat': now}
    return [
        ('no-header', None, (0, 0, 0, 0, 0, 0)),
        ('garbage-bearer', 'Bearer abc.def.ghi', (1, 0, 0, 0, 0, 0)),
        ('basic-auth', 'Basic dXNlcjpwYXNz', (1, 0, 0, 0, 0, 0)),
        ('hub-consumer-viewonly', hub['viewonly'], (1, 1, 1, 0, 1, 0)),
        ('hub-consumer-normal', hub['normal'], (1, 1, 1, 0, 1, 0)),
        ('hub-consumer-admin', hub['admin'], (1, 1, 1, 0, 1, 0)),
        ('device-token-wrong-key', tok(dev, sha('guess')), (1, 1, 1, 1, 1, 0)),
        ('device-token-empty-password-key', tok(dev, sha('')), (1, 1, 1, 1, 1, 0)),
        ('device-token-hub-admin-key', tok(dev, impl['hashes']['admin']), (1, 1, 1, 1, 1, 0)),
        ('device-token-slave-key-hs512', tok(dev, slave_hash, 'HS512'), (1, 1, 1, 1, 1, 0)),
        # what the master itself sends TO the slave: consumer origin, usr admin, signed with the slave's admin hash
        ('consumer-token-slave-key', tok({'iss': 'qToggle', 'ori': 'consumer', 'usr': 'admin', 'iat': now}, slave_hash),
         (1, 1, 1, 0, 1, 1)),
        ('device-token-slave-key-bad-iss', tok(dict(dev, iss='other'), slave_hash), (1, 1, 0, 1, 1, 1)),
        # without a real date/time the device cannot judge iat: the token then counts as fresh
        ('device-token-slave-key-stale', tok(dict(dev, iat=now - 100000), slave_hash), (1, 1, 1, 1, 1 if unset else 0, 1)),
        ('device-token-forged-alg-none', forged_tokens('device', None)[0][1], (1, 1, 1, 1, 1, 0)),
        ('device-token-forged-hs512-junk-key', forged_tokens('device', None)[1][1], (1, 1, 1, 1, 1, 0)),
        # genuine: built the way a device signs its webhook calls (core/webhooks.py): make_auth_header(ORIGIN_DEVICE, None, hash)
        ('device-token-slave-key', core_api_auth.make_auth_header(core_api_auth.ORIGIN_DEVICE, None, slave_hash),
         (1, 1, 1, 1, 1, 1)),
        ('device-token-slave-key-with-usr', tok(dict(dev, usr='admin'), slave_hash), (1, 1, 1, 1, 1, 1)),
    ]


async def events_phase(ctx, impl, tr, res, flagset, unset=False):
    """-> list of event cases {slave, credential, sfacts, cfacts, observed, flags_on}"""
    from qtoggleserver.slaves import devices as slaves_devices
    w = impl['events_wrapper']
    if w is None or impl['events_original'] is None:
        res['tie_failures'].append('post_slave_device_events not found among the api_call wrappers: its own '
                                   'authentication is not exercised')
        return []
    table, app = await build_app(impl, tr, flagset, ctx.workdir, res)
    calls = impl['calls']
    registered = []
    stub = w.__closure__[1].cell_contents
    slave_hash = hashlib.sha256(SLAVE_PASSWORD.encode()).hexdigest()
    reqs, metas = [], []
    try:
        for name, (kw, sfacts) in EV_SLAVES.items():
            if kw is not None:
                slave = slaves_devices.Slave(name=name, scheme='http', host='127.0.0.1', port=9, path='/',
                                             attrs={'name': name, 'display_name': 'c09', 'flags': []}, **kw)

                async def handle_event(event, _name=name):
                    case = str((event.get('params') or {}).get('case'))
                    calls.setdefault(case, []).append(('slave.handle_event:' + _name, None))

                async def save():
                    return None
                # recorders on the instance: the event must not touch anything; reaching handle_event = "served"
                slave.handle_event = handle_event
                slave.save = save
                slave.update_last_sync = lambda: None
                slave.schedule_provisioning_and_update = lambda delay: None
                slaves_devices._slaves_by_name[name] = slave
                registered.append(name)
            # (PyJWT refuses an empty HMAC key, so for the slave without a password hash the "genuine" tokens are signed
            # with the same key as for the others: nothing can verify there, s_has_hash = false decides)
            for label, header, cfacts in ev_credentials(impl, slave_hash, unset):
                path = '/api/devices/%s/events' % name
                reqs.append({'path': path, 'method': 'POST', 'user': None, 'json': True, 'noauth': True,
                             'auth_header': header, 'body': '{"type": "c09-probe", "params": {"case": {CASE}}}'})
                metas.append({'flags_on': sorted(flagset), 'clock': 'unset (before 2019)' if unset else 'real',
                              'path': path, 'method': 'POST', 'slave': name,
                              'credential': label, 'sfacts': sfacts, 'cfacts': cfacts})
        w.__closure__[1].cell_contents = impl['events_original']   # the real body, for this phase only
        outs = await run_requests(impl, app, reqs)
    finally:
        w.__closure__[1].cell_contents = stub
        for name in registered:
            slaves_devices._slaves_by_name.pop(name, None)
    for m, o in zip(metas, outs):
        m['observed'] = o
        if o[0] == 'err':
            res['tie_failures'].append({'note': 'slave events request did not complete', 'case': m})
    return metas


def evaluate_events(ctx, res, cases):
    if not cases:
        return 0
    b = coq.boolean
    text = 'Definition evcases : list evcase := [\n%s\n].\n' % ';\n'.join(
        ' (mk_slave %s, mk_cred %s, %s)' % (' '.join(b(x) for x in c['sfacts']), ' '.join(b(x) for x in c['cfacts']),
                                           '(ORan "handle_event")' if c['observed'][0] == 'ran' else
                                           '(OStatus %d)' % (c['observed'][1] if c['observed'][0] == 'status' else -1))
        for c in cases)
    if ctx.model_ok:
        evals, hdr = ['bad_events_model evcases', 'bad_events_spec evcases'], HEADER
    else:
        evals, hdr = ['bad_events_spec evcases'], HEADER.replace('C09.Run', 'C09.SpecRun')
    (rc, lists, err), = coq.eval_shards(ctx.workdir, 'c09events_%d' % _state.get('round', 0), hdr, [text], evals)
    if rc != 0 or len(lists) != len(evals):
        res['tie_failures'].append('coqc failed on the slave events cases: %s' % err[-600:])
        return len(cases)
    bad_model, bad_spec = (lists if ctx.model_ok else ([], lists[0]))
    show = lambda c: {k: c[k] for k in ('flags_on', 'path', 'method', 'slave', 'credential', 'observed')}  # noqa: E731
    for i in bad_model:
        res['tie_failures'].append({'note': 'model of post_slave_device_events differs from the real body', 'case': show(cases[i])})
    for i in bad_spec:
        c = cases[i]
        exists, has_hash, poll, listen = c['sfacts']
        verifies = all(c['cfacts']) and has_hash
        expected = ('404 (no such slave)' if not exists else '401, event not applied' if not verifies else
                    '400 (slave is polled / listened to)' if poll or listen else 'served (event handed to the slave)')
        o = c['observed']
        res['violations'].append({
            'key': {'kind': 'slave-events-authentication', 'slave': c['slave'], 'credential': c['credential']},
            'what': 'POST %s with credential "%s" (device clock %s) %s; the specification says: %s' % (
                c['path'], c['credential'], c['clock'],
                'was served: the event reached the slave object' if o[0] == 'ran' else 'was answered %s' % (o[1],), expected),
            'case': {'flags_on': c['flags_on'], 'clock': c['clock'], 'path': c['path'], 'method': 'POST', 'slave': c['slave'],
                     'credential': c['credential'], 'phase': 'slave-events (real function body, registered slave objects)'},
            'expected': expected,
            'observed': list(o),
        })
    return len(cases)


@contextlib.contextmanager
def device_clock(unset):
    """unset=True: the device has no real date/time (system.date.has_real_date_time() is false): the two modules that ask the
    wall clock for that purpose (system/date.py, core/api/auth.py) see a clock in 2001; nothing else does"""
    if not unset:
        yield
        return
    import types
    from qtoggleserver.core.api import auth as core_api_auth
    from qtoggleserver.system import date as system_date
    fake = types.SimpleNamespace(time=lambda: 1000000000.0)
    saved = (system_date.time, core_api_auth.time)
    system_date.time = core_api_auth.time = fake
    try:
        if system_date.has_real_date_time():
            raise RuntimeError('the harness could not unset the device clock')
        yield
    finally:
        system_date.time, core_api_auth.time = saved


def forged_tokens(origin, usr):
    """tokens nobody with a password could have made: [(label, header)]; claims as make_auth_header issues them now"""
    import jwt
    from qtoggleserver import system
    claims = {'iss': 'qToggle', 'ori': origin}
    if usr:
        claims['usr'] = usr
    if system.date.has_real_date_time():
        claims['iat'] = int(time.time())
    return [
        ('forged-alg-none', 'Bearer ' + jwt.encode(claims, key=None, algorithm='none')),
        ('forged-hs512-junk-key', 'Bearer ' + jwt.encode(claims, key='c09-junk-key-' * 6, algorithm='HS512')),
    ]


# ---------------------------------------------------------------------------------------------------------------------
# the level granted by prepare(): the sweep under the 8 empty / non-empty configurations of the three passwords (stubbed)

async def auth_phase(ctx, impl, tr, res, flagset):
    """-> list of cases {pw_config, path, tmpl, method, header, facts (present, valid, admin_empty, token_level), observed}"""
    from qtoggleserver.core.api import auth as core_api_auth
    from qtoggleserver.core.device import attrs as core_device_attrs
    table, app = await build_app(impl, tr, flagset, ctx.workdir, res)
    pairs = []   # (path, tmpl, method)
    for e in tr['entries']:
        if e['kind'] == 'KApi' and all(g in flagset for g in e['guard_atoms']):
            for m in METHODS:
                if m in tr['classes'][e['handler']]['methods']:
                    pairs.append((sample_path(e['tmpl']), e['tmpl'], m))
    if not pairs:   # translator fallback: every running API URLSpec x the methods that carry functions today
        for sp in table:
            if not is_qui(sp):
                tmpl, _ = safe_template(sp.regex.pattern)
                path = sample_for_regex(sp.regex.pattern)
                if tmpl not in ('/api/*', '/*') and path:
                    pairs += [(path, tmpl, m) for m in ('GET', 'POST', 'PUT', 'PATCH', 'DELETE')]
    saved = {u: getattr(core_device_attrs, u + '_password_hash') for u in PASSWORDS}
    empty = core_device_attrs.EMPTY_PASSWORD_HASH
    wrong = hashlib.sha256(b'c09-not-a-password').hexdigest()
    out = []
    try:
        plan = [(False, bits) for bits in itertools.product([0, 1], repeat=3)]   # 1 = password set
        plan += [(True, (1, 1, 1)), (True, (0, 0, 0))]                            # device clock unset
        for unset, bits in plan:
          with device_clock(unset):
            cfg = dict(zip(('admin', 'normal', 'viewonly'), bits))
            for u, b in cfg.items():
                setattr(core_device_attrs, u + '_password_hash', impl['hashes'][u] if b else empty)
            admin_empty = not cfg['admin']
            headers = [('no-header', None, (False, False, 0))]
            for u in ('viewonly', 'normal', 'admin'):
                cur = impl['hashes'][u] if cfg[u] else empty
                headers.append(('valid-%s-token' % u, core_api_auth.make_auth_header(core_api_auth.ORIGIN_CONSUMER, u, cur),
                                (True, True, impl['levels'][u])))
            headers.append(('admin-token-wrong-key', core_api_auth.make_auth_header(core_api_auth.ORIGIN_CONSUMER, 'admin', wrong),
                            (True, False, impl['levels']['admin'])))
            headers.append(('garbage-bearer', 'Bearer abc.def.ghi', (True, False, 0)))
            for u in ('admin', 'viewonly'):
                for label, hdr in forged_tokens(core_api_auth.ORIGIN_CONSUMER, u):
                    headers.append(('%s-%s' % (label, u), hdr, (True, False, impl['levels'][u])))
            reqs, metas = [], []
            for path, tmpl, m in pairs:
                for label, hdr, (present, valid, tl) in headers:
                    reqs.append({'path': path, 'method': m, 'user': None, 'json': True, 'noauth': True, 'auth_header': hdr})
                    metas.append({'flags_on': sorted(flagset), 'clock': 'unset (before 2019)' if unset else 'real',
                                  'pw_config': {u: ('set' if b else 'empty') for u, b in cfg.items()},
                                  'path': path, 'tmpl': tmpl, 'method': m, 'header': label,
                                  'facts': (present, valid, admin_empty, tl)})
            outs = await run_requests(impl, app, reqs)
            for mt, o in zip(metas, outs):
                mt['observed'] = o
                out.append(mt)
    finally:
        for u, h in saved.items():
            setattr(core_device_attrs, u + '_password_hash', h)
    return out


def evaluate_auth(ctx, res, cases):
    if not cases:
        return 0
    shards, metas = [], []
    for i in range(0, len(cases), 1000):
        part = cases[i:i + 1000]
        S = Intern()
        text = 'Definition on : list string := %s.\nDefinition acases : list acase := [\n%s\n].\n' % (
            coq.lst(part[0]['flags_on'], S),
            ';\n'.join(' (%s, %s, %s, %s, %s, %d, %s)' % (
                S(c['tmpl']), c['method'], coq.boolean(c['facts'][0]), coq.boolean(c['facts'][1]),
                coq.boolean(c['facts'][2]), c['facts'][3], coq_obs(c['observed'], S)) for c in part))
        shards.append(S.defs() + text)
        metas.append(part)
    if ctx.model_ok:
        evals, hdr = ['bad_auth_model on acases', 'bad_auth_spec acases'], HEADER
    else:
        evals, hdr = ['bad_auth_spec acases'], HEADER.replace('C09.Run', 'C09.SpecRun')
    outs = coq.eval_shards(ctx.workdir, 'c09auth_%d' % _state.get('round', 0), hdr, shards, evals, jobs=COQ_JOBS)
    show = lambda c: {k: c[k] for k in ('flags_on', 'clock', 'pw_config', 'path', 'method', 'header', 'observed')}  # noqa: E731
    for (rc, lists, err), part in zip(outs, metas):
        if rc != 0 or len(lists) != len(evals):
            res['tie_failures'].append('coqc failed on the password-configuration cases: %s' % err[-600:])
            continue
        bad_model, bad_spec = (lists if ctx.model_ok else ([], lists[0]))
        for i in bad_model:
            res['tie_failures'].append({'note': 'model (grant + tables) differs from the implementation', 'case': show(part[i])})
        for i in bad_spec:
            c = part[i]
            present, valid, admin_empty, tl = c['facts']
            lvl = (tl if valid else 0) if present else (30 if admin_empty else 0)
            o = c['observed']
            res['violations'].append({
                'key': {'kind': 'level-granted', 'header': c['header'], 'admin_password': c['pw_config']['admin'],
                        'clock': c['clock'].split()[0],
                        'route': c['tmpl'], 'method': c['method']},
                'what': '%s %s with %s under passwords %s, device clock %s, %s; the specification grants level %d to this request '
                        '(a header is judged alone; only a request without header is admin when the admin password is empty)'
                        % (c['method'], c['path'], c['header'], c['pw_config'], c['clock'],
                           'ran %s' % o[1] if o[0] == 'ran' else 'was answered %s' % (o[1],), lvl),
                'case': dict(show(c), phase='password configurations (stubbed bodies)'),
                'expected': 'the decision of required_spec for level %d' % lvl,
                'observed': list(o),
            })
    return len(cases)


# ---------------------------------------------------------------------------------------------------------------------
# credentials as state: histories on the un-stubbed /device functions, run by harness/props/c09_worker.py in a fresh process

def run_state_worker(ctx, res, n_random):
    import subprocess
    out = os.path.join(ctx.workdir, 'c09_state.json')
    env = dict(os.environ)
    p = subprocess.run([sys.executable, '-m', 'harness.props.c09_worker', out, str(ctx.seed), str(n_random)],
                       cwd=coq.VERIF, env=env, capture_output=True, text=True, timeout=900)
    if p.returncode != 0 or not os.path.exists(out):
        res['tie_failures'].append('state worker failed: %s' % (p.stderr or p.stdout)[-1200:])
        return None
    with open(out) as f:
        return json.load(f)


def _coq_user(u):
    return {'admin': 'UAdmin', 'normal': 'UNormal', 'viewonly': 'UViewonly'}[u]


def _coq_cred(c):
    if c[0] == 'none':
        return 'CrNone'
    if c[0] == 'garbage':
        return 'CrGarbage'
    return '(CrToken %s %d)' % (_coq_user(c[1]), c[2])


def _coq_op(o):
    if o[0] == 'setpw':
        return '(OpSetPw %s %d)' % (_coq_user(o[1]), o[2])
    return {'put': 'OpPutDevice', 'patchother': 'OpPatchOther', 'restart': 'OpRestart'}[o[0]]


def evaluate_state(ctx, res, data):
    """data: {'flags_on': [...], 'histories': [{'steps': [{'op','cred','observed'}], 'probes': [{'tmpl','path','method','cred',
    'observed'}]}]} -> one Coq case for the steps of each history and one per probe"""
    if not data:
        return 0
    items = []   # (history index, probe index or None)
    for hi, h in enumerate(data['histories']):
        items.append((hi, None))
        items += [(hi, pi) for pi in range(len(h['probes']))]
    shards, metas = [], []
    for i in range(0, len(items), 1000):
        part = items[i:i + 1000]
        S = Intern()
        step_names = {}
        defs = []
        rows = []
        for hi, pi in part:
            h = data['histories'][hi]
            if hi not in step_names:
                step_names[hi] = 'h%d' % hi
                defs.append('Definition h%d : list hstep := %s.' % (hi, coq.lst(
                    h['steps'], lambda st: '(%s, %s, %s)' % (_coq_op(st['op']), _coq_cred(st['cred']),
                                                           coq_obs(tuple(st['observed']), S)))))
            if pi is None:
                rows.append(' (h%d, [])' % hi)
            else:
                pr = h['probes'][pi]
                rows.append(' (h%d, [(%s, %s, %s, %s)])' % (hi, S(pr['tmpl']), pr['method'], _coq_cred(pr['cred']),
                                                            coq_obs(tuple(pr['observed']), S)))
        text = ('Definition on : list string := %s.\n' % coq.lst(data['flags_on'], S) + '\n'.join(defs)
                + '\nDefinition hcases : list hcase := [\n%s\n].\n' % ';\n'.join(rows))
        shards.append(S.defs() + text)
        metas.append(part)
    if ctx.model_ok:
        evals, hdr = ['bad_hist_model on hcases', 'bad_hist_spec hcases'], HEADER
    else:
        evals, hdr = ['bad_hist_spec hcases'], HEADER.replace('C09.Run', 'C09.SpecRun')
    outs = coq.eval_shards(ctx.workdir, 'c09hist_%d' % _state.get('round', 0), hdr, shards, evals, jobs=COQ_JOBS)

    def describe(hi, pi):
        h = data['histories'][hi]
        d = {'flags_on': data['flags_on'], 'phase': 'credential histories (real /device bodies, fresh process)',
             'initial_state': 'factory: all three passwords empty',
             'steps': [{'op': st['op'], 'credential': st['cred'], 'request': st['request'], 'observed': st['observed']}
                       for st in h['steps']]}
        if pi is not None:
            pr = h['probes'][pi]
            d['probe'] = {'method': pr['method'], 'path': pr['path'], 'credential': pr['cred'], 'observed': pr['observed']}
        return d
    bad_steps_model, bad_steps_spec = set(), set()
    for (rc, lists, err), part in zip(outs, metas):
        if rc != 0 or len(lists) != len(evals):
            res['tie_failures'].append('coqc failed on the credential histories: %s' % err[-600:])
            continue
        bad_model, bad_spec = (lists if ctx.model_ok else ([], lists[0]))
        for i in bad_model:
            hi, pi = part[i]
            if pi is None:
                bad_steps_model.add(hi)
            if pi is None or hi not in bad_steps_model:
                res['tie_failures'].append({'note': 'model of the credential history differs from the implementation',
                                            'case': describe(hi, pi)})
        for i in bad_spec:
            hi, pi = part[i]
            if pi is None:
                bad_steps_spec.add(hi)
            elif hi in bad_steps_spec:
                continue
            d = describe(hi, pi)
            hist = ' ; '.join('%s as %s -> %s' % (st['request'], st['cred'], st['observed'][-1] if st['observed'][0] == 'status'
                                                  else 'served') for st in data['histories'][hi]['steps'])
            if pi is None:
                what = 'a step of the history [%s] was decided against the specification' % hist
                key = {'kind': 'credential-history-step', 'ops': [st['op'][0] for st in data['histories'][hi]['steps']]}
            else:
                pr = data['histories'][hi]['probes'][pi]
                o = pr['observed']
                what = ('after [%s]: %s %s with credential %s %s, against the level this caller has in the password state the '
                        'history should have produced (PUT /device keeps the passwords)'
                        % (hist, pr['method'], pr['path'], pr['cred'], 'ran %s' % o[1] if o[0] == 'ran' else 'was answered %s' % (o[1],)))
                key = {'kind': 'credential-history-probe', 'ops': [st['op'][0] for st in data['histories'][hi]['steps']],
                       'route': pr['tmpl'], 'method': pr['method'], 'credential': pr['cred'][0]}
            res['violations'].append({'key': key, 'what': what, 'case': d,
                                      'expected': 'decision of required_spec at the level of cred_level grant_spec in the '
                                                  'state reached by step_spec (coq/theories/C09/Spec.v)',
                                      'observed': d.get('probe', {}).get('observed') or [st['observed'] for st in d['steps']]})
    return sum(len(h['steps']) + len(h['probes']) for h in data['histories'])


def evaluate_listen(ctx, res, data):
    """the listeners of GET /listen (real body, run by the state worker): delivered event types vs model and specification"""
    if not data or 'listen' not in data:
        return 0
    lis = data['listen']
    if 'error' in lis:
        res['tie_failures'].append('listen phase: ' + lis['error'])
        return 0
    cases = []
    for c in lis['cases']:
        if c['status'] != 200 or c['delivered'] is None:
            res['tie_failures'].append({'note': 'a listener was not answered 200 with a list of events', 'case': c})
        else:
            cases.append(c)
    if not cases:
        return 0
    S = Intern()
    text = 'Definition lcases : list lcase := [\n%s\n].\n' % ';\n'.join(
        ' (%d, %d, %s, %s)' % (c['level'], c['timeout'] or 0, coq.lst(c['triggered'], S), coq.lst(c['delivered'], S))
        for c in cases)
    if ctx.model_ok:
        evals, hdr = ['bad_listen_model lcases', 'bad_listen_spec lcases'], HEADER
    else:
        evals, hdr = ['bad_listen_spec lcases'], HEADER.replace('C09.Run', 'C09.SpecRun')
    (rc, lists, err), = coq.eval_shards(ctx.workdir, 'c09listen_%d' % _state.get('round', 0), hdr, [S.defs() + text], evals,
                                        jobs=COQ_JOBS)
    if rc != 0 or len(lists) != len(evals):
        res['tie_failures'].append('coqc failed on the listen cases: %s' % err[-600:])
        return len(cases)
    bad_model, bad_spec = (lists if ctx.model_ok else ([], lists[0]))
    for i in bad_model:
        res['tie_failures'].append({'note': 'model of what GET /listen delivers differs from the implementation', 'case': cases[i]})
    for i in bad_spec:
        c = cases[i]
        res['violations'].append({
            'key': {'kind': 'listen-content', 'user': c['user'], 'timeout': c['timeout'],
                    'handover': bool(c.get('scenario'))},
            'what': '%sGET /api/listen%s as %s (level %d) while %s were triggered was answered the events %s: a listener must '
                    'receive exactly the triggered events whose level (event_level_spec) is at most its own'
                    % ('[%s] ' % c['scenario'] if c.get('scenario') else '',
                       '' if c['timeout'] is None else '?timeout=%d' % c['timeout'], c['user'], c['level'], c['triggered'],
                       c['delivered']),
            'case': dict(c, flags_on=data['flags_on'], phase='listen (real get_listen / sessions / PATCH /device, fresh process)'),
            'expected': 'the triggered events permitted at level %d' % c['level'],
            'observed': c['delivered'],
        })
    res['distribution']['listen_cases'] = len(cases)
    if cases:
        res['samples'].insert(0, {'listen': cases[0]})
    return len(cases)


def flag_sets(tr, defaults, mode, rng):
    names = tr['flags']
    base = frozenset(n for n in names if defaults[n])
    sets = [base]

    def add(s):
        s = frozenset(s)
        if s not in sets:
            sets.append(s)
    for n in names:
        add(base ^ {n})
    if mode in ('pairs', 'thorough'):
        for a, b in itertools.combinations(names, 2):
            add(base ^ {a, b})
        add(names)
        add([])
    if mode == 'thorough':
        for _ in range(30):
            add([n for n in names if rng.random() < 0.5])
    return sets


def evaluate(ctx, res, groups):
    """groups: list of (flagset, [case]) -> fills tie_failures / violations from the Coq evaluation"""
    flat = [(fs, c) for fs, cs in groups for c in cs]
    shards, metas = [], []
    cur, cur_n, cur_cases = [], 0, []

    def flush():
        nonlocal cur, cur_n, cur_cases
        if cur:
            S = Intern()
            text = 'Definition groups : list (list string * list case) := [\n%s\n].\n' % ';\n'.join(
                ' (%s, [\n  %s])' % (coq.lst(sorted(fs), S), ';\n  '.join(coq_case(c, S) for c in cs))
                for fs, cs in cur)
            shards.append(S.defs() + text)
            metas.append(cur_cases)
        cur, cur_n, cur_cases = [], 0, []

    for fs, cs in groups:
        for i in range(0, len(cs), 1000):
            part = cs[i:i + 1000]
            if cur_n + len(part) > 1000:
                flush()
            cur.append((fs, part))
            cur_cases += part
            cur_n += len(part)
    flush()
    have_model = ctx.model_ok
    if not have_model:
        coq.build(['theories/C09/SpecRun.vo'])
    if have_model:
        outs = coq.eval_shards(ctx.workdir, 'c09cases_%d' % _state.setdefault('round', 0), HEADER, shards,
                               ['bad_model groups', 'bad_spec groups', 'bad_spec_required groups'], jobs=COQ_JOBS)
    else:
        res['tie_failures'].append('model not built; cases evaluated against the specification only')
        hdr = HEADER.replace('C09.Run', 'C09.SpecRun')
        outs = coq.eval_shards(ctx.workdir, 'c09spec_%d' % _state.setdefault('round', 0), hdr, shards,
                               ['bad_spec groups', 'bad_spec_required groups'], jobs=COQ_JOBS)
    _state['round'] += 1
    for (rc, lists, err), cases in zip(outs, metas):
        want = 3 if have_model else 2
        if rc != 0 or len(lists) != want:
            res['tie_failures'].append('coqc failed on a case shard: %s' % err[-600:])
            continue
        bad_model, bad_spec, required = (lists if have_model else ([], lists[0], lists[1]))
        for i in bad_model:
            res['tie_failures'].append({'note': 'model differs from implementation', 'case': cases[i]})
        for i, rq in zip(bad_spec, required):
            res['violations'].append(violation_of(cases[i], rq))
    return len(flat)


def routing_sweep(ctx, impl, tr, res, sets):
    """for every flag set: the running table equals the translated one (python) and the real tornado router resolves a
    sample path of every URL shape to the handler class the Coq model names (vm_compute)"""
    from tornado.httputil import HTTPHeaders, HTTPServerRequest
    tmpls = [(e['tmpl'], sample_path(e['tmpl'])) for e in tr['entries'] if e['kind'] != 'KOpaque' and e['tmpl'] not in
             ('/api/*', '/*')]
    tmpls += [('/api/nonexistent', '/api/nonexistent'), ('/nonapi/x', '/nonapi/x'), ('<frontend-files>', '/frontend/')]
    rows = []
    before = len(res['tie_failures'])

    async def go():
        for fs in sets:
            table, app = await build_app(impl, tr, fs, ctx.workdir, res)
            got = []
            for _tmpl, path in tmpls:
                req = HTTPServerRequest(method='GET', uri=path, version='HTTP/1.1', headers=HTTPHeaders(), host='127.0.0.1')
                d = app.find_handler(req)
                h = d.handler_class
                name = h.__name__ if h.__module__.startswith('qtoggleserver') else 'qui'
                got.append(name)
            rows.append((fs, got))
            if len(res['tie_failures']) - before > 20:
                break
    asyncio.run(go())
    shards, metas = [], []
    for i in range(0, len(rows), 1000):
        part = rows[i:i + 1000]
        S = Intern()
        text = ('Definition tmpls : list string := %s.\n' % coq.lst([t for t, _ in tmpls], S)
                + 'Definition sets : list (list string * list string) := [\n%s\n].\n' % ';\n'.join(
                    ' (%s, %s)' % (coq.lst(sorted(fs), S), coq.lst(got, S)) for fs, got in part))
        shards.append(S.defs() + text)
        metas.append(part)
    if ctx.model_ok:
        outs = coq.eval_shards(ctx.workdir, 'c09routing', HEADER, shards, ['bad_routing tmpls sets'], jobs=COQ_JOBS)
        for (rc, lists, err), part in zip(outs, metas):
            if rc != 0 or len(lists) != 1:
                res['tie_failures'].append('coqc failed on a routing shard: %s' % err[-600:])
                continue
            for i in lists[0][:5]:
                res['tie_failures'].append({'note': 'tornado resolves a URL shape to another handler than the model',
                                            'flags_on': sorted(part[i][0]),
                                            'resolved': list(zip([t for t, _ in tmpls], part[i][1]))})
    return len(rows), len(rows) * len(tmpls)


def load_corpus():
    out = []
    for p in sorted(glob.glob(os.path.join(coq.VERIF, 'corpus', 'C09', '*.json'))):
        with open(p) as f:
            d = json.load(f)
        for c in d.get('cases', [d.get('case')] if d.get('case') else []):
            out.append(c)
    return out


def run(ctx, res, mode):
    tr = routes.LAST
    if tr is None:
        # fail closed: the tie is reported broken; the real application is still driven (paths from the running routing
        # table, the flags the harness knows) so that the specification oracle can produce a concrete failing request
        res['tie_failures'].append('translator failed: requests are enumerated from the running routing table only')
    impl = setup_impl(ctx, res)
    if tr is None:
        tr = runtime_tables(impl)
    defaults = default_flags(tr['flags'], ctx.workdir)
    sets = flag_sets(tr, defaults, mode, ctx.rng)
    groups = []
    t0 = time.time()

    async def go():
        # corpus / replay first
        seeds = []
        if ctx.replay:
            with open(ctx.replay) as f:
                d = json.load(f)
            seeds += [c for c in [d.get('case')] + [o.get('case') for o in d.get('others', [])]
                      if isinstance(c, dict) and 'path' in c]
        seeds += load_corpus()
        by_flags = {}
        for s in seeds:
            by_flags.setdefault(frozenset(s['flags_on']), []).append(
                {'path': s['path'], 'method': s['method'], 'user': s.get('user'), 'json': s.get('json', True)})
        for fs, reqs in by_flags.items():
            groups.append((fs, await run_flagset(ctx, impl, tr, fs, res, False, explicit=reqs)))
        res['distribution']['corpus_and_replay_cases'] = len(seeds)
        for i, fs in enumerate([] if ctx.replay else sets):
            full = (i == 0) or mode == 'thorough'
            groups.append((fs, await run_flagset(ctx, impl, tr, fs, res, full)))
        # the slave events endpoint with its real body (always: 75 requests), slaves enabled
        ev_sets = [frozenset(sets[0] | {'settings.slaves.enabled'})]
        if mode != 'quick':
            ev_sets.append(frozenset(tr['flags']))
        for fs in ev_sets:
            evcases.extend(await events_phase(ctx, impl, tr, res, fs))
        with device_clock(True):
            evcases.extend(await events_phase(ctx, impl, tr, res, ev_sets[0], unset=True))
        # the level granted by prepare() under the 8 password configurations (always)
        authcases.extend(await auth_phase(ctx, impl, tr, res, sets[0]))
    evcases, authcases = [], []
    asyncio.run(go())
    t_impl = time.time() - t0
    # credentials as state, in a fresh process (always)
    t_w = time.time()
    state = run_state_worker(ctx, res, 40 if mode == 'quick' else 400)
    res['extra']['state_worker_wall_s'] = round(time.time() - t_w, 2)
    n = evaluate(ctx, res, groups)
    n += evaluate_events(ctx, res, evcases)
    n += evaluate_auth(ctx, res, authcases)
    n += evaluate_state(ctx, res, state)
    n += evaluate_listen(ctx, res, state)
    res['distribution']['password_configuration_cases'] = len(authcases)
    if state:
        res['distribution']['credential_histories'] = len(state['histories'])
        res['distribution']['credential_history_steps'] = sum(len(h['steps']) for h in state['histories'])
        res['distribution']['credential_history_probes'] = sum(len(h['probes']) for h in state['histories'])
        res['distinct_nontrivial'] += sum(1 for h in state['histories'] if any(st['observed'][0] == 'ran' for st in h['steps']))
        if state['histories']:
            h = state['histories'][0]
            res['samples'].insert(0, {'credential_history': [[st['request'], st['cred'], st['observed']] for st in h['steps']],
                                      'probes': [[pr['method'], pr['path'], pr['cred'], pr['observed']] for pr in h['probes'][:4]]})
    for c in authcases:
        if c['header'] == 'valid-normal-token' and c['pw_config']['admin'] == 'empty' and c['tmpl'] == '/api/device' \
                and c['method'] == 'GET' and c['pw_config']['normal'] == 'set':
            res['samples'].insert(0, {k: c[k] for k in ('pw_config', 'path', 'method', 'header', 'observed')})
            break
    res['evaluations'] += n
    res['distribution']['slave_events_cases'] = res['distribution'].get('slave_events_cases', 0) + len(evcases)
    res['distribution']['slave_events_served'] = sum(1 for c in evcases if c['observed'][0] == 'ran')
    for c in evcases:
        if c['credential'] in ('device-token-slave-key', 'hub-consumer-admin') and c['slave'] == 'c09offline' \
                and sum(1 for x in res['samples'] if 'credential' in x) < 2:
            res['samples'].insert(0, {k: c[k] for k in ('flags_on', 'path', 'slave', 'credential', 'observed')})

    # measured coverage
    dist = res['distribution']
    nontrivial = set()
    for fs, cs in groups:
        for c in cs:
            o = c['observed']
            k = 'observed:' + ('ran' if o[0] == 'ran' else str(o[1]) if o[0] == 'status' else 'err')
            dist[k] = dist.get(k, 0) + 1
            dist['class:%d' % c['cls']] = dist.get('class:%d' % c['cls'], 0) + 1
            dist['method:' + c['method']] = dist.get('method:' + c['method'], 0) + 1
            dist['level:%d' % c['level']] = dist.get('level:%d' % c['level'], 0) + 1
            if c['cls'] == 0 and (o[0] == 'ran' or (o[0] == 'status' and o[1] in (401, 403))):
                nontrivial.add((tuple(c['flags_on']), c['path'], c['method'], c['level'], c['json']))
    res['distinct_nontrivial'] += len(nontrivial)
    dist['flag_sets_with_http'] = dist.get('flag_sets_with_http', 0) + (0 if ctx.replay else len(sets))
    dist['api_functions_stubbed'] = impl['n_wrappers']
    funcs_ran = {c['observed'][1] for _, cs in groups for c in cs if c['observed'][0] == 'ran'}
    dist['distinct_api_functions_reached'] = len(funcs_ran)
    never = sorted(set(impl['runtime_levels']) - funcs_ran)
    if never:
        res['extra']['api_functions_never_reached'] = never
    for fs, cs in groups[-1:]:
        for c in cs[:: max(1, len(cs) // 6)][:6]:
            if len(res['samples']) < 12:
                res['samples'].append({k: c[k] for k in ('flags_on', 'path', 'method', 'user', 'json', 'observed')})
    for fs, cs in groups[:3]:
        for c in cs:
            if c['cls'] == 0 and c['observed'][0] == 'status' and c['observed'][1] in (401, 403) and len(res['samples']) < 12:
                res['samples'].append({k: c[k] for k in ('flags_on', 'path', 'method', 'user', 'json', 'observed')})
                break
    res['extra']['impl_wall_s'] = round(res['extra'].get('impl_wall_s', 0) + t_impl, 2)

    # routing sweep over flag sets
    if routes.LAST is not None and not ctx.replay:
        names = tr['flags']
        if mode == 'thorough':
            sweep = [frozenset(n for n, b in zip(names, bits) if b) for bits in itertools.product([0, 1], repeat=len(names))]
        else:
            sweep = flag_sets(tr, defaults, 'pairs', ctx.rng)
        t1 = time.time()
        nsets, nlook = routing_sweep(ctx, impl, tr, res, sweep)
        dist['routing_sweep_flag_sets'] = nsets
        dist['routing_sweep_lookups'] = nlook
        res['extra']['routing_sweep_wall_s'] = round(time.time() - t1, 2)
        res['evaluations'] += nlook
        if mode == 'thorough' and nsets == 2 ** len(names):
            res['exhaustive'] = True


KNOWN_FLAGS = ['settings.frontend.enabled', 'settings.core.sequences_support', 'persist.is_samples_supported()',
               'settings.core.history_support',
               'settings.core.backup_support', 'settings.system.fwupdate.driver', 'settings.slaves.enabled',
               'is_discover_enabled()', 'settings.webhooks.enabled', 'settings.core.listen_support',
               'settings.reverse.enabled', 'system.conf.can_write_conf_file()', 'settings.debug',
               'settings.core.virtual_ports']


def runtime_tables(impl):
    """fallback when the translators fail (weaker tie, "runtime introspection"): the flags are the ones the harness knows
    how to switch, the paths come from the running routing table only, AUTH_ENABLED from the handler classes"""
    from qtoggleserver.web import base as web_base
    from qtoggleserver.web import handlers as web_handlers
    classes = {n: {'kind': 'KApi', 'auth': bool(v.AUTH_ENABLED), 'methods': {}} for n, v in vars(web_handlers).items()
               if inspect.isclass(v) and issubclass(v, web_base.APIHandler)}
    return {'flags': list(KNOWN_FLAGS), 'entries': [], 'classes': classes, 'json_methods': ['POST', 'PATCH', 'PUT'],
            'fallback': True}


def check(ctx, res):
    res['rule'] = (
        'the real tornado Application(_make_routing_table()) on a loopback socket; for each flag set (quick: package '
        'defaults and each of the 13 flags toggled singly; thorough: + all pairs, all on, all off, 30 random sets): one '
        'concrete path per URLSpec shape (enabled or not; + trailing-slash variants and non-JSON bodies on the first set, on '
        'all sets in thorough), 8 unknown paths, 5 frontend paths x GET POST PUT PATCH DELETE HEAD OPTIONS x {no header, '
        'view-only, normal, admin JWT}; API bodies stubbed. Plus a routing sweep (real router find_handler vs model) over '
        'all flag pairs (quick) / all 2^13 flag sets (thorough: exhaustive=true refers to this sweep and to the '
        'route x method x level enumeration under each visited flag set). distinct = distinct (flags, path, method, level, '
        'json); non-trivial = the request reached the level decision of an API function (body ran, or 401/403). Plus the '
        'slave events endpoint with its real body: 5 slaves (permanently offline, polled, listened to, without password, '
        'unknown name) x 15 credentials (none, garbage, basic, hub consumer tokens of the three levels, device tokens with '
        'wrong / empty-password / hub-admin key, HS512, consumer-origin token with the slave key, bad iss, stale iat, genuine '
        'device token made by make_auth_header, genuine with usr). Plus the level granted by prepare(): every API function '
        'of the default configuration under the 8 empty/non-empty configurations of the three passwords x {no header, valid '
        'token of each user, admin token with a wrong key, garbage} (stubbed). Plus credentials as state, in a fresh process '
        'with the real get/put/patch_device bodies: 16 curated + 40 (thorough 400) seeded random histories of up to 4 '
        'operations (set a password, PUT /device with the hub\'s own document, patch another attribute) by various callers '
        'from the factory state, each followed by 5 probes (one per minimum level) x 11 credentials (none, garbage, a token '
        'of every user for every password 0..2, old and current); histories may contain a restart of the hub. Plus GET /listen '
        'with its real body in the same process: a listener of each level x {default timeout, ?timeout=5, 45}, an admin event '
        '(PATCH /device -> device-update) and a view-only event (full-update) triggered, one session tick; the delivered event '
        'types are compared with the permitted ones; plus 6 hand-overs of one Session-Id (admin or normal listens and leaves, an '
        'admin-only and a view-only event are queued for the session, a caller of each level polls with the same id)'
    )
    run(ctx, res, 'thorough' if ctx.tier == 'thorough' else 'quick')


def search(ctx, res):
    """a proof or the tie broke and the quick enumeration found nothing: widen to all flag pairs with every variant"""
    run(ctx, res, 'thorough' if ctx.tier == 'thorough' else 'pairs')


LEVEL_TEXT = (
    'Coq theorems over a model of the web layer whose tables are regenerated from the source on every run: the api_call '
    'wrapper serves iff required <= level for all integers and refuses with 401 (level none) / 403 otherwise; a complete '
    'finite check that every method of every handler of every routing entry names a function whose level equals the '
    'hand-written specification required_spec(route, method); hence for every flag assignment, route, method and level a '
    'request is served iff its level is at least the specified one, a lower one gets 401/403 and the body does not run, and '
    'a path shape with no enabled route gets 404; the slave event push (wrapper level none) serves iff the presented token is a '
    'fresh device-origin token verifying under the slave\'s admin hash, else 401, unknown slave 404; the level prepare() grants '
    '(order of tests regenerated) is the specified one (a header is judged alone; no header is admin only with an empty admin '
    'password); for every history of credential operations the model reaches the password state the specification prescribes '
    '(PUT /device keeps the passwords) and nobody below admin changes it. The real tornado application is driven exhaustively (every URLSpec x 7 '
    'methods x 4 caller levels x flag sets, bodies stubbed) and compared in Coq with the model and with the specification.'
)
LEVEL_NOTE = (
    'Trusted: Coq kernel incl. vm_compute; the two ast translators (cross-checked against closure cells, handler classes '
    'and the running routing table on every run); the harness (stubbing through the closure cell, loopback HTTP, JWT '
    'headers made by the repo\'s own make_auth_header). Paths are abstracted to URL shapes; tornado routing/method dispatch, '
    'PyJWT and APIHandler.prepare\'s header parsing (C10) are modelled/tied by the correspondence, not verified. The slave '
    'event push is run with its real body against recorder slave objects; its model is hand-written and tied by the case '
    'files. No axioms (Print Assumptions: closed under the global context).'
)
TECHNIQUE = ('Coq proof (generic theorem + vm_compute finite check lifted with forallb_forall) over tables regenerated by '
             'fail-closed translators, tied by exhaustive HTTP correspondence against the real application')
