"""C09 state worker (fresh process): credentials as state.

usage: python -m harness.props.c09_worker OUT.json SEED N_RANDOM

Runs short histories of admin requests that touch the passwords against the REAL application with the REAL bodies of the
/device functions (get_device, put_device, patch_device; every other API body stays a recording stub), each history from
the factory state (all three passwords empty, persisted through the in-memory JSON driver); a history may contain RESTART
(drop the in-memory device state, reload it with the real core.device.load() from the same store); then probes one endpoint per
minimum level with: no header, a garbage header, and a token of every user signed with every password the history knows
(old and current).  Writes what was observed; the parent evaluates it in Coq against Stateful.v (model) and Spec.v
(hist_spec_ok: the password state the history SHOULD have produced — PUT /device keeps the passwords).

Passwords are abstract numbers: 0 = '' (empty), n = 'c09-pw-<n>'.
"""
import asyncio
import hashlib
import importlib
import json
import random
import sys
import time

import jwt

USERS = ['admin', 'normal', 'viewonly']
LEVEL = {'admin': 30, 'normal': 20, 'viewonly': 10}
PWS = [0, 1, 2]
PROBES = [   # (URL shape, concrete path, method, body)
    ('/api/access', '/api/access', 'GET', None),
    ('/api/ports', '/api/ports', 'GET', None),
    ('/api/ports/{}/value', '/api/ports/p1/value', 'PATCH', '{}'),
    ('/api/device', '/api/device', 'GET', None),
    ('/api/device', '/api/device', 'PATCH', '{"display_name": "c09-probe"}'),
]


def pwtext(p):
    return '' if p == 0 else 'c09-pw-%d' % p


def sha(t):
    return hashlib.sha256(t.encode()).hexdigest()


class Mirror:
    """python mirror of the specified password state, used ONLY to choose interesting credentials (never as an oracle)"""

    def __init__(self):
        self.pw = {u: 0 for u in USERS}

    def level(self, cred):
        if cred[0] == 'none':
            return 30 if self.pw['admin'] == 0 else 0
        if cred[0] == 'garbage':
            return 0
        return LEVEL[cred[1]] if self.pw[cred[1]] == cred[2] else 0

    def apply(self, op, cred):
        if op[0] == 'restart':
            return
        if self.level(cred) >= 30 and op[0] == 'setpw':
            self.pw[op[1]] = op[2]


def curated():
    A1 = ['token', 'admin', 1]
    return [
        # the restore: passwords set, PUT /device by the admin, then everybody probed
        [(['setpw', 'admin', 1], ['none']), (['put'], A1)],
        [(['setpw', 'admin', 1], ['none']), (['setpw', 'normal', 1], A1), (['setpw', 'viewonly', 2], A1), (['put'], A1)],
        [(['setpw', 'admin', 1], ['none']), (['put'], A1), (['put'], ['none'])],
        [(['setpw', 'admin', 1], ['none']), (['put'], ['token', 'normal', 0])],
        # admin password empty, lower users protected: their valid tokens must stay at their level
        [(['setpw', 'normal', 1], ['none'])],
        [(['setpw', 'viewonly', 1], ['none'])],
        [(['setpw', 'normal', 1], ['none']), (['setpw', 'viewonly', 2], ['none'])],
        [(['setpw', 'normal', 1], ['none']), (['setpw', 'admin', 2], ['token', 'normal', 1])],
        # password changes: old tokens die, new ones live
        [(['setpw', 'admin', 1], ['none']), (['setpw', 'admin', 2], A1)],
        [(['setpw', 'admin', 1], ['none']), (['setpw', 'admin', 2], A1), (['setpw', 'admin', 0], A1)],
        [(['setpw', 'admin', 1], ['none']), (['setpw', 'admin', 0], A1)],
        [(['setpw', 'admin', 1], ['none']), (['setpw', 'normal', 2], ['none'])],
        [(['setpw', 'admin', 1], ['none']), (['setpw', 'normal', 2], ['garbage']), (['patchother'], ['token', 'viewonly', 0])],
        [(['setpw', 'admin', 1], ['none']), (['patchother'], A1), (['put'], A1), (['setpw', 'viewonly', 1], A1)],
        [(['patchother'], ['none']), (['put'], ['none'])],
        [],
        # restarts: what a served operation changed must come back from the store, and nothing else
        [(['setpw', 'admin', 1], ['none']), (['restart'], ['none'])],
        [(['setpw', 'admin', 1], ['none']), (['setpw', 'normal', 2], A1), (['setpw', 'viewonly', 1], A1), (['restart'], ['none'])],
        [(['setpw', 'admin', 1], ['none']), (['put'], A1), (['restart'], ['none'])],
        [(['setpw', 'admin', 1], ['none']), (['patchother'], A1), (['restart'], ['none'])],
        [(['setpw', 'admin', 1], ['none']), (['restart'], ['none']), (['setpw', 'admin', 2], A1), (['restart'], ['none'])],
        [(['setpw', 'normal', 1], ['none']), (['restart'], ['none'])],
        [(['setpw', 'admin', 1], ['none']), (['setpw', 'admin', 0], A1), (['restart'], ['none'])],
        [(['setpw', 'admin', 1], ['none']), (['setpw', 'normal', 1], ['token', 'normal', 0]), (['restart'], ['none'])],
        [(['restart'], ['none'])],
    ]


def random_history(rng):
    m = Mirror()
    out = []
    for _ in range(rng.randint(1, 4)):
        r = rng.random()
        if out and rng.random() < 0.2:
            out.append((['restart'], ['none']))
            continue
        if r < 0.55:
            op = ['setpw', rng.choice(USERS), rng.choice(PWS)]
        elif r < 0.85:
            op = ['put']
        else:
            op = ['patchother']
        if rng.random() < 0.65:      # somebody who is admin in the current (specified) state
            cred = ['none'] if m.pw['admin'] == 0 and rng.random() < 0.6 else ['token', 'admin', m.pw['admin']]
        else:
            cred = rng.choice([['none'], ['garbage'], ['token', rng.choice(USERS), rng.choice(PWS)],
                               ['token', 'normal', m.pw['normal']], ['token', 'viewonly', m.pw['viewonly']]])
        out.append((op, cred))
        m.apply(op, cred)
    return out


async def listen_phase(impl, app, calls):
    """GET /listen with its REAL body: a listener of each level (default timeout and ?timeout=5/45) waits; an admin-level
    event is triggered through the real API (PATCH /device by the admin -> device-update) and a view-only one
    (full-update, the event the hub broadcasts after a restore); one tick of the session loop (core.sessions.update(), what
    the main loop does) answers the listeners.  -> [{level, user, timeout, triggered, delivered, status}]"""
    from qtoggleserver.core import events as core_events
    from qtoggleserver.core import sessions as core_sessions
    from qtoggleserver.core.api import auth as core_api_auth
    from qtoggleserver.core.device import attrs as core_device_attrs
    from tornado.httpclient import AsyncHTTPClient, HTTPRequest
    from tornado.httpserver import HTTPServer
    from tornado.netutil import bind_sockets

    name = 'qtoggleserver.core.api.funcs.various.get_listen'
    w = impl['wrappers_by_name'].get(name)
    if w is None:
        return {'error': 'get_listen is not an api_call wrapper any more'}
    orig = impl['originals'][name]

    async def recorded(request, *a, **kw):
        calls.setdefault(request.headers.get('X-Case'), []).append((name, request.access_level))
        return await orig(request, *a, **kw)
    stub = w.__closure__[1].cell_contents
    w.__closure__[1].cell_contents = recorded
    if core_sessions._sessions_event_handler is None:
        await core_sessions.init()      # registers the sessions' event handler, as startup does

    hashes = {u: sha(pwtext(1)) for u in USERS}
    for u in USERS:
        setattr(core_device_attrs, u + '_password_hash', hashes[u])
    tok = {u: core_api_auth.make_auth_header(core_api_auth.ORIGIN_CONSUMER, u, hashes[u]) for u in USERS}

    socks = bind_sockets(0, '127.0.0.1')
    port = socks[0].getsockname()[1]
    srv = HTTPServer(app)
    srv.add_sockets(socks)
    client = AsyncHTTPClient(force_instance=True, max_clients=8)
    out = []
    try:
        k = 0
        for user in ('viewonly', 'normal', 'admin'):
            for timeout in (None, 5, 45):
                k += 1
                sid = 'c09listen%d' % k
                url = 'http://127.0.0.1:%d/api/listen%s' % (port, '' if timeout is None else '?timeout=%d' % timeout)
                task = asyncio.ensure_future(client.fetch(
                    HTTPRequest(url, method='GET', headers={'Authorization': tok[user], 'Session-Id': sid, 'X-Case': sid},
                                request_timeout=20), raise_error=False))
                for _ in range(200):     # until the session is listening
                    sess = core_sessions._sessions_by_id.get(sid)
                    if task.done() or (sess is not None and sess.future is not None):
                        break
                    await asyncio.sleep(0.005)
                triggered = []
                if not task.done():
                    r = await client.fetch(HTTPRequest(
                        'http://127.0.0.1:%d/api/device' % port, method='PATCH', body=json.dumps({'display_name': 'c09-l%d' % k}),
                        headers={'Authorization': tok['admin'], 'Content-Type': 'application/json', 'X-Case': sid + 'p'}),
                        raise_error=False)
                    if r.code == 204:
                        triggered.append('device-update')
                    await core_events.trigger_full_update()
                    triggered.append('full-update')
                    core_sessions.update()      # one tick of the hub's loop: listeners with queued events are answered
                    try:
                        await asyncio.wait_for(asyncio.shield(task), 0.5)
                    except asyncio.TimeoutError:
                        sess = core_sessions._sessions_by_id.get(sid)
                        if sess is not None:
                            sess.respond()      # keep-alive: the listener gets whatever is queued for it (nothing)
                resp = await task
                delivered = None
                if resp.code == 200:
                    try:
                        delivered = [e.get('type') for e in json.loads(resp.body)]
                    except Exception:
                        delivered = None
                out.append({'user': user, 'level': LEVEL[user], 'timeout': timeout, 'triggered': triggered,
                            'delivered': delivered, 'status': resp.code})

        # hand-over of a session id: the admin listens on it and is answered (disconnects); an admin-only event and a view-only
        # one are then queued for that session; a caller of another level polls with the SAME Session-Id: what was queued on
        # behalf of the more privileged caller must not reach it
        async def poll(user, sid, case):
            return await client.fetch(
                HTTPRequest('http://127.0.0.1:%d/api/listen' % port, method='GET',
                            headers={'Authorization': tok[user], 'Session-Id': sid, 'X-Case': case}, request_timeout=20),
                raise_error=False)

        async def settle(task, sid):
            core_sessions.update()
            try:
                await asyncio.wait_for(asyncio.shield(task), 0.5)
            except asyncio.TimeoutError:
                sess = core_sessions._sessions_by_id.get(sid)
                if sess is not None:
                    sess.respond()
            return await task

        for first in ('admin', 'normal'):
            for user in ('viewonly', 'normal', 'admin'):
                k += 1
                sid = 'c09handover%d' % k
                t1 = asyncio.ensure_future(poll(first, sid, sid + 'a'))
                for _ in range(200):
                    sess = core_sessions._sessions_by_id.get(sid)
                    if t1.done() or (sess is not None and sess.future is not None):
                        break
                    await asyncio.sleep(0.005)
                await core_events.trigger_full_update()
                r1 = await settle(t1, sid)                       # the first listener is answered and gone
                triggered = []
                r = await client.fetch(HTTPRequest(
                    'http://127.0.0.1:%d/api/device' % port, method='PATCH', body=json.dumps({'display_name': 'c09-h%d' % k}),
                    headers={'Authorization': tok['admin'], 'Content-Type': 'application/json', 'X-Case': sid + 'p'}),
                    raise_error=False)
                if r.code == 204:
                    triggered.append('device-update')
                await core_events.trigger_full_update()
                triggered.append('full-update')
                # only what the session of the FIRST listener's level was queued is there to be handed over
                queued = [t for t in triggered if not (t == 'device-update' and LEVEL[first] < 30)]
                t2 = asyncio.ensure_future(poll(user, sid, sid + 'b'))
                resp = await settle(t2, sid)
                delivered = None
                if resp.code == 200:
                    try:
                        delivered = [e.get('type') for e in json.loads(resp.body)]
                    except Exception:
                        delivered = None
                out.append({'scenario': 'same Session-Id: %s listened (answered %s) and left; %s queued for the session; then '
                                        'this caller polls with that Session-Id' % (first, r1.code, queued),
                            'user': user, 'level': LEVEL[user], 'timeout': None, 'triggered': queued,
                            'delivered': delivered, 'status': resp.code})
    finally:
        client.close()
        srv.stop()
        await srv.close_all_connections()
        w.__closure__[1].cell_contents = stub
    return {'cases': out}


async def main(out_path, seed, n_random):
    from qtoggleserver.conf import settings
    settings.persist.driver = 'qtoggleserver.drivers.persist.JSONDriver'
    settings.persist.file_path = None
    settings.frontend.enabled = False

    from harness import run as hrun
    from harness.props import c09
    res = hrun.new_result()

    class Ctx:
        workdir = '.'
    impl = c09.setup_impl(Ctx(), res)

    from qtoggleserver import persist
    from qtoggleserver.core import device as core_device
    from qtoggleserver.core.api import auth as core_api_auth
    from qtoggleserver.core.device import attrs as core_device_attrs
    from qtoggleserver.web import server as web_server
    from tornado.web import Application

    from qtoggleserver import system
    system.reboot = lambda: None                    # nothing here asks for a reboot; make sure none can happen
    await persist.get_value('device', default={})   # loads the in-memory JSON driver
    await core_device.load()

    # the three /device functions run for real, behind a recorder
    calls = impl['calls']
    real = {}
    for short in ('get_device', 'put_device', 'patch_device'):
        name = 'qtoggleserver.core.api.funcs.device.' + short
        w = impl['wrappers_by_name'].get(name)
        if w is None:
            raise RuntimeError('%s is not an api_call wrapper any more' % name)
        orig = impl['originals'][name]

        def make(name, orig):
            async def recorded(request, *a, **kw):
                calls.setdefault(request.headers.get('X-Case'), []).append((name, request.access_level))
                return await orig(request, *a, **kw)
            return recorded
        real[name] = make(name, orig)
        w.__closure__[1].cell_contents = real[name]

    table = web_server._make_routing_table()
    app = Application(handlers=table, debug=False, compress_response=False)
    names = ['settings.frontend.enabled', 'settings.core.sequences_support', 'settings.core.backup_support',
             'settings.system.fwupdate.driver', 'settings.slaves.enabled', 'settings.webhooks.enabled',
             'settings.core.listen_support', 'settings.reverse.enabled', 'settings.debug', 'settings.core.virtual_ports',
             'is_discover_enabled()', 'system.conf.can_write_conf_file()', 'settings.core.history_support']
    flags = c09.default_flags(names, '.')
    flags['persist.is_samples_supported()'] = bool(persist.is_samples_supported())
    flags_on = sorted(n for n, v in flags.items() if v)

    tokens = {}
    hist_no = [0]

    def header(cred):
        # one header per (user, password) and history: an old credential is replayed as the very same header
        if cred[0] == 'none':
            return None
        if cred[0] == 'garbage':
            return 'Bearer abc.def.ghi'
        k = (cred[1], cred[2])
        if k not in tokens:
            # the claims make_auth_header issues (iss, ori, usr, iat); iat differs from history to history (inside the
            # allowed skew) so that no header of an earlier history is ever presented again: each history is self-contained
            claims = {'iss': core_api_auth.JWT_ISS, 'ori': core_api_auth.ORIGIN_CONSUMER, 'usr': cred[1],
                      'iat': int(time.time()) - 1 - hist_no[0] % 250}
            tokens[k] = 'Bearer ' + jwt.encode(claims, key=sha(pwtext(cred[2])), algorithm=core_api_auth.JWT_ALG)
        return tokens[k]

    async def factory_state():
        for u in USERS:
            setattr(core_device_attrs, u + '_password_hash', core_device_attrs.EMPTY_PASSWORD_HASH)
        await core_device.save()

    rng = random.Random('C09-state-%d' % seed)
    hists = curated() + [random_history(rng) for _ in range(n_random)]
    out = []
    counter = [0]
    for hist in hists:
        await factory_state()
        tokens.clear()
        hist_no[0] += 1
        steps = []
        for op, cred in hist:
            counter[0] += 1
            if op[0] == 'restart':
                # the hub stops and starts: the in-memory device state is dropped (module reloaded to its defaults, as a new
                # process would have it) and read back from the same store by the real core.device.load(); the worker
                # itself saves nothing here — only what the request bodies saved is in the store
                importlib.reload(core_device_attrs)
                await core_device.load()
                steps.append({'op': op, 'cred': ['none'], 'request': 'RESTART (drop memory state, core.device.load() from the store)',
                              'observed': ['status', 0]})
                continue
            if op[0] == 'setpw':
                method, body = 'PATCH', json.dumps({op[1] + '_password': pwtext(op[2])})
                text = 'PATCH /api/device {"%s_password": "%s"}' % (op[1], pwtext(op[2]))
            elif op[0] == 'put':
                doc = await core_device_attrs.to_json()     # the hub's own GET /device document
                doc.pop('definitions', None)
                doc['display_name'] = 'c09-restored-%d' % counter[0]
                method, body = 'PUT', json.dumps(doc)
                text = "PUT /api/device <the hub's own GET /device document>"
            else:
                method, body = 'PATCH', json.dumps({'display_name': 'c09-%d' % counter[0]})
                text = 'PATCH /api/device {"display_name": ...}'
            req = {'path': '/api/device', 'method': method, 'user': None, 'json': True, 'noauth': True,
                   'auth_header': header(cred), 'body': body}
            (o,) = await c09.run_requests(impl, app, [req])
            steps.append({'op': op, 'cred': cred, 'request': text, 'observed': list(o)})
        creds = [['none'], ['garbage']] + [['token', u, p] for u in USERS for p in PWS]
        reqs, metas = [], []
        for tmpl, path, method, body in PROBES:
            for cred in creds:
                r = {'path': path, 'method': method, 'user': None, 'json': True, 'noauth': True, 'auth_header': header(cred)}
                if body is not None:
                    r['body'] = body
                reqs.append(r)
                metas.append({'tmpl': tmpl, 'path': path, 'method': method, 'cred': cred})
        outs = await c09.run_requests(impl, app, reqs)
        for m, o in zip(metas, outs):
            m['observed'] = list(o)
        out.append({'steps': steps, 'probes': metas})
    listen = await listen_phase(impl, app, calls)
    with open(out_path, 'w') as f:
        json.dump({'flags_on': flags_on, 'histories': out, 'listen': listen, 'tie_failures': [str(t)[:300] for t in res['tie_failures']]}, f)


if __name__ == '__main__':
    asyncio.run(main(sys.argv[1], int(sys.argv[2]), int(sys.argv[3])))
