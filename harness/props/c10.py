"""C10 — only correctly signed, well-formed tokens authenticate, at their own level.

Theorems: coq/theories/Props/C10.v over the model coq/theories/C10/Model.v (decision sequence of parse_auth_header,
APIHandler.prepare, the password state machine, the device document).
Tie: (C) correspondence.  A worker subprocess imports the real qtoggleserver (clock frozen by replacing time.time and
PyJWT's datetime; in-memory JSON persistence driver), serves the real tornado routing table on a loopback port and, for each
generated password history, applies the operations (PATCH/PUT /device over HTTP, set_attrs/save/load/reset/reload directly)
and probes it with Authorization headers: `parse_auth_header` called directly and `GET /api/access` over HTTP.
Every probe is then decided by the Coq model and by the Coq specification oracle (vm_compute), HMAC and SHA-256 being
instantiated by truth tables computed here with hashlib/hmac.
"""
import base64
import glob
import hashlib
import hmac
import json
import math
import os
import subprocess
import sys
import time

from harness.common import coq, repo

ID = 'C10'
PROPS = 'theories/Props/C10.v'
MODEL_TARGETS = ['theories/C10/Run.vo']
TRANSLATORS = []
TIE = ('correspondence: real parse_auth_header / APIHandler.prepare (GET /access on a loopback tornado server) / '
       'core.device save-load-reset / GET /device vs the Coq model and the Coq spec oracle by vm_compute')
ALLOWED_AXIOMS = []
TRUSTED_BASE = [
    'correspondence harness harness/props/c10.py: frozen clock (time.time and jwt.api_jwt.datetime replaced in the worker '
    'process), token builder, the independent token parser used by the spec oracle, the hashlib/hmac truth tables that '
    'instantiate sha256hex and mac',
    'modelled, not verified: PyJWT (token parsing is a Section variable [decode]; the decisions of the verified decode - '
    'algorithm allow-list, signature comparison, registered-claim validation - are modelled after the installed version '
    'and tied by the correspondence), tornado header transport, Python re (the Bearer regular expression is modelled for '
    'code points < 256)',
    'cryptography is outside: HMAC-SHA256 ([mac]) and SHA-256 ([sha256hex]) are uninterpreted; unforgeability of HMAC and '
    'collision resistance of SHA-256 are not claimed',
]
ASSUMPTIONS = [
    'soundness (C10_grant_sound) has no premise; "signature = mac (current hash) signing_input" means an attacker needs '
    'an HMAC forgery or the hash itself - unforgeability of HMAC-SHA256 is cryptography, outside the proof',
    'the password-history theorems assume sha256hex never returns the empty string (explicit premise; a hex digest has 64 '
    'characters)',
    'completeness is stated for headers characterised by [issued] (what make_auth_header returns, as seen through '
    'PyJWT\'s decode); the harness checks on every run that the real make_auth_header output satisfies issuedb',
    'a token without iat is accepted (make_auth_header omits iat when the issuer has no real clock); iat is compared with '
    'the skew only when the hub has a real clock (as the code does); PyJWT additionally refuses iat > now + skew',
    'the stored hash itself is a bearer secret (whoever reads the persisted record can sign tokens): by design, out of scope',
]

USERS = ['admin', 'normal', 'viewonly']
LEVELS = {'admin': 30, 'normal': 20, 'viewonly': 10, 'none': 0}
ISS = 'qToggle'
HEADER = 'From QT Require Import C10.Run.\nOpen Scope string_scope.\nOpen Scope Z_scope.\n'
REPLAY_HELP = ('bin/check C10 --replay <this file>  (issued-header cases: call make_auth_header with case.stream.creds at each of case.stream.times/8 and verify at once; other cases by hand: start qtoggleserver from /repo with the in-memory JSON '
               'persistence driver, apply case.actions in order, set the clock to case.now8/8 and send '
               '"GET /api/access" with "Authorization: <case.hdr>"; expected: coq/theories/C10/Spec.v expectation)')
T_REAL = 1790000000        # a "real" date (2026)
T_NOCLOCK = 1000000        # a hub without real date/time (1970)


# ---------------------------------------------------------------------------------------------------------------------
# token building (independent of the implementation)

def b64u(b):
    return base64.urlsafe_b64encode(b).rstrip(b'=').decode('ascii')


def jdumps(x):
    return json.dumps(x, separators=(',', ':'), allow_nan=True)


_HM = {'HS256': hashlib.sha256, 'HS384': hashlib.sha384, 'HS512': hashlib.sha512}


def sha_hex(pw):
    return hashlib.sha256(pw.encode()).hexdigest()


def build_token(header, payload, key, sign_alg='HS256', sig=None):
    """header/payload: python value (JSON-encoded) or raw bytes; key: str; -> compact token text"""
    h = header if isinstance(header, bytes) else jdumps(header).encode()
    p = payload if isinstance(payload, bytes) else jdumps(payload).encode()
    si = b64u(h) + '.' + b64u(p)
    if sig is None:
        sig = hmac.new(key.encode(), si.encode(), _HM[sign_alg]).digest() if sign_alg in _HM else b''
    return si + '.' + b64u(sig)


def std_header(alg='HS256'):
    return {'alg': alg, 'typ': 'JWT'}


def std_claims(usr, iat, origin='consumer'):
    c = {'iss': ISS, 'ori': origin}
    if usr is not None:
        c['usr'] = usr
    if iat is not None:
        c['iat'] = iat
    return c


# ---------------------------------------------------------------------------------------------------------------------
# token parsing: PyJWT's (for the model's [decode]) and an independent one (for the spec oracle)

def pyjwt_parse(cand):
    import jwt
    try:
        d = jwt.decode_complete(cand, options={'verify_signature': False})
    except jwt.exceptions.InvalidTokenError:
        return None
    return {'alg': d['header'].get('alg', _ABSENT), 'claims': d['payload'], 'si': cand.rsplit('.', 1)[0],
            'sig': d['signature'].hex()}


_ABSENT = object()
_B64CH = set('ABCDEFGHIJKLMNOPQRSTUVWXYZabcdefghijklmnopqrstuvwxyz0123456789-_')


def _b64seg(s):
    if any(ch not in _B64CH for ch in s) or len(s) % 4 == 1:
        raise ValueError('segment')
    return base64.urlsafe_b64decode(s + '=' * (-len(s) % 4))


def indep_parse(cand):
    """three base64url segments, header and payload JSON objects; nothing else is required"""
    try:
        segs = cand.split('.')
        if len(segs) != 3:
            return None
        h = json.loads(_b64seg(segs[0]))
        p = json.loads(_b64seg(segs[1]))
        sig = _b64seg(segs[2])
        if not isinstance(h, dict) or not isinstance(p, dict):
            return None
        return {'alg': h.get('alg', _ABSENT), 'claims': p, 'si': segs[0] + '.' + segs[1], 'sig': sig.hex()}
    except (ValueError, RecursionError):
        return None


# ---------------------------------------------------------------------------------------------------------------------
# Coq literals

class Unencodable(Exception):
    pass


def cstr(s):
    """python str (any code points) -> Coq string of its bytes: latin-1 when possible (what the regex model reads),
    UTF-8 otherwise (only inside JSON strings, where only equality with ASCII constants matters)"""
    try:
        b = s.encode('latin-1')
    except UnicodeEncodeError:
        b = s.encode('utf-8')
    return coq.string(b)


def cpw(s):
    """passwords are keyed by their UTF-8 bytes (that is what gets hashed)"""
    return coq.string(s.encode('utf-8'))


def jv(x):
    if x is None:
        return 'JNull'
    if isinstance(x, bool):
        return '(JBool %s)' % coq.boolean(x)
    if isinstance(x, int):
        if abs(x) < 2 ** 50:
            return '(JNum %s)' % coq.z(8 * x)
        if abs(x) >= 2 ** 1024:
            return '(JBig %s)' % coq.boolean(x < 0)
        raise Unencodable('int %r' % x)
    if isinstance(x, float):
        if math.isnan(x):
            return 'JNaN'
        if math.isinf(x):
            return '(JInf %s)' % coq.boolean(x < 0)
        if abs(x) < 2 ** 50 and (x * 8).is_integer():
            return '(JNum %s)' % coq.z(int(x * 8))
        raise Unencodable('float %r' % x)
    if isinstance(x, str):
        if x.strip() != x or '_' in x:   # int(' 12 ') / int('1_0') are outside the modelled shapes of int(str)
            if x.strip().lstrip('+-').replace('_', '').isdigit():
                raise Unencodable('numeric string %r' % x)
        return '(JStr %s)' % cstr(x)
    if isinstance(x, list):
        return '(JArr %s)' % coq.boolean(bool(x))
    if isinstance(x, dict):
        return '(JObj %s)' % coq.boolean(bool(x))
    raise Unencodable(repr(x))


def cparsed(p):
    if p is None:
        return 'Malformed'
    alg = 'None' if p['alg'] is _ABSENT else '(Some %s)' % jv(p['alg'])
    claims = coq.lst(list(p['claims'].items()), lambda kv: '(%s, %s)' % (cstr(kv[0]), jv(kv[1])))
    # signing input and signature are abstracted (see Run.v): the truth about the HMAC travels in c_macs
    return '(Tok (Build_token %s %s "" "s"))' % (alg, claims)


def parsed_equal(a, b):
    if a is None or b is None:
        return a is b
    ka = (jdumps(None if a['alg'] is _ABSENT else [a['alg']]), jdumps(a['claims']), a['si'], a['sig'])
    kb = (jdumps(None if b['alg'] is _ABSENT else [b['alg']]), jdumps(b['claims']), b['si'], b['sig'])
    return ka == kb


def plain_token(cand):
    """JOSE header is {alg, typ: "JWT"} at most and every segment is canonical base64url (PyJWT insists on the latter)"""
    try:
        segs = cand.split('.')
        if len(segs) != 3:
            return False
        for sg in segs:
            if b64u(_b64seg(sg)) != sg:
                return False
        h = json.loads(_b64seg(segs[0]))
        return isinstance(h, dict) and set(h) <= {'alg', 'typ'} and h.get('typ', 'JWT') == 'JWT'
    except (ValueError, RecursionError):
        return False


def cobs(o):
    if o[0] == 'grant':
        return '(OGrant %s)' % ('None' if o[1] == '__absent__' else '(Some %s)' % jv(o[1]))
    if o[0] == 'refuse':
        return 'ORefuse'
    if o[0] == 'crash':
        return 'OCrash'
    if o[0] == 'bits':
        return '(OBits %s %s %s %s)' % (cstr(o[1]), cstr(o[2]), cstr(o[3]), coq.boolean(o[4]))
    raise Unencodable(repr(o))


def cuser(u):
    return {'admin': 'Admin', 'normal': 'Normal', 'viewonly': 'Viewonly'}[u]


def cop(o):
    if o[0] == 'set':
        return '(OSet %s %s)' % (cuser(o[1]), cpw(o[2]))
    if o[0] == 'refused':
        return '(OSetRefused %s %s)' % (cuser(o[1]), cpw(o[2]))
    if o[0] == 'save':
        return 'OSave'
    if o[0] == 'load':
        return 'OLoad'
    if o[0] == 'reset':
        return '(OReset %s)' % coq.boolean(o[1])
    if o[0] == 'restart':
        return 'ORestart'
    raise ValueError(o)


def action_ops(a):
    """primitive operations (Model.v op) of one action"""
    k = a['a']
    if k == 'patch' and a.get('refused'):
        # one password, which the configured system password command refuses: 500, nothing set, nothing saved
        return [('refused', a['pws'][0][0], a['pws'][0][1])]
    if k == 'patch':
        return [('set', u, pw) for u, pw in a['pws']] + [('save',)]
    if k == 'put':
        return [('reset', True), ('load',), ('save',)]
    if k == 'factory':
        return [('reset', False), ('restart',)]
    if k == 'set':
        return [('set', a['u'], a['pw'])]
    if k == 'reset':
        return [('reset', bool(a['keep']))]
    if k in ('save', 'load', 'restart'):
        return [(k,)]
    raise ValueError(a)


# ---------------------------------------------------------------------------------------------------------------------
# generation-side simulation of the passwords (only used to aim tokens; the oracle is Spec.v)

class Sim:
    def __init__(self):
        self.cur = {u: None for u in USERS}
        self.saved = None
        self.old = {u: [] for u in USERS}

    def _load(self):
        sv = self.saved or {u: None for u in USERS}
        for u in USERS:
            v = sv[u] if sv[u] is not None else self.cur[u]
            self.cur[u] = '' if v is None else v

    def apply(self, o):
        before = dict(self.cur)
        if o[0] == 'refused':
            return
        if o[0] == 'set':
            self.cur[o[1]] = o[2]
        elif o[0] == 'save':
            self.saved = dict(self.cur)
        elif o[0] == 'load':
            self._load()
        elif o[0] == 'reset':
            if not o[1]:
                self.cur = {u: None for u in USERS}
            self.saved = None
        elif o[0] == 'restart':
            self.cur = {u: None for u in USERS}
            self._load()
        for u in USERS:
            if before[u] is not None and before[u] != self.cur[u] and before[u] not in self.old[u]:
                self.old[u].append(before[u])


PW_POOL = ['', 'set', 'a', 'secret', 'pass word', 'päss', 'admin', 'x' * 32, '0', 'Tr0ub4dor&3', 'qToggle', ' ', 'e3b0c442']


SET_CMD = """case "$QS_PASSWORD" in 'R!'*) exit 1;; esac"""   # the system password policy: refuses passwords starting with R!


REFUSED = ['R!refused-pw-1', 'R!another-bad']


def gen_actions(rng, n, set_cmd=False):
    # "set" and "" are what the password attributes read back as: always among the values
    pool = rng.sample(PW_POOL[2:], 4) + ['set', '']
    if set_cmd:
        pool += list(REFUSED)
    acts = []
    sim = Sim()

    def push(a):
        acts.append(a)
        for o in action_ops(a):
            sim.apply(o)

    if rng.random() < 0.9:
        push({'a': 'restart'})           # first boot
    while len(acts) < n:
        r = rng.random()
        if set_cmd and r < 0.2:
            # a change the system refuses (must change nothing), now and then followed by a restart
            push({'a': 'patch', 'pws': [[rng.choice(USERS), rng.choice(REFUSED)]], 'refused': True,
                  'via': rng.choice(['http', 'direct'])})
            continue
        if r < 0.12 and any(v for v in sim.cur.values()):
            # idempotent re-submissions, then a restart: PUT /device of the hub's own GET /device document (backup restore),
            # or reset-keeping-the-hashes / PATCH of the passwords already in force
            k = rng.random()
            if k < 0.6:
                push({'a': 'put', 'own': True, 'via': rng.choice(['http', 'http', 'direct'])})
            else:
                if k < 0.8:
                    push({'a': 'reset', 'keep': True})
                us = [u for u in USERS if sim.cur[u] is not None and not sim.cur[u].startswith('R!')]
                if us:
                    push({'a': 'patch', 'pws': [[u, sim.cur[u]] for u in rng.sample(us, rng.randint(1, len(us)))],
                          'via': rng.choice(['http', 'direct'])})
            if rng.random() < 0.8:
                push({'a': 'restart'})
            continue
        if r < 0.45:
            us = rng.sample(USERS, rng.choice([1, 1, 1, 2, 3]))
            ok_pool = [x for x in pool if not x.startswith('R!')]
            pws = [[u, rng.choice(ok_pool)] for u in us]
            if rng.random() < 0.25:
                # the texts the getters report: "set" over a non-empty password, "" over anything
                for x in pws:
                    x[1] = 'set' if sim.cur[x[0]] else rng.choice(['set', ''])
            push({'a': 'patch', 'pws': pws, 'via': rng.choice(['http', 'http', 'direct'])})
        elif r < 0.60:
            push({'a': 'restart'})
        elif r < 0.68:
            push({'a': 'put', 'via': rng.choice(['http', 'direct'])})
        elif r < 0.76:
            push({'a': 'set', 'u': rng.choice(USERS), 'pw': rng.choice([x for x in pool if not x.startswith('R!')])})
        elif r < 0.82:
            push({'a': 'save'})
        elif r < 0.87:
            push({'a': 'load'})
        elif r < 0.92:
            push({'a': 'factory'})
        elif r < 0.96:
            push({'a': 'reset', 'keep': True})
        else:
            push({'a': 'reset', 'keep': False})
    return acts, pool


# ---------------------------------------------------------------------------------------------------------------------
# header mutations

def flip_char(s, i):
    alphabet = 'ABCDEFGHIJKLMNOPQRSTUVWXYZabcdefghijklmnopqrstuvwxyz0123456789-_'
    c = s[i]
    j = alphabet.index(c) if c in alphabet else 0
    return s[:i] + alphabet[j ^ 1] + s[i + 1:]


def mutations(rng, sim, now8, skew, u, pool):
    """every single-field mutation of a valid consumer token for user u at time now8/8 -> list of (label, header)"""
    now = now8 / 8
    inow = int(now)
    hashes = {w: (sha_hex(sim.cur[w]) if sim.cur[w] is not None else sha_hex('')) for w in USERS}
    key = hashes[u]
    H, C = std_header(), std_claims(u, inow)
    out = []

    def add(label, tok, scheme='Bearer '):
        out.append((label, scheme + tok))

    def tk(header=None, claims=None, k=None, **kw):
        return build_token(H if header is None else header, C if claims is None else claims, key if k is None else k, **kw)

    good = tk()
    add('valid', good)
    add('valid-no-iat', tk(claims=std_claims(u, None)))
    # algorithm
    for alg in ('none', 'None', 'NONE', 'HS384', 'HS512', 'RS256', 'ES256', 'PS256', 'hs256', 'HS256 ', ''):
        sa = alg if alg in _HM else ('none' if alg.lower() == 'none' else 'HS256')
        add('alg:%s' % alg, tk(header=std_header(alg), sign_alg=sa))
    add('alg:none+sig', tk(header=std_header('none')))
    add('alg:null', tk(header={'alg': None, 'typ': 'JWT'}))
    add('alg:number', tk(header={'alg': 256, 'typ': 'JWT'}))
    add('alg:list', tk(header={'alg': ['HS256'], 'typ': 'JWT'}))
    add('alg:missing', tk(header={'typ': 'JWT'}))
    add('hdr:no-typ', tk(header={'alg': 'HS256'}))
    add('hdr:kid-str', tk(header={'alg': 'HS256', 'kid': 'k1'}))
    add('hdr:kid-num', tk(header={'alg': 'HS256', 'kid': 5}))
    add('hdr:crit-unknown', tk(header={'alg': 'HS256', 'crit': ['exp'], 'exp': 1}))
    add('hdr:crit-empty', tk(header={'alg': 'HS256', 'crit': []}))
    add('hdr:b64-false', tk(header={'alg': 'HS256', 'b64': False, 'crit': ['b64']}))
    add('hdr:b64-false-nocrit', tk(header={'alg': 'HS256', 'b64': False}))
    add('hdr:list', tk(header=[1, 2]))
    add('hdr:not-json', tk(header=b'{alg:HS256}'))
    add('payload:list', tk(claims=[1, 2]))
    add('payload:string', tk(claims='admin'))
    add('payload:not-json', tk(claims=b'{"iss":"qToggle",'))
    add('payload:empty-object', tk(claims={}))
    # claims: missing / renamed / retyped
    for name in ('iss', 'ori', 'usr', 'iat'):
        c = dict(C)
        del c[name]
        add('missing:%s' % name, tk(claims=c))
    for old, new in (('iss', 'issuer'), ('ori', 'origin'), ('usr', 'user'), ('usr', 'username'), ('usr', 'sub'),
                     ('iat', 'issued_at'), ('iss', 'ISS'), ('ori', 'Ori'), ('usr', 'USR')):
        c = dict(C)
        c[new] = c.pop(old)
        add('renamed:%s->%s' % (old, new), tk(claims=c))
    for v in (5, 0, [u], [], None, True, False, '', {'name': u}, u.upper(), u + ' ', ' ' + u, 'root', 'none', 'Admin',
              'administrator', u + '\x00'):
        add('usr:%s' % jdumps(v), tk(claims=dict(C, usr=v)))
    for v in ('qtoggle', 'QTOGGLE', 'qToggle ', '', 5, None, [ISS], {'iss': ISS}, True):
        add('iss:%s' % jdumps(v), tk(claims=dict(C, iss=v)))
    for v in ('device', 'Consumer', 'consumer ', '', None, 5, ['consumer'], True):
        add('ori:%s' % jdumps(v), tk(claims=dict(C, ori=v)))
    for v in ('abc', '123', str(inow), '', '-5', [inow], [], None, True, False, {}, float('nan'), float('inf'),
              float('-inf'), 10 ** 400, -10 ** 400, inow + 0.5, 0, -1, float(inow)):
        add('iat:%s' % jdumps(v)[:24], tk(claims=dict(C, iat=v)))
    # iat around the skew (now may have a fractional part)
    for d in (0, 1, -1, skew, -skew, skew + 1, -skew - 1, skew - 1, -skew + 1, 2 * skew, -2 * skew, 86400, -86400):
        add('iat:now%+d' % d, tk(claims=dict(C, iat=inow + d)))
    for d8 in (8 * skew + 1, -8 * skew - 1, 8 * skew - 1, -8 * skew + 1):
        add('iat:now%+d/8' % d8, tk(claims=dict(C, iat=(now8 + d8) / 8)))
    # keys
    for w in USERS:
        if w != u:
            add('key:of-%s' % w, tk(k=hashes[w]))
            add('usr-swapped:%s' % w, tk(claims=dict(C, usr=w)))
    for i, oldpw in enumerate(reversed([x for x in sim.old[u] if x != sim.cur[u]][-3:])):
        add('key:old-password-%d' % i, tk(k=sha_hex(oldpw)))
    add('key:empty-password-hash', tk(k=sha_hex('')))
    add('key:empty', tk(k=''))
    if sim.cur[u]:
        add('key:password-itself', tk(k=sim.cur[u]))
    add('key:hash-upper', tk(k=key.upper()))
    add('key:hash-of-hash', tk(k=sha_hex(key)))
    add('key:other-pool-password', tk(k=sha_hex(rng.choice(pool) + '#')))
    for alg in ('HS384', 'HS512'):
        add('sig:%s-under-HS256-header' % alg, tk(sign_alg=alg))
    # signature
    si, sg = good.rsplit('.', 1)
    add('sig:truncated-1', si + '.' + sg[:-1])
    add('sig:truncated-2', si + '.' + sg[:-2])
    add('sig:truncated-half', si + '.' + sg[:len(sg) // 2])
    add('sig:empty', si + '.')
    add('sig:missing-segment', si)
    add('sig:flip-first', si + '.' + flip_char(sg, 0))
    add('sig:flip-mid', si + '.' + flip_char(sg, len(sg) // 2))
    add('sig:flip-last', si + '.' + flip_char(sg, len(sg) - 1))
    add('sig:extended', si + '.' + sg + 'A')
    add('sig:extra-segment', good + '.' + sg)
    add('sig:of-other-token', tk(claims=dict(C, iat=inow - 1)).rsplit('.', 1)[0] + '.' + sg)
    add('sig:zeros', tk(sig=b'\x00' * 32))
    hs, ps = si.split('.')
    add('payload:flip', hs + '.' + flip_char(ps, len(ps) // 2) + '.' + sg)
    add('header:flip', flip_char(hs, 3) + '.' + ps + '.' + sg)
    add('token:padding', hs + '=.' + ps + '.' + sg)
    add('token:std-base64', good.replace('-', '+').replace('_', '/'))
    add('token:dots-only', '..')
    add('token:empty-header', '.' + ps + '.' + sg)
    # scheme / white space
    for sch in ('bearer ', 'BEARER ', 'bEaReR ', 'Bearer  ', 'Bearer\t', 'Bearer \t ', 'Bearer\n', 'Bearer\r\n', 'Bearer\x0b',
                'Bearer\x0c', 'Bearer\x1c', 'Bearer\x1f', 'Bearer\x85', 'Bearer\xa0', ' Bearer ', '\tBearer ', 'Bearer', 'Bearer:',
                'Bearer: ', 'Bearer=', 'Basic ', 'Token ', 'JWT ', 'Bearer Bearer ', 'Bearer, ', '', 'Bearerr ', 'Beare ',
                'Béarer ', 'Bearer\x00', 'Bearer \x00'):
        add('scheme:%r' % sch, good, scheme=sch)
    for suf in (' ', '\n', '\r\n', '\n\n', '\t', ' x', ',', ';', '=', '\x00', '\xa0', ' ' + good):
        add('suffix:%r' % suf, good + suf)
    add('quoted', '"' + good + '"')
    add('scheme-only', '', scheme='Bearer')
    add('scheme-space-only', '', scheme='Bearer ')
    add('empty-header', '', scheme='')
    add('token-lowercased', good.lower())
    add('token-uppercased', good.upper())
    # extra registered claims
    for v in (inow + 3600, inow - 3600, inow - skew, inow - skew + 1, inow + 1, 'abc', None, [1], float('nan'), 10 ** 400):
        add('exp:%s' % jdumps(v)[:24], tk(claims=dict(C, exp=v)))
    for v in (inow - 3600, inow + 3600, inow + skew, inow + skew + 1, 'abc', None, float('inf')):
        add('nbf:%s' % jdumps(v), tk(claims=dict(C, nbf=v)))
    for v in ('qtoggle', '', [], ['a'], 0, 5, None, {}):
        add('aud:%s' % jdumps(v), tk(claims=dict(C, aud=v)))
    for v in ('x', 5, None):
        add('sub:%s' % jdumps(v), tk(claims=dict(C, sub=v)))
        add('jti:%s' % jdumps(v), tk(claims=dict(C, jti=v)))
    add('extra-claim', tk(claims=dict(C, admin=True, level='admin')))
    add('dup-usr-last-wins', tk(claims=(jdumps(C)[:-1] + ',"usr":"admin"}').encode()))
    add('dup-usr-first', tk(claims=('{"usr":"admin",' + jdumps(C)[1:]).encode()))
    return out


def garbage(rng):
    r = rng.random()
    alpha = 'ABCDEFGHIJKLMNOPQRSTUVWXYZabcdefghijklmnopqrstuvwxyz0123456789-_'
    if r < 0.25:
        return ''.join(chr(rng.randint(32, 126)) for _ in range(rng.randint(0, 60)))
    if r < 0.45:
        return ''.join(chr(rng.randint(0, 255)) for _ in range(rng.randint(1, 40)))
    if r < 0.75:
        segs = [''.join(rng.choice(alpha) for _ in range(rng.randint(0, 40))) for _ in range(rng.choice([1, 2, 3, 3, 3, 4]))]
        return rng.choice(['Bearer ', 'bearer ', 'Bearer  ', '']) + '.'.join(segs)
    if r < 0.9:
        h = b64u(os.urandom(0) + jdumps(rng.choice([{'alg': 'HS256'}, {'alg': 'none'}, {}, [], 'x', 1])).encode())
        p = b64u(jdumps(rng.choice([{}, {'iss': ISS}, {'iss': ISS, 'ori': 'consumer'},
                                    {'iss': ISS, 'ori': 'consumer', 'usr': rng.choice(USERS)}, [], 7])).encode())
        s = ''.join(rng.choice(alpha) for _ in range(rng.choice([0, 1, 2, 43, 43, 44])))
        return 'Bearer ' + h + '.' + p + '.' + s
    return 'Bearer ' + ''.join(rng.choice(alpha + '.=+/ ') for _ in range(rng.randint(1, 80)))


def device_mutations(rng, now8, skew, key):
    """device-origin tokens (webhooks: no usr; reverse: usr = device id), checked with a constant key"""
    inow = int(now8 / 8)
    H = std_header()
    out = []
    for label, c, k in (
        ('dev:valid', std_claims(None, inow, 'device'), key),
        ('dev:valid-usr', std_claims('dev1', inow, 'device'), key),
        ('dev:valid-no-iat', std_claims(None, None, 'device'), key),
        ('dev:usr-number', dict(std_claims(None, inow, 'device'), usr=5), key),
        ('dev:ori-consumer', std_claims(None, inow, 'consumer'), key),
        ('dev:ori-missing', {'iss': ISS, 'iat': inow}, key),
        ('dev:iss-wrong', dict(std_claims(None, inow, 'device'), iss='x'), key),
        ('dev:wrong-key', std_claims(None, inow, 'device'), key + 'x'),
        ('dev:empty-key', std_claims(None, inow, 'device'), ''),
        ('dev:stale', std_claims(None, inow - skew - 1, 'device'), key),
        ('dev:edge', std_claims(None, inow - skew, 'device'), key),
    ):
        out.append((label, 'Bearer ' + build_token(H, c, k)))
    out.append(('dev:alg-none', 'Bearer ' + build_token(std_header('none'), std_claims(None, inow, 'device'), key, sign_alg='none')))
    out.append(('dev:alg-HS512', 'Bearer ' + build_token(std_header('HS512'), std_claims(None, inow, 'device'), key, sign_alg='HS512')))
    return out


def transportable(h):
    return bool(h) and all(32 <= ord(c) <= 126 or c == '\t' for c in h) and h == h.strip(' \t')


# ---------------------------------------------------------------------------------------------------------------------
# script generation: a history = a list of items, each an action or a batch of probes at a frozen clock

def pick_now8(rng, skew):
    r = rng.random()
    if r < 0.12:
        return 8 * T_NOCLOCK + rng.randint(0, 8 * 100000)
    if r < 0.16:
        return 8 * 1546304400 + rng.choice([-1, 0, 1, 8])     # around OLD_TIME_LIMIT
    return 8 * (T_REAL + rng.randint(0, 10 ** 7)) + rng.choice([0, 0, 1, 4, 7])


def gen_stream(rng, skew, pool):
    """the hub issues headers with the same credentials again and again while its clock advances (1-7 s per step, over more
    than twice the skew); every header is verified at once by receivers whose clocks are off by the given offsets"""
    t8 = 8 * (T_REAL + rng.randint(0, 10 ** 7)) + rng.randint(0, 7)
    times = []
    end = t8 + int(8 * skew * 2.3)
    while t8 < end:
        times.append(t8)
        t8 += rng.randint(8, 56)
    dkey = sha_hex(rng.choice(pool) + '-slave')
    creds = [{'kind': 0, 'origin': 'consumer', 'username': 'admin', 'key_user': 'admin'},
             {'kind': 2, 'origin': 'device', 'username': rng.choice([None, None, 'dev-1']), 'key': dkey}]
    offsets = [-8 * skew - 1, -8 * skew, -8 * (skew // 2), -8 * 7, 8 * 7, 8 * (skew // 2), 8 * skew - 7, 8 * skew + 1]
    return {'stream': {'times': times, 'creds': creds, 'offsets': offsets}}


def gen_slave(rng, skew, pool):
    """the slave side: a (simulated) slave whose admin password is changed through the hub's forward API, incl. to the
    empty password and back, while online and once while offline (provisioning).  After every step: the header the hub
    sends to the slave, the slave-events endpoint with tokens signed with current / replaced / other passwords, and what
    GET /devices shows.  -> item"""
    pws = ['slave-first', 'slave-second', '', 'slave-third', 'slave-4th', 'slave-offline']
    pool.extend(x for x in pws if x not in pool)
    now8 = 8 * (T_REAL + rng.randint(0, 10 ** 7)) + rng.randint(0, 7)
    seq = [pws[1], None, '', pws[3], '', pws[4]]
    if rng.random() < 0.5:
        seq = [pws[1], '', None, pws[3]]
    steps = []
    cur, prev = pws[0], None

    def events(now8, cur, prev):
        inow = now8 // 8
        out = []
        for label, pw in (('current', cur), ('replaced', prev), ('first', pws[0]), ('empty', ''), ('unknown', 'not-a-slave-pw')):
            if pw is None or (label != 'current' and pw == cur):
                continue
            out.append(['event:' + label, 'Bearer ' + build_token(std_header(), std_claims(None, inow, 'device'), sha_hex(pw))])
        out.append(['event:consumer-origin', 'Bearer ' + build_token(std_header(), std_claims('admin', inow), sha_hex(cur))])
        out.append(['event:alg-none', 'Bearer ' + build_token(std_header('none'), std_claims(None, inow, 'device'), sha_hex(cur),
                                                              sign_alg='none')])
        return out

    names = iter(['c10slaveB', 'c10slaveC', 'c10slaveD'])
    rename_at = set(rng.sample(range(len(seq) + 1), 2)) | {0 if rng.random() < 0.5 else len(seq)}
    for i, new in enumerate(seq):
        if i in rename_at:
            now8 += rng.randint(8, 800)
            steps.append({'now8': now8, 'rename': next(names), 'events': events(now8, cur, prev)})
        now8 += rng.randint(8, 800)
        if new is not None:
            prev, cur = (cur, new) if new != cur else (prev, cur)
        # the slave acknowledges the change with 204, or with 202 Accepted (applied asynchronously): same oracle
        steps.append({'now8': now8, 'fwd': new, 'ack': rng.choice([204, 202]) if new is not None else 204,
                      'events': events(now8, cur, prev)})
    acks = [st for st in steps if st.get('fwd') is not None]
    if acks and all(st['ack'] == 204 for st in acks):
        rng.choice(acks)['ack'] = 202
    if acks and all(st['ack'] == 202 for st in acks):
        rng.choice(acks)['ack'] = 204
    if len(seq) in rename_at:
        now8 += rng.randint(8, 800)
        steps.append({'now8': now8, 'rename': next(names), 'events': events(now8, cur, prev)})
    now8 += rng.randint(8, 800)
    off = pws[5]
    steps.append({'now8': now8, 'offline_fwd': off, 'events': events(now8, off, cur)})
    return {'slave': {'pw0': pws[0], 'steps': steps, 'secrets': [x for x in pws if len(x) >= 6]}}


def gen_history(rng, n_actions, n_probes, skew, sweep, stream=False, set_cmd=False, slave=False):
    """-> {'items': [...], 'pool': [...]}; probes carry 'mut' labels; about n_probes probes in total"""
    acts, pool = gen_actions(rng, n_actions, set_cmd)
    sim = Sim()
    items = []
    per_batch = max(4, n_probes // (len(acts) + 1))
    sweep_at = rng.randrange(1, len(acts) + 1) if sweep else -1

    def batch(full):
        now8 = pick_now8(rng, skew)
        if full:
            now8 = 8 * (T_REAL + rng.randint(0, 10 ** 7)) + rng.choice([0, 1, 4])
        probes = [{'kind': 3, 'mut': 'no-header'}]
        if rng.random() < 0.5 or full:
            probes.append({'kind': 4, 'mut': 'device-doc'})
        u = rng.choice(USERS)
        muts = mutations(rng, sim, now8, skew, u, pool)
        if full:
            chosen = muts
            for w in USERS:
                if w != u:
                    chosen = chosen + mutations(rng, sim, now8, skew, w, pool)[:2]
        else:
            chosen = [muts[0]] + rng.sample(muts, min(len(muts), per_batch))
        for label, hdr in chosen:
            probes.append({'kind': 0, 'mut': label, 'hdr': hdr, 'user': u})
        for w in rng.sample(USERS, 3 if full else 1):
            probes.append({'kind': 0, 'mut': 'made:consumer', 'make': {'origin': 'consumer', 'username': w, 'key_user': w},
                           'user': w})
        if rng.random() < 0.25 or full:
            w, v = rng.sample(USERS, 2)
            probes.append({'kind': 0, 'mut': 'made:consumer-wrong-user-key',
                           'make': {'origin': 'consumer', 'username': w, 'key_user': v}, 'user': w})
        for _ in range(3 if full else 1):
            probes.append({'kind': 0, 'mut': 'garbage', 'hdr': garbage(rng)})
        if rng.random() < 0.3 or full:
            dkey = sha_hex(rng.choice(pool) + '-slave')
            dm = device_mutations(rng, now8, skew, dkey)
            for label, hdr in (dm if full else rng.sample(dm, 3)):
                probes.append({'kind': 2, 'mut': label, 'hdr': hdr, 'key': dkey})
            probes.append({'kind': 2, 'mut': 'made:webhook', 'key': dkey,
                           'make': {'origin': 'device', 'username': None, 'key': dkey}})
            probes.append({'kind': 2, 'mut': 'made:reverse', 'key': dkey,
                           'make': {'origin': 'device', 'username': 'dev-1', 'key': dkey}})
            probes.append({'kind': 2, 'mut': 'made:device-empty-key', 'key': '',
                           'make': {'origin': 'device', 'username': None, 'key': ''}})
        items.append({'batch': {'now8': now8, 'probes': probes}})

    if rng.random() < 0.3:
        batch(False)          # before the first boot
    for i, a in enumerate(acts):
        items.append({'action': a})
        for o in action_ops(a):
            sim.apply(o)
        batch(i + 1 == sweep_at)
    if stream:
        items.append(gen_stream(rng, skew, pool))
    if slave:
        items.append(gen_slave(rng, skew, pool))
    return {'items': items, 'pool': pool, 'set_cmd': SET_CMD if set_cmd else None}


# ---------------------------------------------------------------------------------------------------------------------
# worker: runs in a fresh process with the real implementation

WORKER = r'''
import sys, json, time, asyncio, logging, hashlib, importlib, warnings
_real_monotonic = time.monotonic
CLOCK = [1790000000.0]
time.time = lambda: CLOCK[0]
import datetime as _dt
import jwt, jwt.api_jwt
class _FakeDT(_dt.datetime):
    @classmethod
    def now(cls, tz=None):
        return _dt.datetime.fromtimestamp(CLOCK[0], tz)
jwt.api_jwt.datetime = _FakeDT
warnings.simplefilter('ignore')
logging.disable(logging.CRITICAL)
from qtoggleserver.core import expressions  # noqa (import order)
from qtoggleserver.conf import settings
settings.persist.driver = 'qtoggleserver.drivers.persist.JSONDriver'
settings.persist.file_path = None
settings.frontend.enabled = False
settings.slaves.enabled = True
settings.slaves.timeout = 3
settings.slaves.long_timeout = 3
settings.slaves.retry_count = 0
from qtoggleserver import persist
from qtoggleserver.core import api as core_api
from qtoggleserver.core import device as core_device
from qtoggleserver.core.device import attrs as A
from qtoggleserver.core.api import auth as core_api_auth
from qtoggleserver.web import server as web_server
from tornado.web import Application
from tornado.httpserver import HTTPServer
from tornado.netutil import bind_sockets

import io
from urllib.parse import urlsplit
from tornado.httpclient import HTTPResponse
from tornado.httputil import HTTPHeaders
from qtoggleserver.slaves import devices as slaves_devices


def _sha(pw):
    return hashlib.sha256(pw.encode()).hexdigest()


class FakeSlave:
    """a qToggle device as far as the hub's Slave needs it; it authenticates requests with the REAL parse_auth_header and
    its own admin password (the receiving side runs the same code)"""
    pw = ''
    down = False
    log = []
    attrs = {}
    patch_status = 204      # how PATCH /device is acknowledged: 204, or 202 Accepted (change applied asynchronously)

    @classmethod
    def reset(cls, pw):
        cls.pw, cls.down, cls.log, cls.patch_status = pw, False, [], 204
        cls.attrs = {'name': 'c10slave', 'display_name': '', 'version': '1.0', 'api_version': '1.1', 'vendor': 'c10',
                     'flags': [], 'uptime': 1}


class FakeSlaveClient:
    def __init__(self, *a, **k):
        pass

    def fetch(self, request, raise_error=True, **kw):
        return asyncio.ensure_future(self._fetch(request))

    async def _fetch(self, request):
        await asyncio.sleep(0)
        if FakeSlave.down:
            raise ConnectionRefusedError(111, 'Connection refused')
        path = urlsplit(request.url).path
        if path.startswith('/api'):
            path = path[4:]
        path = path.rstrip('/') or '/'
        hdr = request.headers.get('Authorization', '')
        try:
            usr = core_api_auth.parse_auth_header(hdr, core_api_auth.ORIGIN_CONSUMER,
                                                  lambda u: _sha(FakeSlave.pw) if u == 'admin' else None)
            verdict = ['grant', usr]
        except core_api_auth.AuthError:
            verdict = ['refuse']
        except Exception as e:
            verdict = ['crash', type(e).__name__]
        FakeSlave.log.append([request.method, path, hdr, verdict, CLOCK[0], FakeSlave.pw])
        body = json.loads(request.body) if request.body else None
        if verdict[0] != 'grant':
            st, pl = 401, {'error': 'authentication-required'}
        elif path == '/device' and request.method == 'GET':
            st, pl = 200, dict(FakeSlave.attrs, admin_password='set' if FakeSlave.pw else '', normal_password='',
                               viewonly_password='')
        elif path == '/device' and request.method == 'PATCH':
            for k, v in (body or {}).items():
                if k == 'admin_password':
                    FakeSlave.pw = v
                elif not k.endswith('_password'):
                    FakeSlave.attrs[k] = v
            st, pl = FakeSlave.patch_status, None
        elif path == '/ports' and request.method == 'GET':
            st, pl = 200, []
        elif path in ('/webhooks', '/reverse') and request.method == 'GET':
            st, pl = 200, {'enabled': False}
        elif path in ('/webhooks', '/reverse'):
            st, pl = 204, None
        else:
            st, pl = 404, {'error': 'no-such-function'}
        data = b'' if pl is None else json.dumps(pl).encode()
        return HTTPResponse(request, st, headers=HTTPHeaders({'Content-Type': 'application/json'}), buffer=io.BytesIO(data))


slaves_devices.AsyncHTTPClient = FakeSlaveClient


def admin_headers():
    h = A.admin_password_hash
    hs = [('Content-Type', b'application/json')]
    if h and h != A.EMPTY_PASSWORD_HASH:
        hs.append(('Authorization', core_api_auth.make_auth_header('consumer', 'admin', h).encode()))
    return hs


async def wait_slave(conn, name, online, timeout):
    t0 = _real_monotonic()
    while _real_monotonic() - t0 < timeout:
        code, data = await conn.request('GET', '/api/devices', admin_headers())
        if code == 200:
            for d in json.loads(data):
                if d['name'] == name and bool(d['online']) == online:
                    return True
        await asyncio.sleep(0.05)
    return False


def scan(doc, secrets):
    ss = []
    strings_in(doc, ss)
    for x in ss:
        for sec in secrets:
            if sec in x:
                return [sec, x[:120]]
    return None


async def do_slave(conn, sc):
    """-> list of records (see build_shard)"""
    recs = []
    if not A.admin_password_hash:
        return [{'type': 'skip', 'why': 'hub not initialised'}]
    FakeSlave.reset(sc['pw0'])
    name = 'c10slave'
    J = json.dumps
    code, data = await conn.request('GET', '/api/devices', admin_headers())
    if code == 200:
        for d in json.loads(data):       # nothing left over from an earlier scenario
            await conn.request('DELETE', '/api/devices/%s' % d['name'], admin_headers())
    code, data = await conn.request('POST', '/api/devices', admin_headers(), J(
        {'scheme': 'http', 'host': 'c10slave.invalid', 'port': 80, 'path': '/api', 'admin_password': sc['pw0'],
         'poll_interval': 1, 'listen_enabled': False}).encode())
    if code != 201 or not await wait_slave(conn, name, True, 8):
        return [{'type': 'error', 'detail': 'could not add the simulated slave: %s %s' % (code, data[:200])}]
    k = 0
    try:
        for step in sc['steps']:
            CLOCK[0] = step['now8'] / 8
            pending = None
            if 'rename' in step:
                n0 = len(FakeSlave.log)
                code, data = await conn.request('PATCH', '/api/devices/%s/forward/device' % name, admin_headers(),
                                                J({'name': step['rename']}).encode())
                renamed = code in (200, 204) and FakeSlave.attrs.get('name') == step['rename']
                recs.append({'type': 'rename', 'to': step['rename'], 'status': code, 'ok': renamed})
                if not renamed:
                    break
                k += 1
                known = await wait_slave(conn, step['rename'], True, 8)
                # what the hub sent while adding the slave again under its new name
                seen = [e for e in FakeSlave.log[n0:] if e[0] == 'GET' and e[1] == '/device']
                if seen:
                    e = seen[0]
                    recs.append({'type': 'hubhdr', 'now8': step['now8'], 'k': k, 'hdr': e[2], 'verdict': e[3], 'slave_pw': e[5],
                                 'status': 0, 'label': 'slave:hub-header-on-readd'})
                if not known:
                    recs.append({'type': 'lost', 'now8': step['now8'], 'k': k, 'name': step['rename']})
                    break
                name = step['rename']
            elif 'fwd' in step:
                body = {'admin_password': step['fwd']} if step['fwd'] is not None else {'display_name': 'c10-%d' % k}
                FakeSlave.patch_status = step.get('ack', 204)
                before = FakeSlave.pw
                code, data = await conn.request('PATCH', '/api/devices/%s/forward/device' % name, admin_headers(), J(body).encode())
                FakeSlave.patch_status = 204
                # accepted = the slave took the request (it applies it whether it answers 204 or 202)
                # (the hub's own answer to a 202 of the slave is a 500 "accepted but not processed" on the unchanged tree: the
                #  Accepted error is not adapted by slave_device_forward; what counts here is that the slave applied it)
                applied = step['fwd'] is None or FakeSlave.pw == step['fwd']
                ok = applied and (code in (200, 204) or step.get('ack') == 202)
                recs.append({'type': 'fwd', 'pw': step['fwd'], 'status': code, 'ok': ok, 'ack': step.get('ack', 204)})
                if ok:
                    k += 1
            else:
                FakeSlave.down = True
                if not await wait_slave(conn, name, False, 8):
                    recs.append({'type': 'error', 'detail': 'the slave did not go offline'})
                    break
                body = {'admin_password': step['offline_fwd']}
                code, data = await conn.request('PATCH', '/api/devices/%s/forward/device' % name, admin_headers(), J(body).encode())
                pending = step['offline_fwd']
                code1, d1 = await conn.request('GET', '/api/devices', admin_headers())
                code2, d2 = await conn.request('GET', '/api/devices/%s/forward/device' % name, admin_headers())
                if code in (200, 204) and code1 == 200 and code2 == 200:
                    lst, fwd = json.loads(d1), json.loads(d2)
                    mine = [d for d in lst if d['name'] == name][0]
                    recs.append({'type': 'doc', 'now8': step['now8'], 'k': k, 'pending': pending,
                                 'shown': mine['attrs'].get('admin_password'), 'shown_fwd': fwd.get('admin_password'),
                                 'slave_bit': 'set' if FakeSlave.pw else '', 'leak': scan([lst, fwd], sc['secrets'])})
                else:
                    recs.append({'type': 'error', 'detail': 'offline PATCH/GET: %s %s %s' % (code, code1, code2)})
                FakeSlave.down = False
                if not await wait_slave(conn, name, True, 15):
                    recs.append({'type': 'error', 'detail': 'the slave did not come back online'})
                    break
                for _ in range(40):     # provisioning runs right after the slave is back
                    if FakeSlave.pw == pending:
                        break
                    await asyncio.sleep(0.05)
                await asyncio.sleep(0.1)
                if FakeSlave.pw != pending:
                    recs.append({'type': 'note', 'detail': 'pending password was not provisioned'})
                    break
                k += 1
                recs.append({'type': 'fwd', 'pw': pending, 'status': 204, 'ok': True, 'provisioned': True})
                pending = None
            # (a) the header the hub sends to the slave now
            n0 = len(FakeSlave.log)
            code, data = await conn.request('GET', '/api/devices/%s/forward/device' % name, admin_headers())
            seen = [e for e in FakeSlave.log[n0:] if e[0] == 'GET' and e[1] == '/device']
            if seen:
                e = seen[-1]
                recs.append({'type': 'hubhdr', 'now8': step['now8'], 'k': k, 'hdr': e[2], 'verdict': e[3], 'slave_pw': e[5],
                             'status': code})
            else:
                recs.append({'type': 'error', 'detail': 'forwarded GET /device did not reach the slave (%s)' % code})
            # (b) the slave-events endpoint of the hub
            for label, hdr in step['events']:
                code, data = await conn.request(
                    'POST', '/api/devices/%s/events' % name,
                    [('Content-Type', b'application/json'), ('Authorization', hdr.encode('latin-1'))],
                    J({'type': 'device-update', 'params': {}}).encode())
                recs.append({'type': 'event', 'now8': step['now8'], 'k': k, 'label': label, 'hdr': hdr, 'status': code})
            # (c) what the hub shows about the slave
            code1, d1 = await conn.request('GET', '/api/devices', admin_headers())
            if code1 == 200:
                lst = json.loads(d1)
                mine = [d for d in lst if d['name'] == name][0]
                recs.append({'type': 'doc', 'now8': step['now8'], 'k': k, 'pending': None,
                             'shown': mine['attrs'].get('admin_password'), 'shown_fwd': mine['attrs'].get('admin_password'),
                             'slave_bit': 'set' if FakeSlave.pw else '', 'leak': scan(lst, sc['secrets'])})
    finally:
        FakeSlave.down = False
        code, data = await conn.request('GET', '/api/devices', admin_headers())
        if code == 200:
            for d in json.loads(data):
                await conn.request('DELETE', '/api/devices/%s' % d['name'], admin_headers())
    return recs


USERS = ['admin', 'normal', 'viewonly']
HASH_NAMES = ['admin_password_hash', 'normal_password_hash', 'viewonly_password_hash']
LEVELS = {'admin': 30, 'normal': 20, 'viewonly': 10, 'none': 0}


SECRETS = set()
RESPONSE_LEAKS = []
N_RESPONSES = [0]
DOCUMENTED_HASH_FIELDS = ('admin_password_hash', 'password_hash')


def _strings_except_documented(x, out):
    if isinstance(x, str):
        out.append(x)
    elif isinstance(x, dict):
        for k, v in x.items():
            out.append(str(k))
            if k in DOCUMENTED_HASH_FIELDS:
                continue
            _strings_except_documented(v, out)
    elif isinstance(x, (list, tuple)):
        for v in x:
            _strings_except_documented(v, out)


def note_response(method, path, code, data):
    """every answer body of every request is searched for every password text / hash submitted in this history"""
    if not data or not SECRETS:
        return
    N_RESPONSES[0] += 1
    try:
        texts = []
        _strings_except_documented(json.loads(data), texts)
    except Exception:
        texts = [data.decode('latin-1')]
    for t in texts:
        for sec in SECRETS:
            if sec in t:
                RESPONSE_LEAKS.append({'method': method, 'path': path, 'status': code, 'secret': sec, 'body': t[:300]})
                return


class Conn:
    def __init__(self, port):
        self.port = port
        self.r = self.w = None

    async def request(self, method, path, headers, body=None):
        try:
            code, data = await asyncio.wait_for(self._request(method, path, headers, body), 30)
        except asyncio.TimeoutError:
            self.close()
            return -2, b'timeout'
        note_response(method, path, code, data)
        return code, data


    async def _request(self, method, path, headers, body=None):
        for attempt in (0, 1):
            try:
                if self.w is None:
                    self.r, self.w = await asyncio.open_connection('127.0.0.1', self.port)
                h = b''.join(k.encode('latin-1') + b': ' + v + b'\r\n' for k, v in headers)
                if body is not None:
                    h += b'Content-Length: %d\r\n' % len(body)
                self.w.write(method.encode() + b' ' + path.encode() + b' HTTP/1.1\r\nHost: c10\r\n' + h + b'\r\n' + (body or b''))
                await self.w.drain()
                status = await self.r.readline()
                if not status:
                    raise ConnectionError('closed')
                code = int(status.split()[1])
                hs = {}
                while True:
                    line = await self.r.readline()
                    if line in (b'\r\n', b'\n', b''):
                        break
                    k, v = line.decode('latin-1').split(':', 1)
                    hs[k.strip().lower()] = v.strip()
                n = int(hs.get('content-length', '0'))
                data = await self.r.readexactly(n) if n else b''
                if hs.get('connection', '').lower() == 'close':
                    self.close()
                return code, data
            except (ConnectionError, asyncio.IncompleteReadError, OSError):
                self.close()
                if attempt:
                    return -2, b''

    def close(self):
        if self.w is not None:
            try:
                self.w.close()
            except Exception:
                pass
        self.r = self.w = None


async def fresh():
    """a fresh installation that has never been started: module defaults, no persisted record"""
    try:
        await persist.remove('device')
    except Exception:
        pass
    importlib.reload(A)


async def do_action(conn, a):
    k = a['a']
    via = a.get('via', 'direct')
    if via == 'http':
        # the request needs admin rights: a token signed with the current admin hash (none needed when it is empty)
        h = A.admin_password_hash
        if not h:
            via = 'direct'
    if k == 'patch':
        body = {'%s_password' % u: pw for u, pw in a['pws']}
        if via == 'http':
            hd = [('Content-Type', b'application/json'),
                  ('Authorization', core_api_auth.make_auth_header('consumer', 'admin', A.admin_password_hash).encode())]
            code, data = await conn.request('PATCH', '/api/device', hd, json.dumps(body).encode())
            want = 500 if a.get('refused') else 204
            return {'ok': code == want, 'detail': 'PATCH /api/device -> %s %s' % (code, data[:200]), 'via': 'http'}
        if a.get('refused'):
            # what patch_device does: set_attrs raises, nothing is saved
            try:
                await A.set_attrs(dict(body))
            except Exception:
                return {'ok': True, 'via': 'direct'}
            return {'ok': False, 'detail': 'the password command did not refuse %r' % (body,), 'via': 'direct'}
        await A.set_attrs(dict(body))
        await core_device.save()
    elif k == 'put':
        body = {'name': 'hub%d' % (len(json.dumps(a)) % 7), 'display_name': 'C10', 'admin_password': 'ignored-by-put',
                'viewonly_password_hash': hashlib.sha256(b'injected').hexdigest(),
                'admin_password_hash': hashlib.sha256(b'injected').hexdigest()}
        if a.get('own'):
            # a backup restored right away: the hub's own GET /device document
            body = dict(await A.to_json())
            body.pop('definitions', None)
        if via == 'http':
            hd = [('Content-Type', b'application/json'),
                  ('Authorization', core_api_auth.make_auth_header('consumer', 'admin', A.admin_password_hash).encode())]
            if a.get('own'):
                code, data = await conn.request('GET', '/api/device', hd)
                if code != 200:
                    return {'ok': False, 'detail': 'GET /api/device -> %s' % code, 'via': 'http'}
                body = json.loads(data)
                body.pop('definitions', None)
            code, data = await conn.request('PUT', '/api/device', hd, json.dumps(body).encode())
            return {'ok': code == 204, 'detail': 'PUT /api/device -> %s %s' % (code, data[:200]), 'via': 'http'}
        for f in USERS:
            body.pop('%s_password' % f, None)
        body.pop('date', None)
        await core_device.reset(preserve_attrs=list(HASH_NAMES))
        await core_device.load()
        await A.set_attrs(body, ignore_extra=True)
        await core_device.save()
    elif k == 'factory':
        await core_device.reset()
        importlib.reload(A)          # the reboot scheduled by POST /reset
        await core_device.load()
    elif k == 'set':
        await A.set_attrs({'%s_password' % a['u']: a['pw']})
    elif k == 'save':
        await core_device.save()
    elif k == 'load':
        await core_device.load()
    elif k == 'restart':
        importlib.reload(A)
        await core_device.load()
    elif k == 'reset':
        await core_device.reset(preserve_attrs=list(HASH_NAMES) if a['keep'] else None)
    else:
        return {'ok': False, 'detail': 'unknown action %r' % (a,)}
    return {'ok': True, 'via': 'direct'}


def direct(hdr, kind, key):
    try:
        if kind == 2:
            usr = core_api_auth.parse_auth_header(hdr, core_api_auth.ORIGIN_DEVICE, lambda u: key, require_usr=False)
        else:
            usr = core_api_auth.parse_auth_header(hdr, core_api_auth.ORIGIN_CONSUMER,
                                                  core_api_auth.consumer_password_hash_func)
        return ['grant', usr]
    except core_api_auth.AuthError:
        return ['refuse']
    except Exception as e:
        return ['crash', type(e).__name__]


def strings_in(x, out):
    if isinstance(x, str):
        out.append(x)
    elif isinstance(x, dict):
        for k, v in x.items():
            out.append(str(k))
            strings_in(v, out)
    elif isinstance(x, (list, tuple)):
        for v in x:
            strings_in(v, out)


async def do_probe(conn, p, secrets):
    out = {}
    kind = p['kind']
    if kind in (0, 2):
        if 'make' in p:
            m = p['make']
            key = m['key'] if 'key' in m else getattr(A, '%s_password_hash' % m['key_user'])
            try:
                hdr = core_api_auth.make_auth_header(m['origin'], m['username'], key)
            except Exception as e:
                return {'error': 'make_auth_header: %s: %s' % (type(e).__name__, e), 'make_key': key}
            out['hdr'] = hdr
            out['make_key'] = key
        else:
            hdr = p['hdr']
        out['direct'] = direct(hdr, kind, p.get('key'))
        if kind == 0 and p.get('http'):
            code, data = await conn.request('GET', '/api/access', [('Authorization', hdr.encode('latin-1'))])
            out['http'] = http_level(code, data)
    elif kind == 3:
        code, data = await conn.request('GET', '/api/access', [])
        out['http'] = http_level(code, data)
    elif kind == 4:
        # through the API when an admin token can be made, and always directly
        doc = await A.to_json()
        docs = [doc]
        h = A.admin_password_hash
        if h:
            hd = [('Authorization', core_api_auth.make_auth_header('consumer', 'admin', h).encode())]
            code, data = await conn.request('GET', '/api/device', hd)
            if code == 200:
                docs.append(json.loads(data))
                out['doc_http'] = True
            else:
                out['doc_http_status'] = code
        ss = []
        for d in docs:
            strings_in(d, ss)
        leak = None
        for s in ss:
            for sec in secrets:
                if len(sec) >= 6 and sec in s:
                    leak = [sec, s[:200]]
        bits = [doc.get('%s_password' % u) for u in USERS]
        if len(docs) > 1 and [docs[1].get('%s_password' % u) for u in USERS] != bits:
            out['error'] = 'GET /api/device and to_json() disagree on the password attributes'
        out['bits'] = bits
        out['leak'] = leak
        out['doc_keys'] = sorted(doc.keys())
    return out


def http_level(code, data):
    if code == 200:
        try:
            return LEVELS[json.loads(data)['level']]
        except Exception:
            return -3
    if code == 500:
        return -1
    return -1000 - code


async def main(script_path, out_path):
    with open(script_path) as f:
        script = json.load(f)
    table = web_server._make_routing_table()
    app = Application(handlers=table, debug=False, compress_response=False)
    socks = bind_sockets(0, '127.0.0.1')
    port = socks[0].getsockname()[1]
    srv = HTTPServer(app)
    srv.add_sockets(socks)
    conn = Conn(port)
    results = []
    info = {'skew': settings.core.max_client_time_skew, 'pyjwt': jwt.__version__,
            'levels': {u: core_api.ACCESS_LEVEL_MAPPING[u] for u in USERS},
            'old_time_limit': __import__('qtoggleserver.system.date', fromlist=['x']).OLD_TIME_LIMIT,
            'iss': core_api_auth.JWT_ISS, 'alg': core_api_auth.JWT_ALG,
            'origins': [core_api_auth.ORIGIN_CONSUMER, core_api_auth.ORIGIN_DEVICE],
            'empty_hash': core_api_auth.EMPTY_PASSWORD_HASH, 'empty_hash_attrs': A.EMPTY_PASSWORD_HASH}
    for hist in script['histories']:
        CLOCK[0] = 1790000000.0
        settings.core.passwords.set_cmd = hist.get('set_cmd')
        await fresh()
        hres = []
        secrets = set()
        for pw in hist['pool']:
            if pw:
                secrets.add(pw)
            secrets.add(hashlib.sha256(pw.encode()).hexdigest())
        SECRETS.clear()
        SECRETS.update(x for x in secrets if len(x) >= 6)
        del RESPONSE_LEAKS[:]
        N_RESPONSES[0] = 0
        for item in hist['items']:
            if 'action' in item:
                try:
                    r = await do_action(conn, item['action'])
                except Exception as e:
                    r = {'ok': False, 'detail': '%s: %s' % (type(e).__name__, e)}
                r['hashes'] = [getattr(A, n) for n in HASH_NAMES]
                hres.append({'action': r})
            elif 'slave' in item:
                try:
                    hres.append({'slave': await do_slave(conn, item['slave'])})
                except Exception as e:
                    hres.append({'slave': [{'type': 'error', 'detail': '%s: %s' % (type(e).__name__, e)}]})
            elif 'stream' in item:
                st = item['stream']
                sres = []
                for t8 in st['times']:
                    row = []
                    for c in st['creds']:
                        CLOCK[0] = t8 / 8
                        key = c['key'] if 'key' in c else getattr(A, '%s_password_hash' % c['key_user'])
                        try:
                            hdr = core_api_auth.make_auth_header(c['origin'], c['username'], key)
                        except Exception as e:
                            row.append({'error': 'make_auth_header: %s: %s' % (type(e).__name__, e), 'make_key': key})
                            continue
                        obs = []
                        for d in [0] + st['offsets']:
                            CLOCK[0] = (t8 + d) / 8
                            obs.append(direct(hdr, c['kind'], c.get('key')))
                        row.append({'hdr': hdr, 'make_key': key, 'obs': obs})
                    sres.append(row)
                hres.append({'stream': sres})
            else:
                b = item['batch']
                CLOCK[0] = b['now8'] / 8
                pr = []
                for p in b['probes']:
                    try:
                        pr.append(await do_probe(conn, p, secrets))
                    except Exception as e:
                        pr.append({'error': '%s: %s' % (type(e).__name__, e)})
                hres.append({'batch': pr})
        hres.append({'responses': {'n': N_RESPONSES[0], 'leaks': list(RESPONSE_LEAKS[:5])}})
        results.append(hres)
    conn.close()
    srv.stop()
    with open(out_path, 'w') as f:
        json.dump({'info': info, 'results': results}, f)


asyncio.run(main(sys.argv[1], sys.argv[2]))
'''


def run_worker(ctx, histories, tag):
    sp = os.path.join(ctx.workdir, 'script_%s.json' % tag)
    op = os.path.join(ctx.workdir, 'out_%s.json' % tag)
    wp = os.path.join(ctx.workdir, 'c10_worker.py')
    with open(wp, 'w') as f:
        f.write(WORKER)
    with open(sp, 'w') as f:
        json.dump({'histories': histories}, f)
    env = dict(os.environ)
    env['PYTHONPATH'] = '%s:%s' % (coq.VERIF, repo.REPO)
    p = subprocess.run([sys.executable, wp, sp, op], capture_output=True, text=True, env=env, timeout=3600, cwd=ctx.workdir)
    if p.returncode != 0 or not os.path.exists(op):
        raise RuntimeError('worker failed (rc=%s): %s' % (p.returncode, (p.stderr or p.stdout)[-1500:]))
    with open(op) as f:
        return json.load(f)


# ---------------------------------------------------------------------------------------------------------------------
# cases -> Coq

def mark_http(histories):
    for h in histories:
        for it in h['items']:
            if 'batch' in it:
                for p in it['batch']['probes']:
                    if p['kind'] == 0 and 'make' not in p:
                        p['http'] = transportable(p['hdr']) or p['hdr'] == ''
                    elif p['kind'] == 0:
                        p['http'] = True


def candidate(hdr):
    w = hdr.split()
    return w[1] if len(w) == 2 else ''


def verifying_keys(parsed, keys):
    if parsed is None:
        return []
    out = []
    try:
        sig = bytes.fromhex(parsed['sig'])
    except ValueError:
        return []
    for k in keys:
        if hmac.compare_digest(hmac.new(k.encode(), parsed['si'].encode(), hashlib.sha256).digest(), sig):
            out.append(k)
    return out


def fix_absent(obs, kind, pp):
    """usr absent from the token: parse_auth_header returns None; the model's claim lookup gives None (not JNull)"""
    if obs[0] == 'grant' and obs[1] is None and kind == 2 and 'usr' not in (pp or {}).get('claims', {}):
        obs[1] = '__absent__'
    return obs


def build_shard(hist, hres, info, res, stats):
    """-> (coq text, meta list aligned with the cases) or None"""
    skew = int(info['skew'])
    pool = hist['pool']
    sha_tbl = {pw: sha_hex(pw) for pw in set(pool) | {''}}
    ops = []
    cases, meta = [], []
    actions_so_far = []
    spw0, sops = '', []
    for item, r in zip(hist['items'], hres):
        if 'action' in item:
            a = item['action']
            ar = r['action']
            actions_so_far = actions_so_far + [a]
            if not ar.get('ok'):
                res['tie_failures'].append({'note': 'history operation failed on the implementation', 'action': a,
                                            'detail': ar.get('detail')})
                return None
            ops += action_ops(a)
            stats['actions'] = stats.get('actions', 0) + 1
            an = a['a'] + ('-refused' if a.get('refused') else '') + ('-own-document' if a.get('own') else '')
            stats['action:%s:%s' % (an, ar.get('via'))] = stats.get('action:%s:%s' % (an, ar.get('via')), 0) + 1
            continue
        if 'slave' in item:
            sc = item['slave']
            spw0 = sc['pw0']
            plist = []
            for rec in r['slave']:
                t = rec['type']
                if t == 'error':
                    res['tie_failures'].append({'note': 'slave scenario failed in the harness worker', 'detail': rec['detail']})
                elif t in ('skip', 'note'):
                    stats['slave:' + rec.get('why', rec.get('detail', ''))] = stats.get('slave:' + rec.get('why', rec.get('detail', '')), 0) + 1
                elif t == 'fwd':
                    stats['slave:forwarded-change'] = stats.get('slave:forwarded-change', 0) + 1
                    if rec.get('ack') == 202:
                        stats['slave:forwarded-change-acknowledged-202'] = stats.get('slave:forwarded-change-acknowledged-202', 0) + 1
                    if rec['ok']:
                        sops.append(rec['pw'])
                    else:
                        res['tie_failures'].append({'note': 'forwarded PATCH /device was not accepted', 'status': rec['status']})
                elif t == 'rename':
                    stats['slave:rename'] = stats.get('slave:rename', 0) + 1
                    if rec['ok']:
                        sops.append('__rename__')
                    else:
                        res['tie_failures'].append({'note': 'forwarded rename was not accepted', 'status': rec['status']})
                elif t == 'lost':
                    # the hub no longer knows the slave after renaming it: as a case, "the hub shows a password" is not the
                    # point - report it through the oracle as a device list that fails (kind 7 with an impossible value)
                    plist.append((rec['now8'], {'kind': 7, 'mut': 'slave:lost-after-rename', 'sk': rec['k'], 'sops': list(sops),
                                                'ckey': '', 'pending': False},
                                  {'bits7': ['<slave %s unknown to the hub after the rename>' % rec['name'], '', '', False],
                                   'leak': None}))
                elif t == 'hubhdr':
                    plist.append((rec['now8'], {'kind': 5, 'mut': rec.get('label', 'slave:hub-header'), 'sk': rec['k'], 'ckey': rec['slave_pw'],
                                                'sops': list(sops)},
                                  {'hdr': rec['hdr'], 'direct': rec['verdict']}))
                elif t == 'event':
                    plist.append((rec['now8'], {'kind': 6, 'mut': 'slave:' + rec['label'], 'sk': rec['k'], 'sops': list(sops)},
                                  {'hdr': rec['hdr'], 'direct': ['refuse'] if rec['status'] == 401 else ['grant', None],
                                   'status': rec['status']}))
                elif t == 'doc':
                    plist.append((rec['now8'], {'kind': 7, 'mut': 'slave:device-list', 'sk': rec['k'], 'sops': list(sops),
                                                'ckey': rec['pending'] or '', 'pending': rec['pending'] is not None},
                                  {'bits7': [rec['shown'], rec['shown_fwd'], rec['slave_bit'], bool(rec['leak'])],
                                   'leak': rec['leak']}))
            for _n, p_, _o in plist:
                p_['slave_spec'] = sc
        elif 'stream' in item:
            st = item['stream']
            plist = []
            for t8, row in zip(st['times'], r['stream']):
                for c, o in zip(st['creds'], row):
                    p = {'kind': c['kind'], 'mut': 'stream:%s%s' % (c['origin'], '' if c['username'] is None or c['kind'] == 0 else '-usr'),
                         'make': {'origin': c['origin'], 'username': c['username']}, 'key': c.get('key'), 'user': c.get('key_user')}
                    if 'obs' in o:
                        o = dict(o, direct=o['obs'][0], multi=list(zip(st['offsets'], o['obs'][1:])))
                    p['stream_spec'] = st
                    plist.append((t8, p, o))
        else:
            b = item['batch']
            plist = [(b['now8'], p, o) for p, o in zip(b['probes'], r['batch'])]
        for now8, p, o in plist:
            k = p['sk'] if 'sk' in p else len(ops)
            if 'error' in o:
                if 'make' in p and 'InvalidKeyError' in o['error'] and not o.get('make_key'):
                    # this PyJWT refuses to sign with an empty key: make_auth_header(…, None or '') raises
                    stats['make_auth_header:empty-key:InvalidKeyError'] = \
                        stats.get('make_auth_header:empty-key:InvalidKeyError', 0) + 1
                    continue
                res['tie_failures'].append({'note': 'probe failed in the harness worker', 'probe': p.get('mut'),
                                            'detail': o['error']})
                continue
            kind = p['kind']
            hdr = o.get('hdr', p.get('hdr', ''))
            try:
                hdr.encode('latin-1')
            except UnicodeEncodeError:
                stats['skipped:non-latin1'] = stats.get('skipped:non-latin1', 0) + 1
                continue
            cand = candidate(hdr) if kind in (0, 2, 5, 6) else ''
            pp = pyjwt_parse(cand) if cand else None
            sp = indep_parse(cand) if cand else None
            if pp is not None and not parsed_equal(pp, sp):
                # PyJWT accepted something the independent parser reads differently: harness-level inconsistency
                res['tie_failures'].append({'note': 'PyJWT and the independent parser disagree on a token', 'hdr': hdr})
            issued = 'None'
            keys = set(sha_tbl.values()) | {''}
            if kind == 2:
                keys.add(p.get('key') or '')
            if 'make' in p:
                m = p['make']
                mk = o.get('make_key')
                if mk is None:
                    # make_auth_header signs with '' when the hash is None
                    mk = ''
                keys.add(mk)
                # the issue time is not passed: Spec.v says it is the clock of the call (c_now8)
                issued = '(Some (%s, %s, %s))' % (
                    cstr(m['origin']), 'None' if m['username'] is None else '(Some %s)' % cstr(m['username']), cstr(mk))
            try:
                vk = sorted(set(verifying_keys(pp, keys)) | set(verifying_keys(sp, keys)))
                if kind == 7:
                    b7 = o['bits7']
                    obs = ['bits'] + [('' if x is None else str(x)) for x in b7[:3]] + [b7[3]]
                elif kind == 4:
                    obs = ['bits'] + [('' if x is None else x) for x in o['bits']] + [bool(o['leak'])]
                    if any(x not in ('', 'set') for x in o['bits']):
                        obs[4] = True
                elif kind == 3:
                    obs = ['refuse']
                else:
                    obs = fix_absent(list(o['direct']), kind, pp)
                    if kind == 6 and obs[0] == 'grant':
                        obs[1] = '__absent__'
                http = o.get('http')
                if http is not None and http < -1:
                    res['tie_failures'].append({'note': 'unexpected HTTP status from GET /api/access', 'status': -1000 - http,
                                                'hdr': hdr})
                    continue
                ps, ss = cparsed(pp), cparsed(sp)
                if cand:
                    i = hdr.index(cand)
                    pre, suf = hdr[:i], hdr[i + len(cand):]
                else:
                    pre, suf = hdr, ''
                multi = coq.lst(o.get('multi', []), lambda dv: '(%s, %s)' % (coq.z(dv[0]), cobs(fix_absent(list(dv[1]), kind, pp))))
                text = 'HC %d %d %s %s %s %s %s %s %s %s %s %s %s %s %s' % (
                    kind, k, coq.z(now8), cstr(pre), cstr(cand), cstr(suf), 'p' if ps == ss else ps, 'p' if ps == ss else ss,
                    coq.lst(vk, cstr), cpw(p['ckey']) if 'ckey' in p else cstr((p.get('key') or '') if kind == 2 else ''),
                    issued, cobs(obs), 'None' if http is None else '(Some %s)' % coq.z(http),
                    coq.boolean(p['pending'] if kind == 7 else (bool(cand) and plain_token(cand))), multi)
                if ps == ss:
                    text = 'let p := %s in %s' % (ps, text)
            except Unencodable as e:
                stats['skipped:unencodable'] = stats.get('skipped:unencodable', 0) + 1
                continue
            cases.append('(' + text + ')')
            meta.append({'kind': kind, 'mut': p.get('mut'), 'hdr': hdr, 'now8': now8, 'k': k, 'actions': actions_so_far,
                         'user': p.get('user'), 'key': p.get('key'), 'make': p.get('make'), 'direct': o.get('direct'),
                         'http': o.get('http'), 'bits': o.get('bits'), 'leak': o.get('leak'),
                         'wellformed': sp is not None, 'make_key': o.get('make_key'),
                         'multi': [[d, v[0]] for d, v in o.get('multi', [])], 'stream_spec': p.get('stream_spec'),
                         'set_cmd': hist.get('set_cmd'), 'slave_spec': p.get('slave_spec'), 'bits7': o.get('bits7'), 'status': o.get('status'),
                         'sops': p.get('sops'), 'slave_pw': p.get('ckey')})
    if len(hres) > len(hist['items']) and 'responses' in hres[-1]:
        rr = hres[-1]['responses']
        leak = bool(rr['leaks'])
        cases.append('(HC 8 %d 0 "" "" "" Malformed Malformed [] "" None (OBits "" "" "" %s) None false [])' % (len(ops), coq.boolean(leak)))
        meta.append({'kind': 8, 'mut': 'responses', 'hdr': '', 'now8': 0, 'k': len(ops), 'actions': actions_so_far, 'user': None,
                     'key': None, 'make': None, 'direct': None, 'http': None, 'bits': None, 'leak': rr['leaks'], 'wellformed': False,
                     'make_key': None, 'multi': [], 'stream_spec': None, 'set_cmd': hist.get('set_cmd'), 'slave_spec': None,
                     'bits7': None, 'status': None, 'sops': None, 'slave_pw': None, 'n_responses': rr['n']})
    body = (
        'Definition skew := %s.\n' % coq.z(skew)
        + 'Definition sha : list (string * string) := %s.\n'
        % coq.lst(sorted(sha_tbl.items()), lambda kv: '(%s, %s)' % (cpw(kv[0]), coq.string(kv[1])))
        + 'Definition ops : list op := %s.\n' % coq.lst(ops, cop)
        + 'Definition spw0 : string := %s.\n' % cpw(spw0)
        + 'Definition sops : list sop := %s.\n'
        % coq.lst(sops, lambda x: 'SRename' if x == '__rename__' else '(SFwd %s)' % coq.option(x, cpw))
        + 'Definition cases : list hcase := [\n  %s].\n' % ';\n  '.join(cases)
    )
    return body, meta


def outcome_of(m):
    if m['kind'] == 8:
        return 'responses:%s' % ('LEAK' if m['leak'] else 'clean')
    if m['kind'] == 7:
        b = m['bits7']
        return 'slave-doc:%s%s' % ('bit' if b[0] in ('', 'set') and b[1] in ('', 'set') else 'VALUE', ':LEAK' if b[3] else '')
    if m['kind'] == 6:
        return 'event:%s' % m['status']
    if m['kind'] == 4:
        return 'doc:%s%s' % ('/'.join(x or '-' for x in (m['bits'] or [])), ':LEAK' if m['leak'] else '')
    d = m['direct']
    parts = []
    if d:
        parts.append('granted' if d[0] == 'grant' else ('refused' if d[0] == 'refuse' else 'exception:%s' % d[1]))
    if m['http'] is not None:
        parts.append('http:%s' % {30: 'admin', 20: 'normal', 10: 'viewonly', 0: 'none', -1: '500'}.get(m['http'], m['http']))
    return ','.join(parts)


def mut_class(label):
    return (label or '?').split(':')[0]


def check_consts(info, res):
    """the constants the model hard-codes, against the imported modules"""
    exp = {'levels': {'admin': 30, 'normal': 20, 'viewonly': 10}, 'old_time_limit': 1546304400, 'iss': 'qToggle',
           'alg': 'HS256', 'origins': ['consumer', 'device'], 'empty_hash': sha_hex(''), 'empty_hash_attrs': sha_hex('')}
    for k, v in exp.items():
        if info.get(k) != v:
            res['tie_failures'].append({'note': 'a constant the model hard-codes differs in the implementation', 'name': k,
                                        'model': v, 'implementation': info.get(k)})


def run_histories(ctx, res, histories, tag):
    mark_http(histories)
    t0 = time.time()
    out = run_worker(ctx, histories, tag)
    res['extra']['impl_wall_s'] = round(res['extra'].get('impl_wall_s', 0) + time.time() - t0, 2)
    info = out['info']
    res['extra']['implementation'] = {'max_client_time_skew': info['skew'], 'pyjwt': info['pyjwt']}
    check_consts(info, res)
    stats = res['distribution']
    shards, metas = [], []
    for hist, hres in zip(histories, out['results']):
        r = build_shard(hist, hres, info, res, stats)
        if r is None:
            continue
        body, meta = r
        # keep shards below ~1000 cases
        shards.append(body)
        metas.append(meta)
    distinct = set()
    for meta in metas:
        for m in meta:
            res['evaluations'] += ((1 if m['direct'] is not None or m['kind'] in (4, 7) else 0) + (1 if m['http'] is not None else 0)
                                   + len(m.get('multi') or []))
            oc = outcome_of(m)
            stats['outcome:' + oc] = stats.get('outcome:' + oc, 0) + 1
            if m['kind'] == 8:
                stats['answer-bodies-searched'] = stats.get('answer-bodies-searched', 0) + (m.get('n_responses') or 0)
            stats['mutation:' + mut_class(m['mut'])] = stats.get('mutation:' + mut_class(m['mut']), 0) + 1
            stats['clock:' + ('real' if m['now8'] > 8 * 1546304400 else 'none')] = \
                stats.get('clock:' + ('real' if m['now8'] > 8 * 1546304400 else 'none'), 0) + 1
            if m['wellformed']:
                distinct.add((m['hdr'], m['k'], m['now8'], json.dumps(m['actions'], sort_keys=True)))
            if len(res['samples']) < 12 and (m['mut'] or '').startswith(('valid', 'alg:none', 'key:old', 'iat:now+301',
                                                                            'made:webhook', 'scheme', 'device-doc')):
                if not any(s['mutation'] == m['mut'] for s in res['samples']):
                    res['samples'].append({'mutation': m['mut'], 'header': m['hdr'][:160], 'now': m['now8'] / 8,
                                           'operations_before': len(m['actions']), 'outcome': oc})
    res['distinct_nontrivial'] += len(distinct)
    stats['histories'] = stats.get('histories', 0) + len(metas)
    if not ctx.model_ok:
        res['tie_failures'].append('model not built; cases not evaluated')
        return
    t1 = time.time()
    outs = coq.eval_shards(ctx.workdir, 'c10cases_%s' % tag, HEADER, shards,
                           ['bad_model skew sha ops spw0 sops cases', 'bad_spec skew sha ops spw0 sops cases'], jobs=2)
    res['extra']['coq_eval_wall_s'] = round(res['extra'].get('coq_eval_wall_s', 0) + time.time() - t1, 2)
    for (rc, lists, err), meta in zip(outs, metas):
        if rc != 0 or len(lists) != 2:
            res['tie_failures'].append('coqc failed on a case shard: %s' % err[-600:])
            continue
        bad_model, bad_spec = lists
        for i in bad_model:
            m = meta[i]
            res['tie_failures'].append({'note': 'model differs from implementation', 'mutation': m['mut'], 'hdr': m['hdr'],
                                        'now8': m['now8'], 'actions': m['actions'], 'direct': m['direct'], 'http': m['http'],
                                        'bits': m['bits']})
        for i in bad_spec:
            m = meta[i]
            res['violations'].append(violation(m))
    # access that must not be granted (or a leak) first, refusals of valid tokens after
    res['violations'].sort(key=lambda v: 0 if (v['key'].get('granted') or v['key'].get('leak')) else 1)


def violation(m):
    oc = outcome_of(m)
    if m['kind'] == 4:
        what = ('GET /device after %d operations shows password attributes %r%s, which contradicts the specification '
                '(only "set"/"" per password, no hash or password anywhere)' % (
                    len(m['actions']), m['bits'], ' and leaks %r' % (m['leak'],) if m['leak'] else ''))
        key = {'observe': 'device-document', 'leak': bool(m['leak'])}
    elif m['kind'] == 3:
        what = 'a request without Authorization header got %s after %d operations, which contradicts the specification' % (
            oc, len(m['actions']))
        key = {'observe': 'no-header', 'outcome': oc, 'granted': oc != 'http:none'}
    elif m['kind'] == 8:
        lk = m['leak'][0]
        what = ('the answer to %s %s (status %s) contains the password / hash %r submitted earlier in the history: %r' % (
            lk['method'], lk['path'], lk['status'], lk['secret'], lk['body'][:200]))
        key = {'observe': 'answer-body', 'path': lk['path'], 'status': lk['status'], 'leak': True}
    elif m['kind'] == 7 and m['mut'] == 'slave:lost-after-rename':
        what = ('after the slave operations %r the hub no longer knows the slave: %s' % (m['sops'], m['bits7'][0]))
        key = {'observe': 'slave-lost-after-rename', 'granted': False}
    elif m['kind'] == 7:
        what = ('GET /devices (or the intercepted GET /devices/<name>/forward/device) shows admin_password=%r / %r for a slave%s%s: '
                'the API must show "set"/"" only, never a password' % (
                    m['bits7'][0], m['bits7'][1], ' with a password waiting to be provisioned' if m.get('slave_pw') else '',
                    ' and contains the plaintext %r' % (m['leak'],) if m['leak'] else ''))
        key = {'observe': 'slave-device-list', 'leak': bool(m['bits7'][3]), 'pending': bool(m.get('slave_pw'))}
    elif m['kind'] == 5:
        what = ('after the forwarded admin-password changes %r the slave (admin password %r) answered %s to the header the hub '
                'sent with its next request: the hub must sign with the hash of the slave\'s current password' % (
                    m['sops'], m['slave_pw'], oc))
        key = {'observe': 'hub-to-slave-header', 'granted': False}
    elif m['kind'] == 6:
        what = ('POST /devices/<name>/events with token %r after the forwarded admin-password changes %r answered %s: only the '
                'slave\'s current admin password may authenticate there' % (m['mut'], m['sops'], m['status']))
        key = {'observe': 'slave-events', 'token': m['mut'], 'granted': m['status'] != 401}
    elif (m['mut'] or '').startswith('stream:'):
        what = ('make_auth_header(%r, %r, <key>) called at t=%s returned a header that contradicts the specification (issue '
                'time = clock of the call; verifies for receiver clocks within the skew): verified at once -> %s; at receiver '
                'offsets (1/8 s) %r' % (m['make']['origin'], m['make']['username'], m['now8'] / 8, oc, m.get('multi')))
        key = {'observe': 'issued-header', 'origin': m['make']['origin'], 'granted': False}
    else:
        what = 'header of class %r (%s) -> %s at t=%s after %d operations, which contradicts the specification' % (
            m['mut'], 'device-origin check' if m['kind'] == 2 else 'consumer', oc, m['now8'] / 8, len(m['actions']))
        key = {'observe': 'device-origin' if m['kind'] == 2 else 'consumer', 'mutation': m['mut'],
               'granted': 'granted' in oc or 'http:admin' in oc or 'http:normal' in oc or 'http:viewonly' in oc}
    case = {'kind': m['kind'], 'hdr': m['hdr'], 'now8': m['now8'], 'actions': m['actions'], 'mut': m['mut'], 'key': m['key'],
            'make': m['make'], 'user': m['user'], 'set_cmd': m.get('set_cmd')}
    if m.get('slave_spec'):
        case['slave'] = m['slave_spec']
    if m.get('stream_spec'):
        st = m['stream_spec']
        case['stream'] = {'times': [t for t in st['times'] if t <= m['now8']], 'creds': st['creds'], 'offsets': st['offsets']}
    return {'key': key, 'what': what, 'case': case, 'observed': oc}


# ---------------------------------------------------------------------------------------------------------------------
# corpus / replay: a case = {'actions': [...], 'now8': n, 'kind': k, 'hdr': ..., 'key': ..., 'make': ...}

def history_of_case(c):
    items = [{'action': a} for a in c.get('actions', [])]
    if c.get('slave'):
        pool = sorted({pw for a in c.get('actions', []) for pw in
                       ([x[1] for x in a.get('pws', [])] + ([a['pw']] if 'pw' in a else []))} | set(c.get('pool', []))
                      | {s_['fwd'] for s_ in c['slave']['steps'] if s_.get('fwd')} | {c['slave']['pw0']}
                      | {s_['offline_fwd'] for s_ in c['slave']['steps'] if s_.get('offline_fwd')})
        return {'items': items + [{'slave': c['slave']}], 'pool': pool, 'set_cmd': c.get('set_cmd')}
    if c.get('stream'):
        pool = sorted({pw for a in c.get('actions', []) for pw in
                       ([x[1] for x in a.get('pws', [])] + ([a['pw']] if 'pw' in a else []))} | set(c.get('pool', [])))
        return {'items': items + [{'stream': c['stream']}], 'pool': pool}
    p = {'kind': c.get('kind', 0), 'mut': c.get('mut', 'corpus')}
    for f in ('hdr', 'key', 'make', 'user'):
        if c.get(f) is not None:
            p[f] = c[f]
    if p['kind'] in (0, 2) and 'hdr' not in p and 'make' not in p:
        p['hdr'] = ''
    items.append({'batch': {'now8': c['now8'], 'probes': [p]}})
    pool = sorted({pw for a in c.get('actions', []) for pw in
                   ([x[1] for x in a.get('pws', [])] + ([a['pw']] if 'pw' in a else []))} | set(c.get('pool', [])))
    return {'items': items, 'pool': pool, 'set_cmd': c.get('set_cmd')}


def load_corpus():
    """corpus files: {'histories': [{'actions': [...], 'pool': [...], 'probes': [{'now8', 'kind', 'hdr', 'mut', ...}]}]}
    (probes are taken after all the actions) or a replay file / {'cases': [...]} of single cases"""
    out = []
    for path in sorted(glob.glob(os.path.join(coq.VERIF, 'corpus', 'C10', '*.json'))):
        with open(path) as f:
            d = json.load(f)
        for h in d.get('histories', []):
            items = [{'action': a} for a in h['actions']]
            by_now = {}
            for p in h['probes']:
                by_now.setdefault(p['now8'], []).append({k: v for k, v in p.items() if k != 'now8'})
            for now8, ps in by_now.items():
                items.append({'batch': {'now8': now8, 'probes': ps}})
            if h.get('slave'):
                items.append({'slave': h['slave']})
            out.append({'items': items, 'pool': h.get('pool', []), 'set_cmd': h.get('set_cmd')})
        for c in (d['cases'] if 'cases' in d else ([d['case']] if 'case' in d else [])):
            out.append(history_of_case(c))
    return out


def budget(ctx, scale=1):
    """(histories, actions per history, probes per history)"""
    if ctx.tier == 'thorough':
        return 150 * scale, 30, 500
    return 20 * scale, 14, 100


def check(ctx, res):
    res['rule'] = (
        'per password history (PATCH/PUT /device over HTTP, set/save/load/reset/restart/factory reset directly; passwords '
        'from a pool incl. the empty one): after every operation a batch of probes at a frozen clock (real date, no real '
        'date, around OLD_TIME_LIMIT; fractional seconds): no header, GET /device, a valid token, a sample of the '
        'single-field mutations (in every fifth history: all ~330 of them at one point), tokens made by the real make_auth_header, garbage, '
        'device-origin tokens. Each consumer header is evaluated by parse_auth_header directly and, when it survives HTTP '
        'transport unchanged, by GET /api/access. evaluations = implementation calls; distinct non-trivial = distinct '
        '(header, history prefix, clock) whose token text is three base64url segments with JSON-object header and payload'
    )
    if ctx.replay:
        with open(ctx.replay) as f:
            d = json.load(f)
        cases = [d['case']] + [o['case'] for o in d.get('others', []) if o.get('case')]
        run_histories(ctx, res, [history_of_case(c) for c in cases if c], 'replay')
        return
    corpus = load_corpus()
    if corpus:
        run_histories(ctx, res, corpus, 'corpus')
        res['distribution']['corpus_histories'] = len(corpus)
    nh, na, npr = budget(ctx)
    skew = 300
    # every fourth history runs with settings.core.passwords.set_cmd configured (a policy that refuses some passwords)
    hs = [gen_history(ctx.rng, na, npr, skew, sweep=(i % 5 == 0), set_cmd=(i % 4 == 3)) for i in range(nh)]
    # the slave side: forwarded admin-password changes on a simulated slave (own shards)
    hs += [gen_history(ctx.rng, 3, 10, skew, sweep=False, slave=True) for _ in range(ctx.n(1, 4))]
    # short histories that end in a stream of headers issued over > 2 x skew with the clock advancing (own shards)
    hs += [gen_history(ctx.rng, 3, 12, skew, sweep=False, stream=True) for _ in range(ctx.n(1, 8))]
    run_histories(ctx, res, hs, 'gen')


def search(ctx, res):
    """the proof or the tie broke: look harder for a concrete failing input (spec oracle vs implementation)"""
    nh, na, npr = budget(ctx)
    hs = [gen_history(ctx.rng, na, npr * 2, 300, sweep=(i % 3 == 0), stream=(i % 5 == 1), set_cmd=(i % 4 == 3),
                      slave=(i % 10 == 2))
          for i in range(nh * (2 if ctx.tier == 'quick' else 1))]
    run_histories(ctx, res, hs, 'search')


LEVEL_TEXT = (
    'Coq theorems over a Gallina model of the authentication decision logic: parse_auth_header as the code\'s exact decision '
    'sequence (Bearer regular expression, unverified decode, iss, ori, iat skew only with a real clock, usr, hash lookup, '
    'verified decode restricted to HS256 incl. PyJWT\'s registered-claim checks), APIHandler.prepare, the password state '
    'machine (set / save / load / reset / restart) and the device document. Proved for all headers, clocks, states and '
    'histories: a grant implies well-formed + HS256 + iss + ori + usr + skew + signature = mac(current hash of that user) '
    'at that user\'s level (soundness, no premise); tokens characterised as make_auth_header output verify (completeness, '
    'consumer and device origin); the hash in force equals sha256hex of the last password set, across save/restart/PUT/'
    'factory reset; the device document depends on the hashes only through the set/empty bit. The model is compared on every '
    'run with the real functions and the real tornado handler on ~300 single-field token mutations per history, and the real '
    'implementation with the declarative Coq oracle.'
)
LEVEL_NOTE = (
    'Partial by construction: HMAC-SHA256 and SHA-256 are uninterpreted (unforgeability is cryptography, not proved); '
    'PyJWT\'s token parsing is a Section variable and its verified-decode decisions are modelled after the installed '
    'version; both, tornado and Python re are connected to the model only by the correspondence run. Trusted: Coq kernel '
    'incl. vm_compute; the harness (frozen clock, token builder, independent parser, hashlib/hmac truth tables). Password '
    'history theorems assume sha256hex never returns the empty string. No axioms.'
)
TECHNIQUE = 'Coq proof (case analysis over the decision sequence, induction over histories) + vm_compute correspondence with the real handler'
