"""C20 — backup then restore reproduces the same configuration.

Theorems: coq/theories/Props/C20.v (for all configurations and all documents).
Tie: (C) pairs of random configurations built through the REAL API functions in a worker process
(harness/props/c20_worker.py: post_ports / patch_port / patch_port_value / delete_port / patch_device / put_slave_devices /
post_peripherals), GET documents of the first, the hub torn down and rebuilt into the second configuration, the documents
PUT (device, peripherals, devices, ports), GET again after the hub has settled.  The observations are compared
(a) with the specification oracle (documents equal apart from the volatile fields; a rejection names the entry; polling and
event delivery enabled afterwards) -> violations, with the pair as replay, and (b) with the Coq model by vm_compute
(error, flags, documents afterwards) -> tie.  Malformed documents exercise the rejection paths.
"""
import glob
import json
import os
import subprocess
import sys
import time as _time
from concurrent.futures import ThreadPoolExecutor

from harness.common import coq
from harness.translate import backupendpoints, restoreshape

ID = 'C20'
PROPS = 'theories/Props/C20.v'
MODEL_TARGETS = ['theories/C20/Run.vo']
TRANSLATORS = [restoreshape.translate, backupendpoints.translate]
TIE = ('correspondence by vm_compute on generated pairs of configurations (error, flags and the GET documents after the '
       'restore, for /ports, /device, /devices, /peripherals)')
ALLOWED_AXIOMS = []
TRUSTED_BASE = [
    'correspondence harness harness/props/c20.py + c20_worker.py: configurations are built through the real API functions with '
    'an admin-level request stand-in; non-virtual ports are harness subclasses of core.ports.Port (boolean / number / read-only '
    'number / a driver with additional attributes) and the ports of tests.qtoggleserver.mock.peripherals.MockPeripheral; the '
    'hub is torn down between configurations inside one process and checked empty; "after the restore" means after '
    'main.update() has been run until no value changes (what the polling loop does)',
    'in-memory subclass of drivers/persist/json.py:JSONDriver with is_samples_supported() = True (so that the history '
    'attributes exist)',
    'the expression parser/printer and the evaluation of transforms are not modelled: the model takes them from tables filled '
    'by the real parser and by the transform evaluations the real code performed (C02/C03 are about them)',
    'modelled, not verified: jsonschema (type / maxLength / minimum / maximum / enum / required / pattern of ids), dict order, '
    'asyncio task order inside set_port_attrs (tasks run in creation order up to their first suspension)',
]
ASSUMPTIONS = [
    'source and target hub have the same hardware: the same non-virtual ports with the same capabilities, and read-only '
    'ports read the same input',
    'slave devices: disabled entries as they are; enabled entries against SIMULATED devices (Slave.api_call answers GET /device / '
    'GET /ports from a table keyed by host, other hosts refuse the connection; the listen and poll loops are idled, so a live '
    'device stays online: false; PUT /devices does not wait for devices to come online); online and last_sync are not compared; '
    'renamed devices, provisioning of live devices and slave ports are outside the model',
    'numbers in documents are multiples of 1/4; non-ASCII strings stay below the length limits in bytes',
    'a malformed document has one defect per entry (jsonschema chooses among several errors by a heuristic that is not modelled)',
    'the value of a port is compared only when it has no expression and its transforms are inverse to each other at that value '
    '(otherwise no write reproduces it); pending_value, uptime, date, cpu/mem usage and the password indicators are volatile',
    'no write is pending and no sequence runs on the source when the backup is taken',
    'acceptance theorems: the source hub passes the boolean test `acceptable r E s1 s2` for some rank function r (attribute '
    'values in their domains, self-referring transforms, valid virtual port definitions, references go down in rank, virtual port '
    'count within the target\'s limit, backup support on); slave entries are not both polling and listening (NOT guaranteed by the '
    'unrepaired patch_slave_device: fixes/C20-slave-listening-and-polling.diff)',
]

WORKERS = 4
MOCK_DRIVER = 'tests.qtoggleserver.mock.peripherals.MockPeripheral'
EMPTY_HASH = 'e3b0c44298fc1c149afbf4c8996fb92427ae41e4649b934ca495991b7852b855'
SOME_HASH = '5e884898da28047151d0e56f8dc6292773603d0d6aabbdd62a11ef721d1542d8'
STD_MODIFIABLE = ['display_name', 'unit', 'enabled', 'tag', 'expression', 'transform_read', 'transform_write', 'persisted',
                  'internal', 'history_interval', 'history_retention']
DEF_KEYS = ['type', 'min', 'max', 'integer', 'step', 'choices']
CUSTOM_KINDS = '[(%s, KInt 0 100 (Some 5)); (%s, KEnum [%s; %s])]'
DEVICE_VOLATILE = {'virtual_ports', 'uptime', 'date', 'cpu_usage', 'mem_usage', 'storage_usage', 'temperature', 'battery_level',
                   'admin_password', 'normal_password', 'viewonly_password'}
STRINGS = ['', 'x', 'Lamp 1', 'say "hi"', 'back\\slash', 'café °C', 'Жук', 'a\'b', 'tab\there', '{"k": [1]}', 'q' * 16,
           '€5', 'line\\nfeed', '%s %d']


# ----------------------------------------------------------------------------------------------------------------
# running the implementation

def run_worker(ctx, jobs, tag):
    """-> list of results (same order); jobs are split over at most WORKERS processes"""
    if not jobs:
        return []
    n = min(WORKERS, max(1, len(jobs) // 8)) if len(jobs) >= 16 else 1
    chunks = [jobs[i::n] for i in range(n)]
    env = dict(os.environ)
    env.setdefault('PYTHONHASHSEED', '0')

    def one(k):
        inp = os.path.join(ctx.workdir, '%s_in%d.json' % (tag, k))
        outp = os.path.join(ctx.workdir, '%s_out%d.json' % (tag, k))
        with open(inp, 'w') as f:
            json.dump({'jobs': chunks[k]}, f)
        p = subprocess.run(['timeout', '1500', sys.executable, '-m', 'harness.props.c20_worker', inp, outp],
                           cwd=coq.VERIF, env=env, capture_output=True, text=True)
        if p.returncode != 0 or not os.path.exists(outp):
            return [{'error': 'worker failed rc=%s: %s' % (p.returncode, (p.stderr or '')[-800:])}] * len(chunks[k])
        with open(outp) as f:
            return json.load(f)['results']

    with ThreadPoolExecutor(max_workers=n) as ex:
        outs = list(ex.map(one, range(n)))
    results = [None] * len(jobs)
    for k in range(n):
        for j, r in enumerate(outs[k]):
            results[k + j * n] = r
    return results


# ----------------------------------------------------------------------------------------------------------------
# generation

# simulated slave devices (what GET /device answers at that host); every other host refuses the connection
SIM = {
    'relay.local': {'name': 'relay', 'display_name': 'Relay', 'version': '1.0', 'api_version': '1.1', 'vendor': 'acme',
                    'flags': ['expressions', 'listen', 'webhooks']},
    'meter.local': {'name': 'meter', 'display_name': 'Meter "1"', 'version': '1.0', 'api_version': '1.1', 'vendor': 'acme',
                    'flags': ['expressions', 'webhooks']},
    'sensor.local': {'name': 'sensor', 'display_name': 'Battery sensor', 'version': '1.0', 'api_version': '1.1', 'vendor': 'acme',
                     'flags': ['expressions', 'listen', 'webhooks']},
    'plain.local': {'name': 'plain', 'display_name': '', 'version': '0.9', 'api_version': '1.0', 'vendor': 'acme',
                    'flags': ['expressions']},
}


def live_slave(rng, host, mode=None):
    """an entry for an enabled, reachable device in one of the three sync modes: listening (needs the flag) / polled / neither"""
    dev = SIM[host]
    modes = ['polled', 'neither'] + (['listening'] if 'listen' in dev['flags'] else [])
    mode = mode if mode in modes else rng.choice(modes)
    poll = rng.choice([10, 30, 60]) if mode == 'polled' else 0
    e = {'enabled': True, 'name': dev['name'], 'scheme': 'http', 'host': host, 'port': 80, 'path': '/',
         'admin_password_hash': rng.choice([EMPTY_HASH, SOME_HASH]), 'poll_interval': poll, 'listen_enabled': mode == 'listening',
         'last_sync': -1, 'online': False, 'provisioning': [], 'attrs': dict(dev)}
    if mode == 'polled' and rng.random() < 0.3:
        del e['listen_enabled']          # as `POST /devices {poll_interval: 30}` leaves it: not stated
    return e


def rstr(rng, maxlen=20):
    s = rng.choice(STRINGS) if rng.random() < 0.8 else ''.join(rng.choice('abc "\\é_-.') for _ in range(rng.randint(0, 10)))
    while len(s.encode('utf-8')) > maxlen:
        s = s[:-1]
    return s


def gen_definition(rng, pid):
    r = rng.random()
    d = {'id': pid}
    if r < 0.25:
        d['type'] = 'boolean'
    elif r < 0.45:
        d['type'] = 'number'
    elif r < 0.65:
        lo = rng.choice([-10, 0, 0, 1, 2.5])
        d.update(type='number', min=lo, max=lo + rng.choice([1, 10, 100, 7.5]))
    elif r < 0.85:
        lo = rng.choice([0, 0, -20, 5])
        step = rng.choice([1, 2, 5, 10])
        d.update(type='number', min=lo, max=lo + step * rng.randint(1, 20), integer=True, step=step)
        if rng.random() < 0.3:
            d.pop('step')
    else:
        vals = rng.sample([0, 1, 2, 2.5, 5, 10, -1, 100], rng.randint(2, 4))
        d.update(type='number', choices=[dict(value=v, **({'display_name': rstr(rng, 30)} if rng.random() < 0.7 else {})) for v in vals])
        if rng.random() < 0.15:
            d.update(type='boolean', choices=[{'value': True, 'display_name': 'On "1"'}, {'value': False, 'display_name': 'Off\\0'}])
    return d


def gen_value(rng, d):
    if d['type'] == 'boolean':
        return rng.choice([True, False])
    if 'choices' in d:
        return rng.choice(d['choices'])['value']
    lo, hi = d.get('min'), d.get('max')
    if d.get('integer'):
        step = d.get('step') or 1
        lo = 0 if lo is None else lo
        k = rng.randint(0, int(((hi if hi is not None else lo + 50) - lo) // step))
        return lo + k * step
    if lo is not None:
        return lo + rng.choice([0, 0.25, 0.5, 1] if hi is None or hi - lo >= 1 else [0])
    return rng.choice([0, 1, -3, 2.5, 7.75, 40, 1000])


TRANSFORMS_NUM = [('', ''), ('', ''), ('MUL($, 2)', 'DIV($, 2)'), ('ADD($, 1)', 'SUB($, 1)'), ('SUB($, 4)', 'ADD($, 4)'),
                  ('MUL($, 2)', ''), ('', 'ADD($, 3)'), ('  MUL( $ ,4 )', 'DIV($,4)')]
TRANSFORMS_BOOL = [('', ''), ('', ''), ('NOT($)', 'NOT($)'), ('NOT($)', '')]


def gen_expression(rng, ids, boolean, canonical):
    """canonical = exactly as the printer writes it.  (While a port is disabled GET shows the text as it was typed - the
    attribute cache is only dropped by the polling pass of an enabled port - so a typed form is only used on ports that stay
    enabled; see notes/C20.md)"""
    a = rng.choice(ids)
    b = rng.choice(ids)
    if boolean:
        forms = ['$%s' % a, 'NOT($%s)' % a, 'AND($%s, $%s)' % (a, b), 'GT($%s, 5)' % a, 'OR($%s, NOT($%s))' % (a, b)]
        typed = ['OR($%s,NOT($%s))' % (a, b), ' $%s ' % a]
    else:
        forms = ['$%s' % a, 'ADD($%s, 1)' % a, 'MUL($%s, $%s)' % (a, b), 'IF($%s, 10, 20)' % a, 'SUB($%s, $%s)' % (a, b),
                 'MIN($%s, $%s, 100)' % (a, b)]
        typed = ['SUB( $%s ,$%s)' % (a, b), 'ADD($%s,1)' % a]
    return rng.choice(forms if canonical or rng.random() < 0.7 else typed)


def gen_config(rng, hardware, vpool, slave_pool, periph_pool, rich=True):
    """a list of API operations that builds one configuration"""
    ops = []
    hw_ids = [h['id'] for h in hardware]
    vids = rng.sample(vpool, rng.randint(0, min(len(vpool), 6 if rich else 3)))
    defs = {}
    # slaves first (their names matter for port ids), as disabled devices
    slaves = []
    for name in rng.sample(slave_pool, rng.choice([0, 0, 1, 1, 2])):
        poll = rng.choice([0, 0, 10, 30])
        slaves.append({'enabled': False, 'name': name, 'scheme': rng.choice(['http', 'https']),
                       'host': '10.0.0.%d' % rng.randint(1, 9) if rng.random() < 0.7 else name + '.local',
                       'port': rng.choice([80, 443, 8080]), 'path': rng.choice(['/', '/api', '']),
                       'admin_password_hash': rng.choice([EMPTY_HASH, SOME_HASH]),
                       'poll_interval': poll, 'listen_enabled': (poll == 0 and rng.random() < 0.6),
                       'last_sync': rng.choice([-1, 1700000000]), 'online': False,
                       'provisioning': rng.sample(['display_name', 'name', 'webhooks'], rng.randint(0, 2)),
                       'attrs': {'name': name, 'display_name': rstr(rng), 'flags': ['listen', 'expressions'], 'version': '1.2'}})
    if slaves and rng.random() < 0.25:
        # a device that was unreachable when it was added is kept disabled without cached attributes
        sl = rng.choice(slaves)
        sl.update(attrs={}, listen_enabled=False)
    for host in rng.sample(sorted(SIM), rng.choice([0, 0, 1, 2, 3])):
        slaves.append(live_slave(rng, host))
    rng.shuffle(slaves)
    # endpoints must be unique
    seen = set()
    slaves = [s for s in slaves if (s['scheme'], s['host'], s['port'], s['path']) not in seen
              and not seen.add((s['scheme'], s['host'], s['port'], s['path']))]
    if slaves:
        ops.append(['put_slaves', slaves])
        # later changes of one property at a time (PATCH /devices/<name>), as a user would make them
        for sl in slaves:
            if rng.random() < 0.35:
                for k in rng.sample(['poll_interval', 'listen_enabled'], rng.randint(1, 2)):
                    v = rng.choice([0, 10, 60]) if k == 'poll_interval' else (rng.random() < 0.7 and 'listen' in sl['attrs'].get('flags', []))
                    ops.append(['patch_slave', sl['name'], {k: v}])
    for name in rng.sample(periph_pool, rng.choice([0, 0, 1, 2])):
        par = {'driver': MOCK_DRIVER, 'dummy_param': rstr(rng)}
        if name is not None:
            par['name'] = name
        ops.append(['post_peripheral', par])
    periph_ports = [n + '.' + i for op in ops if op[0] == 'post_peripheral' and op[1].get('name') for n in [op[1]['name']] for i in ('id1', 'id2')]
    for pid in vids:
        d = gen_definition(rng, pid)
        defs[pid] = d
        ops.append(['post_port', d])
    all_ids = hw_ids + vids
    attr_ops = []
    for pid in all_ids + periph_ports:
        hw = next((h for h in hardware if h['id'] == pid), None)
        if pid in periph_ports:
            d = {'type': 'boolean'}
            writable = False
        elif hw:
            d = {'type': 'boolean' if hw['kind'] == 'bool_rw' else 'number'}
            writable = hw['kind'] != 'num_ro'
        else:
            d = defs[pid]
            writable = True
        boolean = d['type'] == 'boolean'
        disable = rng.random() < 0.15 and pid not in periph_ports
        attrs = {}
        if rng.random() < 0.6:
            attrs['display_name'] = rstr(rng, 64)
        if not boolean and rng.random() < 0.4:
            attrs['unit'] = rstr(rng, 16)
        if rng.random() < 0.4:
            attrs['tag'] = rstr(rng, 64)
        if rng.random() < 0.3:
            attrs['persisted'] = rng.random() < 0.7
        if rng.random() < 0.2:
            attrs['internal'] = rng.random() < 0.7
        if rng.random() < 0.25:
            attrs['history_interval'] = rng.choice([-1, 0, 1, 60, 3600, 2147483647])
        if rng.random() < 0.2:
            attrs['history_retention'] = rng.choice([0, 1, 86400, 2147483647])
        if pid in periph_ports and rng.random() < 0.5:
            attrs['enabled'] = True
        tw, tr = rng.choice(TRANSFORMS_BOOL if boolean else TRANSFORMS_NUM) if rng.random() < 0.45 else ('', '')
        if disable and tw.startswith(' '):
            tw, tr = 'MUL($, 4)', 'DIV($, 4)'
        if tr:
            attrs['transform_read'] = tr
        if tw and writable:
            attrs['transform_write'] = tw
        if hw and hw['kind'] == 'custom':
            if rng.random() < 0.6:
                attrs['gain'] = 5 * rng.randint(0, 20)
            if rng.random() < 0.5:
                attrs['mode'] = rng.choice(['fast', 'slow'])
        has_expr = False
        if writable and all_ids and rng.random() < (0.35 if rich else 0.2):
            pool_ids = all_ids + (['ghost'] if rng.random() < 0.1 else [])
            attrs['expression'] = gen_expression(rng, pool_ids, boolean, canonical=disable)
            has_expr = True
        if attrs:
            attr_ops.append(['patch_port', pid, attrs])
        if writable and not has_expr and rng.random() < 0.75 and pid not in periph_ports:
            attr_ops.append(['patch_value', pid, gen_value(rng, d) if not hw else (rng.choice([True, False]) if boolean else rng.choice([0, 1, 3, 12.5, -7]))])
        if disable:
            attr_ops.append(['patch_port', pid, {'enabled': False}])
    rng.shuffle(attr_ops)
    # keep each port's operations in their relative order of creation (value after transforms is fine either way)
    ops += attr_ops
    if vids and rng.random() < 0.1:
        ops.append(['delete_port', rng.choice(vids)])
    dev = {}
    if rng.random() < 0.7:
        dev['name'] = rng.choice(['hub1', 'Living_Room-2', '_x', 'q' * 32])
    if rng.random() < 0.6:
        dev['display_name'] = rstr(rng, 64)
    for w in ('admin', 'normal', 'viewonly'):
        if rng.random() < 0.3:
            dev[w + '_password'] = rng.choice(['', 'secret', 'p"w\\d'])
    if dev:
        ops.append(['patch_device', dev])
    return ops


MUTATIONS = ['missing_id', 'null_id', 'numeric_id', 'unknown_port', 'bad_type', 'missing_type', 'few_choices', 'bad_min',
             'long_tag', 'wrong_type_attr', 'bad_history', 'bad_expression', 'external_transform', 'duplicate_entry',
             'not_an_object', 'bad_gain', 'bad_mode', 'bad_id_pattern', 'provisioning_key', 'bad_device_name', 'bad_slave',
             'bad_driver', 'self_loop']


def gen_mutation(rng, kind, idx):
    """-> list of [document name, mutation]"""
    new_v = {'id': 'newv', 'type': 'number', 'virtual': True, 'tag': 'extra'}
    if kind == 'missing_id':
        return [['ports', ['del', idx, 'id']]]
    if kind == 'null_id':
        return [['ports', ['set', idx, 'id', None]]]
    if kind == 'numeric_id':
        return [['ports', ['append', {'id': 5, 'type': 'number', 'virtual': rng.random() < 0.7}]]]
    if kind == 'unknown_port':
        return [['ports', ['insert', idx, {'id': 'no_such_hw', 'type': 'number', 'tag': 'x', 'value': 3}]]]
    if kind == 'bad_type':
        return [['ports', ['insert', idx, dict(new_v, type=rng.choice(['string', 5, None]))]]]
    if kind == 'missing_type':
        return [['ports', ['insert', idx, {'id': 'newv', 'virtual': True}]]]
    if kind == 'few_choices':
        return [['ports', ['insert', idx, dict(new_v, choices=rng.choice([[{'value': 1}], 'abc', []]))]]]
    if kind == 'bad_min':
        return [['ports', ['insert', idx, dict(new_v, **{rng.choice(['min', 'max', 'step']): rng.choice(['1', True, None])})]]]
    if kind == 'long_tag':
        return [['ports', ['set', idx, rng.choice(['tag', 'display_name']), 'x' * 65]]]
    if kind == 'wrong_type_attr':
        return [['ports', ['set', idx, rng.choice(['tag', 'persisted', 'enabled', 'internal', 'display_name']), rng.choice([5, None, [1]])]]]
    if kind == 'bad_history':
        return [['ports', ['set', idx, 'history_interval', rng.choice([-2, 2147483648, 1.5, '60'])]]]
    if kind == 'bad_expression':
        return [['ports', ['set', idx, 'expression', rng.choice(['ADD($a', 'NOSUCH(1)', '$a b', 'ADD(1)'])]]]
    if kind == 'external_transform':
        return [['ports', ['set', idx, rng.choice(['transform_read', 'transform_write']), 'ADD($, $other)']]]
    if kind == 'duplicate_entry':
        return [['ports', ['append', dict(new_v, id='dup1')]], ['ports', ['append', dict(new_v, id='dup1', tag='second')]]]
    if kind == 'not_an_object':
        return [['ports', ['append', rng.choice([5, 'x', None, [1]])]]]
    if kind == 'bad_gain':
        return [['ports', ['set', idx, 'gain', rng.choice([7, 105, -5, '10', 2.5])]]]
    if kind == 'bad_mode':
        return [['ports', ['set', idx, 'mode', rng.choice(['medium', 5])]]]
    if kind == 'bad_id_pattern':
        return [['ports', ['insert', idx, dict(new_v, id=rng.choice(['1abc', 'a b', '', 'x' * 65, 'é']))]]]
    if kind == 'provisioning_key':
        return [['ports', ['insert', idx, dict(new_v, provisioning=[])]]]
    if kind == 'self_loop':
        return [['ports', ['append', dict(new_v, id='zloop1', expression='$zloop2')]],
                ['ports', ['append', dict(new_v, id='zloop2', expression='ADD($zloop1, 1)')]]]
    if kind == 'bad_device_name':
        return [['device', ['set', 0, rng.choice(['name', 'display_name']), rng.choice(['', '1x', 'x' * 70, 5])]]]
    if kind == 'bad_slave':
        k = rng.choice(['scheme', 'port', 'host', 'dup', 'nopass', 'both', 'hash63', 'path'])
        base = {'enabled': False, 'name': 'zz', 'scheme': 'http', 'host': 'h', 'port': 80, 'path': '/', 'admin_password_hash': EMPTY_HASH,
                'poll_interval': 0, 'listen_enabled': False, 'attrs': {'name': 'zz', 'flags': []}}
        if k == 'scheme':
            base['scheme'] = 'ftp'
        elif k == 'port':
            base['port'] = '80'
        elif k == 'host':
            del base['host']
        elif k == 'hash63':
            base['admin_password_hash'] = 'b' * 63
        elif k == 'path':
            del base['path']
        elif k == 'nopass':
            del base['admin_password_hash']
        elif k == 'both':
            base.update(poll_interval=10, listen_enabled=True)
        muts = [['devices', ['insert', idx, base] if rng.random() < 0.6 else ['append', base]]]
        if k == 'dup':
            muts.append(['devices', ['append', dict(base, name='zz2')]])
        return muts
    if kind == 'bad_driver':
        # an entry whose driver cannot be loaded, at position k >= 1 (gen_job makes sure the backup has a peripheral before it)
        return [['peripherals', ['insert', max(1, idx), {'driver': rng.choice(['no.such.Driver', 'tests.qtoggleserver.mock.peripherals.Nope']),
                                                          'name': 'zzp', 'dummy_param': 'x'}]]]
    raise ValueError(kind)


def gen_job(rng):
    kinds = ['bool_rw', 'num_rw', 'num_rw', 'num_ro', 'custom']
    hardware = []
    for i in range(rng.choice([0, 1, 2, 2, 3, 4])):
        k = rng.choice(kinds)
        inp = None if rng.random() < 0.1 else (rng.choice([True, False]) if k == 'bool_rw' else rng.choice([0, 1, 5, 12.5, 42]))
        hardware.append({'id': 'hw%d' % (i + 1), 'kind': k, 'input': inp})
    slave_pool = ['s1', 'garage', 'va']
    vpool = ['va', 'vb', 'vc', 'A_1.x-y', 'zz9', 'm', 's1.x', 'garage.door', 'hw9']
    periph_pool = ['pa', 'pb', None]
    rich = rng.random() < 0.7
    job = {'hardware': hardware, 'sim': SIM,
           'source': gen_config(rng, hardware, vpool, slave_pool, periph_pool, rich),
           'target': gen_config(rng, hardware, vpool, slave_pool, periph_pool, rng.random() < 0.5),
           'mutate': None}
    # the peripherals are hardware too: the same on both hubs unless the peripherals document is restored first (it is)
    if rng.random() < 0.08:
        job['target'].insert(0, ['set_setting', 'virtual_ports', rng.choice([0, 1, 2, 3])])
    # the target may be playing a sequence on a writable hardware port when the restore arrives (the restore sets every
    # expression, which cancels it); only on ports the target leaves enabled and without expression, and only when the whole
    # document is going to be restored (a restore rejected before that port's entry rightly leaves the sequence playing, and the
    # model has no sequences)
    # a piece of hardware whose read fails at the moment PUT /ports runs (the restore re-reads every remaining port): whatever
    # the driver raises, it must not make the restore of a valid backup fail, and the switches come back on
    if hardware and rng.random() < 0.15:
        rng.choice(hardware)['fault'] = rng.choice(['OSError', 'OSError', 'RuntimeError', 'PortReadError', 'SkipRead', 'TimeoutError'])
    limited = any(op[0] == 'set_setting' for op in job['target'])
    for h in hardware:
        if h['kind'] in ('bool_rw', 'num_rw', 'custom') and rng.random() < 0.2 and not limited:
            touched = [op for op in job['target'] if op[0] == 'patch_port' and op[1] == h['id'] and ('expression' in op[2] or op[2].get('enabled') is False)]
            if not touched:
                vals = [True, False] if h['kind'] == 'bool_rw' else [1, 3]
                job['target'].append(['patch_sequence', h['id'], {'values': vals, 'delays': [25, 25], 'repeat': 1000}])
                job['linger_ms'] = 90
    if rng.random() < 0.35:
        kind = rng.choice(MUTATIONS)
        job['mutate'] = gen_mutation(rng, kind, rng.randint(0, 5))
        job['mutation_kind'] = kind
        job['target'] = [op for op in job['target'] if op[0] != 'patch_sequence']
        job.pop('linger_ms', None)
        if kind == 'bad_driver' and not any(op[0] == 'post_peripheral' for op in job['source']):
            job['source'].insert(0, ['post_peripheral', {'driver': MOCK_DRIVER, 'dummy_param': 'first', 'name': 'pa'}])
    return job


def _slave(name, host, **kw):
    e = {'enabled': False, 'name': name, 'scheme': 'http', 'host': host, 'port': 80, 'path': '/', 'admin_password_hash': EMPTY_HASH,
         'poll_interval': 0, 'listen_enabled': False, 'last_sync': -1, 'online': False, 'provisioning': [],
         'attrs': {'name': name, 'flags': ['listen']}}
    e.update(kw)
    return e


# one defect of a /devices entry: (label, alteration of the entry); the first group fails the per-entry schema, the second group
# passes it and fails later (while the device is added)
SLAVE_DEFECTS = [
    ('scheme ftp', lambda e: e.update(scheme='ftp')), ('scheme not a string', lambda e: e.update(scheme=5)),
    ('host missing', lambda e: e.pop('host')), ('port missing', lambda e: e.pop('port')), ('path missing', lambda e: e.pop('path')),
    ('scheme missing', lambda e: e.pop('scheme')), ('host not a string', lambda e: e.update(host=7)),
    ('port a string', lambda e: e.update(port='80')), ('port not integral', lambda e: e.update(port=80.5)),
    ('path null', lambda e: e.update(path=None)), ('hash of 63 characters', lambda e: e.update(admin_password_hash='a' * 63)),
    ('hash not a string', lambda e: e.update(admin_password_hash=5)), ('password of 33 characters', lambda e: e.update(admin_password='p' * 33)),
    ('poll_interval a string', lambda e: e.update(poll_interval='10')), ('listen_enabled a number', lambda e: e.update(listen_enabled=1)),
    ('polling and listening', lambda e: e.update(poll_interval=10, listen_enabled=True)),
    ('no password', lambda e: e.pop('admin_password_hash')),
    ('same endpoint as entry 0 or 1', None),
    ('listening asked of a disabled device without the listen flag', lambda e: e.update(listen_enabled=True, poll_interval=0, attrs={'name': e['name'], 'flags': ['expressions']})),
    # accepted, with the entry added as a disabled device: an enabled entry whose device does not answer / cannot listen
    ('enabled, device unreachable', lambda e: e.update(enabled=True, host='ghost.local')),
    ('enabled, listening asked of a device without the listen flag', lambda e: e.update(enabled=True, name='meter', host='meter.local', listen_enabled=True, poll_interval=0)),
    # accepted as live devices
    ('enabled and reachable, sync method unspecified (device can listen)', lambda e: (e.update(enabled=True, name='relay', host='relay.local', poll_interval=0), e.pop('listen_enabled'))),
    ('enabled and reachable, sync method unspecified (device cannot listen)', lambda e: (e.update(enabled=True, name='plain', host='plain.local', poll_interval=0), e.pop('listen_enabled'))),
    ('enabled and reachable, neither polling nor listening', lambda e: e.update(enabled=True, name='sensor', host='sensor.local', poll_interval=0, listen_enabled=False)),
]


def rejection_stream():
    """every run: /devices documents of three entries with one defect at each position; /peripherals documents with an entry whose
    driver cannot be loaded / is not a string / whose name is not an identifier at each position; /device documents with one bad
    attribute.  Only that document is restored (no ports involved: cheap); the switches are observed after the answer."""
    jobs = []
    base = [_slave('sa', '10.0.0.1'), _slave('sb', '10.0.0.2', poll_interval=30), _slave('sc', 'sc.local', scheme='https', port=443)]
    target = [['put_slaves', [_slave('told', '10.9.9.9')]]]
    for label, alter in SLAVE_DEFECTS:
        for pos in range(3):
            doc = json.loads(json.dumps(base))
            if alter is None:
                other = doc[0 if pos else 1]
                doc[pos].update(scheme=other['scheme'], host=other['host'], port=other['port'], path=other['path'])
            else:
                alter(doc[pos])
            job = {'hardware': [], 'sim': SIM, 'source': [], 'target': target, 'restore': ['devices'],
                   'mutate': [['devices', ['replace', doc]]], 'mutation_kind': 'devices: %s' % label, 'stream': 'rejection'}
            if label.startswith('enabled,'):          # the device does not answer / cannot listen: kept, as a disabled device
                job['expect'] = {'devices': {'put': 'ok', 'devices_after': {doc[pos]['name']: False}}}
            elif label.startswith('enabled and reachable'):
                job['expect'] = {'devices': {'put': 'ok', 'devices_after': {doc[pos]['name']: True}}}
            jobs.append(job)
    pbase = [{'driver': MOCK_DRIVER, 'dummy_param': 'a', 'name': 'pa'}, {'driver': MOCK_DRIVER, 'dummy_param': 'b', 'name': 'pb'},
             {'driver': MOCK_DRIVER, 'dummy_param': 'c', 'name': 'pc'}]
    ptarget = [['post_peripheral', {'driver': MOCK_DRIVER, 'dummy_param': 't', 'name': 'pt'}]]
    for label, alter in [('driver cannot be loaded', lambda e: e.update(driver='no.such.Driver')),
                         ('driver not a string', lambda e: e.update(driver=5)), ('driver missing', lambda e: e.pop('driver')),
                         ('name not an identifier', lambda e: e.update(name='1 x'))]:
        for pos in range(3):
            doc = json.loads(json.dumps(pbase))
            alter(doc[pos])
            jobs.append({'hardware': [], 'source': [], 'target': ptarget, 'restore': ['peripherals'],
                         'mutate': [['peripherals', ['replace', doc]]], 'mutation_kind': 'peripherals: %s' % label, 'stream': 'rejection'})
    for key, val in [('name', ''), ('name', '1x'), ('name', 'x' * 33), ('name', 5), ('display_name', 'x' * 65), ('display_name', None)]:
        jobs.append({'hardware': [], 'source': [['patch_device', {'name': 'src'}]], 'target': [['patch_device', {'name': 'tgt', 'admin_password': 'pw'}]],
                     'restore': ['device'], 'mutate': [['device', ['set', 0, key, val]]], 'mutation_kind': 'device: bad %s' % key,
                     'stream': 'rejection'})
    return jobs


# ----------------------------------------------------------------------------------------------------------------
# canonical form, python oracle

def canon(x):
    """numbers: integral floats -> int (35 and 35.0 are the same JSON number for this property)"""
    if isinstance(x, bool) or x is None:
        return x
    if isinstance(x, float) and x.is_integer():
        return int(x)
    if isinstance(x, list):
        return [canon(y) for y in x]
    if isinstance(x, dict):
        return {k: canon(v) for k, v in x.items()}
    return x


def by_id(doc):
    out = {}
    for e in doc if isinstance(doc, list) else []:
        if isinstance(e, dict) and isinstance(e.get('id'), str):
            out.setdefault(e['id'], e)
    return out


def written_back(res, e):
    """transform_read(transform_write(v)) as the real code evaluated it during the restore; the value itself without transforms"""
    v = canon(e.get('value'))
    tw, tr = e.get('transform_write') or '', e.get('transform_read') or ''
    raw = v
    log = [[t[0], t[1], t[2], canon(t[3]), canon(t[4])] for t in res.get('transforms', [])]
    if tw:
        hit = [t for t in log if t[0] == e['id'] and t[2] == 'w' and t[3] == v]
        if not hit:
            return ('unknown',)
        raw = hit[0][4]
    out = raw
    if tr:
        hit = [t for t in log if t[0] == e['id'] and t[2] == 'r' and t[3] == raw]
        if not hit:
            return ('unknown',)
        out = hit[0][4]
    return out


def port_differences(res, src, after):
    """keys under which the two documents differ, per port id (volatile keys excluded)"""
    diffs = {}
    s, a = by_id(canon(src)), by_id(canon(after))
    for pid in sorted(set(s) | set(a)):
        if pid not in s or pid not in a:
            diffs[pid] = ['(port %s)' % ('missing after the restore' if pid in s else 'not in the backup')]
            continue
        d = []
        for k in sorted(set(s[pid]) | set(a[pid])):
            if k == 'pending_value':
                continue
            if k == 'value':
                if s[pid].get('expression'):
                    continue
                if written_back(res, s[pid]) != s[pid].get('value'):
                    continue
            if s[pid].get(k) != a[pid].get(k) or (k in s[pid]) != (k in a[pid]):
                d.append(k)
        if d:
            diffs[pid] = d
    return diffs


def oracle(job, res):
    """-> list of (key dict, text) for everything that contradicts the specification"""
    out = []
    mutated = {name for name, _m in (job.get('mutate') or [])}
    put, flags = res['put'], res['flags']
    for name in put:
        beh = res.get('behaviour', {}).get(name, [True, True])
        if flags[name] == [True, True] and beh != [True, True]:
            out.append(({'document': name, 'aspect': 'flags', 'flags': 'observed: polling pass ran=%s event delivered=%s' % tuple(beh)},
                        'after PUT /%s (%s) the switches read on, but a polling pass ran = %s and a triggered event was delivered = %s' % (
                            name, put[name][0], beh[0], beh[1])))
        if flags[name] != [True, True]:
            out.append(({'document': name, 'aspect': 'flags', 'flags': 'updating=%s events=%s' % tuple(flags[name])},
                        'after PUT /%s (%s: %s) polling enabled = %s, event delivery enabled = %s (observed: a polling pass ran = %s, a '
                        'triggered event reached a handler = %s)' % (name, put[name][0], json.dumps(put[name][1:])[:160], flags[name][0],
                                                                     flags[name][1], beh[0], beh[1])))
    # what a job states about its own outcome (stream jobs whose document is altered but must be accepted)
    for name, want in (job.get('expect') or {}).items():
        if name in put and want.get('put') == 'ok' and put[name][0] != 'ok':
            out.append(({'document': name, 'aspect': 'acceptable-document-rejected', 'class': job.get('mutation_kind')},
                        'PUT /%s must accept this document (%s) but answered %s' % (name, job.get('mutation_kind'), json.dumps(put[name][1:])[:200])))
        for nm, en in (want.get('devices_after') or {}).items():
            got = [d for d in res['after'].get('devices', []) if isinstance(d, dict) and d.get('name') == nm]
            if name in put and put[name][0] == 'ok' and (len(got) != 1 or got[0].get('enabled') is not en):
                out.append(({'document': name, 'aspect': 'device-not-kept', 'class': job.get('mutation_kind')},
                            'after PUT /%s device %s must be there with enabled=%s; got %s' % (name, nm, en, [(d.get('name'), d.get('enabled')) for d in got])))
    # an entry that carries `provisioning` belongs to a slave: it must never come back as a local (virtual) port
    if 'ports' in put and isinstance(res['sent'].get('ports'), list):
        before_ids = {e.get('id') for e in res['mid']['ports'] if isinstance(e, dict)}
        after_by_id = by_id(res['after']['ports'])
        for e in res['sent']['ports']:
            if isinstance(e, dict) and 'provisioning' in e and isinstance(e.get('id'), str) and e['id'] not in before_ids \
                    and e['id'] in after_by_id and 'provisioning' not in after_by_id[e['id']]:
                out.append(({'document': 'ports', 'aspect': 'slave-port-made-local'},
                            'the entry %s carries `provisioning` (a slave\'s port) and the hub has no such port, yet after PUT /ports '
                            'there is a local port %s' % (e['id'], e['id'])))
    # ports
    if 'ports' in put:
        o = put['ports']
        sent = res['sent']['ports']
        if o[0] == 'ok':
            if 'ports' not in mutated and not (mutated & {'peripherals', 'devices'}):
                d = port_differences(res, res['src']['ports'], res['after']['ports'])
                for pid, keys in list(d.items())[:3]:
                    shape = classify_port(res, pid, keys)
                    out.append(({'document': 'ports', 'aspect': 'round-trip', 'attribute': keys[0], 'shape': shape},
                                'port %s differs after the restore under %s (%s)' % (pid, ', '.join(keys), shape)))
        else:
            ids = [json.dumps(e.get('id')) for e in sent if isinstance(e, dict)] if isinstance(sent, list) else []
            named = o[0] == 'api' and 'id' in o[3] and json.dumps(o[3]['id']) in ids
            whole = not isinstance(sent, list) or any(not isinstance(e, dict) for e in sent)
            if not named and not whole:
                out.append(({'document': 'ports', 'aspect': 'error-names-entry', 'error': o[2] if o[0] == 'api' else o[1]},
                            'PUT /ports was rejected with %s, which does not name the failing entry' % json.dumps(o[1:])))
            n_virtual = len([e for e in sent if isinstance(e, dict) and e.get('virtual')]) if isinstance(sent, list) else 0
            limit = next((op[2] for op in job['target'] if op[0] == 'set_setting' and op[1] == 'virtual_ports'), 1024)
            does_not_fit = o[0] == 'api' and o[2] == 'too-many-ports' and n_virtual > limit
            if 'ports' not in mutated and not does_not_fit:
                out.append(({'document': 'ports', 'aspect': 'valid-backup-rejected', 'error': o[2] if o[0] == 'api' else o[1],
                             'field': (o[3].get('field') if o[0] == 'api' else None)},
                            'PUT /ports rejected an unaltered backup: %s' % json.dumps(o[1:])))
    if 'devices' in put and put['devices'][0] != 'ok':
        o = put['devices']
        sent = res['sent']['devices']
        n = len(sent) if isinstance(sent, list) else 0
        idx_ = o[3].get('index') if o[0] == 'api' else None
        if not (isinstance(idx_, int) and 0 <= idx_ < n) and isinstance(sent, list) and all(isinstance(e, dict) for e in sent):
            out.append(({'document': 'devices', 'aspect': 'error-names-entry', 'error': o[2] if o[0] == 'api' else o[1]},
                        'PUT /devices was rejected with %s, which does not name the failing entry' % json.dumps(o[1:])))
    if 'device' in put:
        o = put['device']
        before, after, src = res['tgt']['device'], res['after']['device'], res['src']['device']
        for k in ('admin_password', 'normal_password', 'viewonly_password'):
            if before.get(k) != after.get(k):
                out.append(({'document': 'device', 'aspect': 'password-kept', 'attribute': k}, 'PUT /device changed %s' % k))
        if o[0] == 'ok' and 'device' not in mutated:
            keys = [k for k in sorted(set(src) | set(after)) if k not in DEVICE_VOLATILE and canon(src.get(k)) != canon(after.get(k))]
            if keys:
                out.append(({'document': 'device', 'aspect': 'round-trip', 'attribute': keys[0]}, 'device differs under %s' % ', '.join(keys)))
        elif o[0] != 'ok' and 'device' not in mutated:
            out.append(({'document': 'device', 'aspect': 'valid-backup-rejected'}, 'PUT /device rejected an unaltered backup: %s' % json.dumps(o[1:])))
    if 'peripherals' in put and put['peripherals'][0] != 'ok':
        o = put['peripherals']
        sent = res['sent']['peripherals']
        params = o[3] if o[0] == 'api' else {}
        n = len(sent) if isinstance(sent, list) else 0
        idents = [json.dumps(e.get(k)) for e in (sent if isinstance(sent, list) else []) if isinstance(e, dict) for k in ('id', 'name') if e.get(k)]
        named = (isinstance(params.get('index'), int) and 0 <= params['index'] < n) or \
            any(json.dumps(params.get(k)) in idents for k in ('id', 'name') if k in params)
        if not named:
            after_p = [e.get('id') for e in res['after']['peripherals'] if isinstance(e, dict) and not e.get('static')]
            port_ids = [e.get('id') for e in res['after']['ports'] if isinstance(e, dict)]
            bare = [p for p in after_p if isinstance(p, str) and not any(isinstance(i, str) and i.startswith(p + '.') for i in port_ids)]
            out.append(({'document': 'peripherals', 'aspect': 'error-names-entry', 'error': o[2] if o[0] == 'api' else o[1]},
                        'PUT /peripherals was rejected with %s, which does not name the failing entry; switches after it: polling %s, '
                        'events %s; peripherals left: %s, of which without ports: %s' % (
                            json.dumps(o[1:]), flags['peripherals'][0], flags['peripherals'][1], after_p, bare)))
    for name in ('devices', 'peripherals'):
        if name not in put:
            continue
        o = put[name]
        if o[0] == 'ok' and name not in mutated:
            if canon_list(res['src'][name]) != canon_list(res['after'][name]):
                out.append(({'document': name, 'aspect': 'round-trip'}, 'GET /%s differs after the restore' % name))
        elif o[0] != 'ok' and name not in mutated:
            out.append(({'document': name, 'aspect': 'valid-backup-rejected', 'error': o[2] if o[0] == 'api' else o[1]},
                        'PUT /%s rejected an unaltered backup: %s (devices left: %s)' % (
                            name, json.dumps(o[1:]), [e.get('name') for e in res['after'].get('devices', []) if isinstance(e, dict)])))
    return out


def canon_list(doc):
    def c(e):
        e = canon(e)
        if isinstance(e, dict) and 'scheme' in e:
            e = {k: v for k, v in e.items() if k not in ('online', 'last_sync')}      # a slave entry: not configuration
        if isinstance(e, dict) and isinstance(e.get('provisioning'), list):
            e = dict(e, provisioning=sorted(e['provisioning']))
        return e
    return [c(e) for e in doc] if isinstance(doc, list) else doc


def classify_port(res, pid, keys):
    slaves = [s.get('name') for s in res['after'].get('devices', []) if isinstance(s, dict)]
    if keys and keys[0].startswith('(port') and any(isinstance(n, str) and pid.startswith(n + '.') for n in slaves):
        return 'virtual port whose id starts with "<slave name>."'
    if keys and keys[0].startswith('(port'):
        return 'port set differs'
    return 'attribute'


# ----------------------------------------------------------------------------------------------------------------
# Coq literals

class Interner:
    def __init__(self):
        self.names = {}

    def s(self, text):
        if text not in self.names:
            self.names[text] = 's%d' % len(self.names)
        return self.names[text]

    def header(self):
        return ''.join('Definition %s : string := %s.\n' % (n, coq.string(t)) for t, n in self.names.items())


class Unencodable(Exception):
    pass


def c_jv(I, x):
    if x is None:
        return 'U'
    if isinstance(x, bool):
        return 'T' if x else 'F'
    if isinstance(x, (int, float)):
        q = x * 4
        if isinstance(q, float):
            if not q.is_integer():
                raise Unencodable('number %r is not a multiple of 1/4' % x)
            q = int(q)
        return '(N %s)' % coq.z(q)
    if isinstance(x, str):
        return '(S %s)' % I.s(x)
    if isinstance(x, list):
        return '(L %s)' % coq.lst(x, lambda y: c_jv(I, y))
    if isinstance(x, dict):
        return '(O %s)' % c_entry(I, x)
    raise Unencodable(type(x).__name__)


def c_entry(I, d):
    return coq.lst(list(d.items()), lambda kv: '(%s, %s)' % (I.s(kv[0]), c_jv(I, kv[1])))


def c_port(I, e, hardware, raw):
    """a port of the target hub, from its GET entry and what its driver reads"""
    pid = e['id']
    hw = next((h for h in hardware if h['id'] == pid), None)
    custom = hw is not None and hw['kind'] == 'custom'
    modifiable = STD_MODIFIABLE + (['gain', 'mode'] if custom else [])
    d = {k: e[k] for k in DEF_KEYS if k in e}
    attrs = {k: v for k, v in e.items() if k in modifiable}
    skip = set(DEF_KEYS) | set(modifiable) | {'id', 'writable', 'virtual', 'value', 'pending_value'}
    fixed = {k: v for k, v in e.items() if k not in skip}
    value = canon(raw.get(pid))
    kinds = CUSTOM_KINDS % (I.s('gain'), I.s('mode'), I.s('fast'), I.s('slow')) if custom else '[]'
    return 'P %s %s %s %s %s %s %s %s' % (I.s(pid), coq.boolean(bool(e.get('virtual'))), coq.boolean(bool(e.get('writable'))),
                                          c_entry(I, d), c_entry(I, fixed), kinds, c_entry(I, attrs), c_jv(I, value))


def c_err(I, o):
    if o[0] == 'ok':
        return 'None'
    if o[0] == 'api':
        p = o[3]
        return '(Some (%s, %s, %s, %s))' % (coq.z(o[1]), I.s(o[2]), coq.option(p['id'], lambda v: c_jv(I, v)) if 'id' in p else 'None',
                                            coq.option(p.get('field'), lambda v: I.s(v) if isinstance(v, str) else I.s('<index>')))
    return '(Some (500, %s, None, None))' % I.s('exception:' + o[1])


def c_ports_case(I, job, res):
    hub_at_put = res['mid_ports']          # GET /ports of the target when PUT /ports is issued
    slaves = [s.get('name') for s in res['mid_devices'] if isinstance(s.get('name'), str)]
    limit = next((op[2] for op in job['target'] if op[0] == 'set_setting' and op[1] == 'virtual_ports'), 1024)
    hub = 'H %s %s true %s' % (coq.lst(hub_at_put, lambda e: '(%s)' % c_port(I, e, job.get('hardware', []), res['mid_raw'])), coq.z(limit),
                               coq.lst(slaves, I.s))
    parses = coq.lst(res['parses'], lambda t: '(%s, %s, %s)' % (
        I.s(t[0]), I.s(t[1]), '(Some (%s, %s))' % (I.s(t[4]), coq.lst(t[5], I.s)) if t[3] else 'None'))
    trs = coq.lst(res['transforms'], lambda t: '(%s, %s, %s, %s)' % (I.s(t[0]), I.s(t[1]), c_jv(I, canon(t[3])), c_jv(I, canon(t[4]))))
    sent = res['sent']['ports']
    mutated = bool({name for name, _m in (job.get('mutate') or [])} & {'ports', 'peripherals', 'devices'})
    return ('{| pc_parse := %s;\n pc_tr := %s;\n pc_hub := %s;\n pc_sent := %s;\n pc_src := %s;\n pc_mutated := %s;\n pc_err := %s;\n'
            ' pc_flags := (%s, %s);\n pc_after := %s |}' % (
                parses, trs, hub, coq.lst(canon(sent), lambda e: c_jv(I, e)), coq.lst(canon(res['src']['ports']), lambda e: c_entry(I, e)),
                coq.boolean(mutated), c_err(I, res['put']['ports']), coq.boolean(res['flags']['ports'][0]),
                coq.boolean(res['flags']['ports'][1]), coq.lst(canon(res['after']['ports']), lambda e: c_entry(I, e))))


DEVICE_MODIFIABLE = ['name', 'display_name']


def c_device_case(I, job, res):
    tgt, dflt = canon(res['tgt']['device']), canon(res['device_defaults'])
    attrs = {k: tgt[k] for k in DEVICE_MODIFIABLE}
    defaults = {k: dflt[k] for k in DEVICE_MODIFIABLE}
    hashes = {w + '_password_hash': (EMPTY_HASH if tgt.get(w + '_password') == '' else 'set') for w in ('admin', 'normal', 'viewonly')}
    ro = {k: v for k, v in tgt.items() if k not in DEVICE_MODIFIABLE and not k.endswith('_password')}
    dev = ('{| dv_attrs := %s; dv_defaults := %s; dv_kinds := [(%s, KName); (%s, KStr 64)]; dv_hashes := %s; dv_readonly := %s |}' % (
        c_entry(I, attrs), c_entry(I, defaults), I.s('name'), I.s('display_name'), c_entry(I, hashes), c_entry(I, ro)))
    mutated = 'device' in {name for name, _m in (job.get('mutate') or [])}
    return ('{| dc_device := %s;\n dc_sent := %s; dc_src := %s; dc_mutated := %s; dc_err := %s;\n dc_before := %s; dc_after := %s |}' % (
        dev, c_entry(I, canon(res['sent']['device'])), c_entry(I, canon(res['src']['device'])), coq.boolean(mutated),
        c_err(I, res['put']['device']), c_entry(I, tgt), c_entry(I, canon(res['after']['device']))))


def c_index_err(I, o, kind_of_exc=False):
    if o[0] == 'ok':
        return 'None'
    if o[0] == 'api':
        return '(Some (%s, %s))' % (coq.z(o[3].get('index', -1)), I.s(o[2]))
    return '(Some (-1, %s))' % I.s(o[1])


def c_slaves_case(I, job, res):
    mutated = 'devices' in {name for name, _m in (job.get('mutate') or [])}
    sim = job.get('sim') or {}
    return '{| sc_reach := %s; sc_sent := %s; sc_mutated := %s; sc_err := %s; sc_flags := (%s, %s); sc_after := %s |}' % (
        coq.lst(sorted(sim.items()), lambda kv: '(%s, %s)' % (I.s(kv[0]), c_jv(I, canon(kv[1])))),
        coq.lst(canon_list(res['sent']['devices']), lambda e: c_entry(I, e)), coq.boolean(mutated), c_index_err(I, res['put']['devices']),
        coq.boolean(res['flags']['devices'][0]), coq.boolean(res['flags']['devices'][1]),
        coq.lst(canon_list(res['after_put']['devices']), lambda e: c_entry(I, e)))


def c_periph_case(I, job, res):
    mutated = 'peripherals' in {name for name, _m in (job.get('mutate') or [])}
    return '{| rc_known := [%s]; rc_current := %s; rc_sent := %s; rc_mutated := %s; rc_err := %s; rc_after := %s |}' % (
        I.s(MOCK_DRIVER), coq.lst(canon(res['tgt']['peripherals']), lambda e: c_entry(I, e)),
        coq.lst(canon(res['sent']['peripherals']), lambda e: c_entry(I, e)), coq.boolean(mutated),
        c_index_err(I, res['put']['peripherals']), coq.lst(canon(res['after_put']['peripherals']), lambda e: c_entry(I, e)))


def c_case(I, job, res, notes):
    parts = {}
    for key, f, name in (('k_ports', c_ports_case, 'ports'), ('k_device', c_device_case, 'device'),
                         ('k_slaves', c_slaves_case, 'devices'), ('k_periph', c_periph_case, 'peripherals')):
        if name not in res['put']:
            parts[key] = 'None'
            continue
        try:
            if name in ('devices', 'peripherals', 'ports') and not encodable_doc(res['sent'][name], name):
                raise Unencodable('document shape outside the model')
            parts[key] = '(Some %s)' % f(I, job, res)
        except Unencodable as e:
            notes.append('%s: %s' % (name, e))
            parts[key] = 'None'
    return '{| k_ports := %s;\n k_device := %s;\n k_slaves := %s;\n k_periph := %s |}' % (
        parts['k_ports'], parts['k_device'], parts['k_slaves'], parts['k_periph'])


def encodable_doc(doc, name):
    if not isinstance(doc, list):
        return False
    if name == 'ports':
        return True
    return all(isinstance(e, dict) for e in doc)


HEADER = 'From QT Require Import C20.Run.\nOpen Scope string_scope.\nOpen Scope list_scope.\nOpen Scope Z_scope.\n'
PART_NAMES = {1: 'ports', 2: 'device', 3: 'devices', 4: 'peripherals'}


def evaluate(ctx, jobs, results, name, shard=30):
    """-> ({index: [parts]} model disagreements, {index: [parts]} spec contradictions, notes, error)"""
    bad_model, bad_spec, notes, err = {}, {}, [], None
    usable = [i for i, r in enumerate(results) if 'error' not in r]
    if not ctx.model_ok:
        return bad_model, bad_spec, notes, 'model not built; cases not evaluated'
    shards, index_sets = [], []
    for k in range(0, len(usable), shard):
        idxs = usable[k:k + shard]
        I = Interner()
        bodies = []
        for i in idxs:
            n = []
            bodies.append(c_case(I, jobs[i], results[i], n))
            notes += ['case %d: %s' % (i, x) for x in n]
        shards.append(I.header() + 'Definition cases : list case := [\n%s].\n' % ';\n'.join(bodies))
        index_sets.append(idxs)
    outs = coq.eval_shards(ctx.workdir, name, HEADER, shards, ['bad_model cases', 'bad_spec cases'], jobs=WORKERS)
    for (rc, lists, text), idxs in zip(outs, index_sets):
        if rc != 0 or len(lists) != 2:
            err = 'coqc failed on a case shard: %s' % text[-700:]
            continue
        for code in lists[0]:
            bad_model.setdefault(idxs[code // 10], []).append(PART_NAMES[code % 10])
        for code in lists[1]:
            bad_spec.setdefault(idxs[code // 10], []).append(PART_NAMES[code % 10])
    return bad_model, bad_spec, notes, err


# ----------------------------------------------------------------------------------------------------------------
# batches

def load_corpus():
    out = []
    for path in sorted(glob.glob(os.path.join(coq.VERIF, 'corpus', ID, '*.json'))):
        with open(path) as f:
            d = json.load(f)
        job = d.get('case', d)
        job = job.get('job', job)
        out.append((os.path.basename(path), job))
    return out


def summarize(job, res):
    return {
        'job': job,
        'source_ports': [e.get('id') for e in res.get('src', {}).get('ports', [])],
        'target_ports': [e.get('id') for e in res.get('tgt', {}).get('ports', [])],
        'ports_after': [e.get('id') for e in res.get('after', {}).get('ports', [])] if isinstance(res.get('after', {}).get('ports'), list) else None,
        'put': res.get('put'), 'flags': res.get('flags'),
    }


def shrink(ctx, job, key):
    """drop operations / hardware while the same kind of violation persists"""
    cur = job
    for _round in range(6):
        cands = []
        for side in ('source', 'target'):
            for i in range(len(cur[side])):
                cands.append(dict(cur, **{side: cur[side][:i] + cur[side][i + 1:]}))
            for i, op in enumerate(cur[side]):
                if op[0] == 'patch_port' and len(op[2]) > 1:
                    for k in op[2]:
                        cands.append(dict(cur, **{side: cur[side][:i] + [[op[0], op[1], {a: b for a, b in op[2].items() if a != k}]] + cur[side][i + 1:]}))
        for i in range(len(cur.get('hardware', []))):
            cands.append(dict(cur, hardware=cur['hardware'][:i] + cur['hardware'][i + 1:]))
        if not cands:
            break
        results = run_worker(ctx, cands, 'shrink')
        keep = None
        # prefer the candidate that removes the most while keeping the violation: try all, take the first that still fails,
        # then greedily combine further removals in the next round
        for c, r in zip(cands, results):
            if 'error' in r:
                continue
            if any(k == key for k, _t in oracle(c, r)):
                keep = c
                break
        if keep is None:
            break
        cur = keep
    return cur


def run_batch(ctx, res, jobs, name, labels=None, do_shrink=True):
    t0 = _time.time()
    results = run_worker(ctx, jobs, name)
    t_impl = _time.time() - t0
    for r in results:
        if 'error' not in r:
            r['mid_ports'] = r['mid']['ports']
            r['mid_devices'] = r['mid']['devices']
            r['mid_peripherals'] = r['mid']['peripherals']
    t0 = _time.time()
    bad_model, bad_spec, notes, err = evaluate(ctx, jobs, results, name)
    t_coq = _time.time() - t0
    if len(jobs) > 10:
        ctx.log('%s: %d pairs, implementation %.1fs, coqc %.1fs' % (name, len(jobs), t_impl, t_coq))
    res['extra']['impl_wall_s'] = round(res['extra'].get('impl_wall_s', 0) + t_impl, 2)
    res['extra']['coq_wall_s'] = round(res['extra'].get('coq_wall_s', 0) + t_coq, 2)
    if err:
        res['tie_failures'].append(err)
    for n in notes[:5]:
        res['extra'].setdefault('not_encoded', []).append(n)
    dist = res['distribution']
    shrunk = False
    for i, (job, r) in enumerate(zip(jobs, results)):
        label = labels[i] if labels else None
        if 'error' in r:
            res['tie_failures'].append({'note': 'worker could not run the pair', 'label': label, 'error': r['error'], 'trace': r.get('traceback', '')[-600:]})
            continue
        if r.get('clean'):
            res['tie_failures'].append({'note': 'hub not empty after teardown', 'detail': r['clean']})
        res['evaluations'] += 1
        nv_s = len([e for e in r['src']['ports'] if e.get('virtual')])
        nv_t = len([e for e in r['tgt']['ports'] if e.get('virtual')])
        n_expr = len([e for e in r['src']['ports'] if e.get('expression')])
        n_tr = len([e for e in r['src']['ports'] if e.get('transform_read') or e.get('transform_write')])
        for k, v in (('virtual ports in the backup', nv_s), ('virtual ports on the target', nv_t)):
            b = '%s: %s' % (k, '0' if v == 0 else '1-2' if v <= 2 else '3+')
            dist[b] = dist.get(b, 0) + 1
        dist['ports with expression in the backup'] = dist.get('ports with expression in the backup', 0) + n_expr
        dist['ports with transforms in the backup'] = dist.get('ports with transforms in the backup', 0) + n_tr
        dist['disabled ports in the backup'] = dist.get('disabled ports in the backup', 0) + len([e for e in r['src']['ports'] if e.get('enabled') is False])
        dist['slave entries in the backup'] = dist.get('slave entries in the backup', 0) + len(r['src']['devices'])
        dist['peripherals in the backup'] = dist.get('peripherals in the backup', 0) + len(r['src']['peripherals'])
        mk = job.get('mutation_kind') or ('custom' if job.get('mutate') else 'none')
        dist['document defect: ' + mk] = dist.get('document defect: ' + mk, 0) + 1
        for name_, o in r['put'].items():
            kk = 'PUT /%s -> %s' % (name_, 'ok' if o[0] == 'ok' else (o[2] if o[0] == 'api' else 'exception ' + o[1]))
            dist[kk] = dist.get(kk, 0) + 1
        for e in r['src']['ports']:
            if not e.get('expression') and (e.get('transform_read') or e.get('transform_write')) and e.get('enabled') \
                    and written_back(r, e) != canon(e.get('value')):
                dist['values not compared (transforms not inverse)'] = dist.get('values not compared (transforms not inverse)', 0) + 1
        if nv_s >= 1 and (nv_s != nv_t or n_expr or n_tr) and len(r['src']['ports']) >= 2:
            res['distinct_nontrivial'] += 1
        if len(res['samples']) < 4:
            res['samples'].append({'hardware': job.get('hardware'), 'source_ops': job['source'][:8], 'target_ops': job['target'][:5],
                                   'document_defect': job.get('mutate'), 'put': r['put'], 'flags': r['flags'],
                                   'ports_after': [e.get('id') for e in r['after']['ports']]})
        for part in bad_model.get(i, []):
            if len(res['tie_failures']) < 30:
                res['tie_failures'].append({'note': 'model differs from implementation on PUT /%s' % part, 'label': label,
                                            'put': r['put'], 'job': job if len(res['tie_failures']) < 3 else '(omitted)'})
        found = oracle(job, r)
        coq_parts = set(bad_spec.get(i, []))
        py_parts = {k['document'] for k, _t in found}
        if coq_parts - py_parts:
            res['tie_failures'].append({'note': 'the Coq specification oracle flags PUT /%s, the python oracle does not' % sorted(coq_parts - py_parts),
                                        'label': label, 'job': job})
        for key, text in found:
            case_job = job
            if do_shrink and not shrunk and not res['violations'] and not job.get('mutate'):
                shrunk = True
                case_job = shrink(ctx, job, key)
            rr = r if case_job is job else run_worker(ctx, [case_job], 'min')[0]
            res['violations'].append({'key': key, 'what': text, 'case': summarize(case_job, rr if 'error' not in rr else r),
                                      'observed': {'put': r['put'], 'flags': r['flags']}})


def check(ctx, res):
    res['rule'] = (
        'pairs (source, target) of hub configurations built through the API on the same hardware (0-4 harness ports of 4 kinds, '
        'mock peripherals): 0-6 virtual ports of all definition kinds, attributes over their domains (strings with quotes, '
        'backslashes, non-ASCII), expressions over other ports (also later and missing ones), transform pairs (inverse and '
        'not), values, disabled ports, device name/display name/passwords, 0-2 disabled slave entries, 0-2 peripherals; 35% '
        'of the pairs restore a document with one defect (23 kinds). evaluations = pairs restored; non-trivial = the backup '
        'has >= 2 ports, >= 1 virtual port, and either expressions/transforms or a different number of virtual ports than the target'
    )
    if ctx.replay:
        with open(ctx.replay) as f:
            d = json.load(f)
        job = d.get('case', d)
        job = job.get('job', job)
        run_batch(ctx, res, [job], 'c20replay', do_shrink=False)
        return
    corpus = load_corpus()
    if corpus:
        run_batch(ctx, res, [j for _n, j in corpus], 'c20corpus', labels=[n for n, _j in corpus], do_shrink=False)
    run_batch(ctx, res, rejection_stream(), 'c20reject', do_shrink=False)
    n = ctx.n(120, 5000)
    done = 0
    while done < n:
        k = min(600, n - done)
        jobs = [gen_job(ctx.rng) for _ in range(k)]
        run_batch(ctx, res, jobs, 'c20cases%d' % done)
        done += k


def search(ctx, res):
    n = ctx.n(1200, 5000)
    done = 0
    while done < n and not res['violations']:
        jobs = [gen_job(ctx.rng) for _ in range(min(400, n - done))]
        run_batch(ctx, res, jobs, 'c20search%d' % done)
        done += len(jobs)


REPLAY_HELP = (
    'bin/check C20 --replay <this file>   (case.job: hardware = non-virtual ports present on both hubs; source / target = API '
    'operations that build the two configurations; the GET documents of the source are PUT onto the target in the order '
    'device, peripherals, devices, ports; mutate = alterations of the documents before PUT)'
)
LEVEL_TEXT = (
    'Coq theorems over a Gallina model of get_ports / put_ports (removal of the virtual ports, reset of the others, re-creation '
    'from the definition fields, set_port_attrs with schema and step validation, loop detection, background value write, '
    'try/finally around the flags, errors wrapped with the port id), get/put_device, get/put_slave_devices and '
    'get/put_peripherals: for every configuration pair on the same hardware and every document order, a restore that is '
    'accepted yields documents equal to the backup except for the volatile fields; an unaltered backup IS accepted (so the round '
    'trip holds unconditionally) when the source\'s attribute values lie in their domains, its transforms refer to their own port, '
    'its virtual ports have valid definitions, its dependency graph has a topological order (no loop) and the target may hold that '
    'many virtual ports - proved via the soundness of the loop check on the partially restored graph; likewise for /device, '
    '/devices (entries well-formed, not both polling and listening, endpoints distinct) and /peripherals (drivers loadable, ids '
    'distinct); after put_ports polling and event delivery are enabled on '
    'every path for every document; a rejection carries the id of an entry of the document. The model is compared with the real '
    'functions on generated configuration pairs (error, flags, documents after the restore), and the real functions with the '
    'specification oracle.'
)
LEVEL_NOTE = (
    'Trusted: Coq kernel incl. vm_compute; the correspondence harness (worker process, teardown between configurations, harness '
    'port drivers, settle loop); expression parsing/printing and transform evaluation enter the model as tables filled by the real '
    'code; jsonschema and asyncio task order are modelled, not verified; live slave devices are simulated at Slave.api_call. The acceptance theorems '
    'have boolean premises on the source hub (shown to hold for the example hubs by vm_compute); that reachable hubs satisfy them '
    'rests on the API validating what it stores (C04 for the absence of loops) and is probed by the oracle: an unaltered backup '
    'that is refused for any reason other than the virtual-port limit is a violation. No axioms.'
)
TECHNIQUE = 'Coq proof (induction over the document entries) over a model tied by vm_compute correspondence on configuration pairs'
