"""C03 — the parser accepts exactly the expression grammar; printing is a parse fixpoint.

Theorems: coq/theories/Props/C03.v.  Tie: (T) Gen/FuncTable.v (registry) + (C) grammar-generated texts with random ASCII
whitespace and single-token mutations, parsed by the real `expressions.parse` and by the Coq model (vm_compute): accept/reject,
error reason/token/position, structure, literal values, str().  Spec oracle: the independent grammar recogniser (Grammar.v),
and the print/parse fixpoint checked on the implementation's own str() output.
"""
import asyncio
import time

from harness.common import coq, pyvals
from harness.translate import functable

ID = 'C03'
PROPS = 'theories/Props/C03.v'
MODEL_TARGETS = ['theories/C03/Run.vo']
TRANSLATORS = [functable.translate]
TIE = 'translator (function registry) + correspondence by vm_compute on generated / mutated texts'
ALLOWED_AXIOMS = []
TRUSTED_BASE = [
    'harness/translate/functable.py (function registry regenerated from core/expressions/*.py)',
    'correspondence harness harness/props/c03.py',
    'modelled, not verified: str.isspace / int() / float() on ASCII text (Parser.v: is_space, parse_int_text, '
    'parse_float_text with correctly rounded decimal->binary64 conversion), re.search/re.match as used by the parser',
]
ASSUMPTIONS = [
    'input alphabet is ASCII (Python also accepts non-ASCII whitespace/digits; outside the quantifier)',
    'the grammar recogniser used as accept/reject oracle is related to the parser by test only (soundness/completeness are '
    'not proved); the proved theorems are parse_ok_wf and wf_print_parse (printing is a parse fixpoint)',
    'HISTORY is enabled iff history.is_enabled() (passed to the model as a parameter)',
]

WS = [' ', ' ', ' ', '\t', '\n', '  ', '\r', '\x0b', '\x1f']
LITERALS = ['0', '1', '-1', '+5', '007', '1_000', '3.14', '-2.5', '1e3', '1E-3', '.5', '5.', '1_0.2_5e1_0', 'inf', '-inf', 'Infinity',
            'nan', 'NaN', 'true', 'false', 'unavailable', '1e400', '1e-400', '0.1', '9007199254740993', '123456789012345678901234567890',
            '4.9e-324', '2.2250738585072014e-308', '0x10', '1__0', '1e', 'tru', '--1', '1.2.3', '12a', '-', '.', '1_']
IDS = ['p1', 'a.b', 'x-y', 'Z_9', 'port.with.dots', '1', '-', 'a b', 'a$b', 'é']


class Gen:
    def __init__(self, rng, table, history_enabled):
        self.rng = rng
        self.table = [e for e in table]
        self.by_name = {e['name']: e for e in table}
        self.history_enabled = history_enabled

    def ws(self, p=0.3):
        return self.rng.choice(WS) if self.rng.random() < p else ''

    def leaf(self, want_ref=False):
        rng = self.rng
        if want_ref:
            return rng.choice(['@', '@']) + rng.choice(IDS[:5] + [''])
        r = rng.random()
        if r < 0.5:
            return rng.choice(LITERALS[:27]) if rng.random() < 0.93 else rng.choice(LITERALS)
        if r < 0.9:
            return '$' + rng.choice(IDS[:5] + ['']) if rng.random() < 0.95 else '$' + rng.choice(IDS)
        return '@' + rng.choice(IDS[:5] + [''])

    def expr(self, depth, want_ref=False):
        rng = self.rng
        if want_ref and rng.random() < 0.9:
            return self.ws() + self.leaf(True) + self.ws()
        if depth <= 0 or rng.random() < 0.3:
            return self.ws() + self.leaf() + self.ws()
        fi = rng.choice(self.table)
        lo = fi['MIN_ARGS'] or 0
        hi = fi['MAX_ARGS'] if fi['MAX_ARGS'] is not None else lo + rng.choice([0, 1, 2])
        n = rng.randint(lo, hi)
        if rng.random() < 0.04:
            n = max(0, n + rng.choice([-1, 1]))          # wrong arity
        refpos = [i for i, k in enumerate(fi['ARG_KINDS']) if k == 'PortRef']
        args = [self.expr(depth - 1, want_ref=(i in refpos)) for i in range(n)]
        return self.ws() + fi['name'] + self.ws(0.15) + '(' + ','.join(args) + ')' + self.ws()

    def mutate(self, s):
        rng = self.rng
        if not s:
            return s
        i = rng.randrange(len(s))
        k = rng.random()
        if k < 0.2:
            return s[:i] + s[i + 1:]                                    # drop a character
        if k < 0.4:
            return s[:i] + rng.choice('(),') + s[i:]                    # add a parenthesis or comma
        if k < 0.5:
            return s[:i] + rng.choice(['#', '!', ' x', '"', '\\', '[', '=']) + s[i:]   # illegal character
        if k < 0.6:
            return s.replace('(', '((', 1) if rng.random() < 0.5 else s + ')'
        if k < 0.7:
            j = s.find('(')
            return ('FOO' + s[j:]) if j >= 0 else s + '()'                 # unknown name
        if k < 0.8:
            return s.replace('$', '@', 1) if '$' in s else s.replace('@', '$', 1)   # wrong argument kind
        if k < 0.9:
            return s[:i] + rng.choice(WS) + s[i:]                           # whitespace anywhere
        return s.replace(',', ',,', 1)


def tree_of(e):
    from qtoggleserver.core.expressions import Function, LiteralValue
    from qtoggleserver.core.expressions.port import PortRef, PortValue, SelfPortRef, SelfPortValue
    if isinstance(e, LiteralValue):
        return ('lit', e.sexpression, e.value)
    if isinstance(e, SelfPortValue):
        return ('selfval',)
    if isinstance(e, SelfPortRef):
        return ('selfref',)
    if isinstance(e, PortValue):
        return ('pv', e.port_id)
    if isinstance(e, PortRef):
        return ('pr', e.port_id)
    if isinstance(e, Function):
        return ('call', e.NAME, [tree_of(a) for a in e.args])
    raise TypeError(type(e))


def ascii_list(s):
    return coq.zlist([ord(c) for c in s])


def coq_str(s):
    return '(s_of %s)' % ascii_list(s)


def coq_pexpr(t):
    if t[0] == 'lit':
        return '(PLit %s %s)' % (coq_str(t[1]), pyvals.opt_pyval(t[2]))
    if t[0] == 'selfval':
        return 'PSelfVal'
    if t[0] == 'selfref':
        return 'PSelfRef'
    if t[0] == 'pv':
        return '(PPortVal %s)' % coq_str(t[1])
    if t[0] == 'pr':
        return '(PPortRef %s)' % coq_str(t[1])
    return '(PCall %s %s)' % (coq_str(t[1]), coq.lst([coq_pexpr(a) for a in t[2]]))


def coq_err(j):
    r = j.get('reason')
    if r == 'unknown-function':
        return '(EUnknownFunction %s %d%%nat)' % (coq_str(j['token']), j['pos'])
    if r == 'invalid-number-of-arguments':
        return '(EInvalidNumArgs %s %d%%nat)' % (coq_str(j['token']), j['pos'])
    if r == 'invalid-argument-kind':
        return '(EInvalidArgKind %s %d%%nat %d%%nat)' % (coq_str(j['token']), j['pos'], j['num'])
    if r == 'unbalanced-parentheses':
        return '(EUnbalanced %d%%nat)' % j['pos']
    if r == 'unexpected-end':
        return 'EUnexpectedEnd'
    if r == 'unexpected-character':
        return '(EUnexpectedChar (ch %d%%nat) %d%%nat)' % (ord(j['token']), j['pos'])
    if r == 'empty-expression':
        return 'EEmpty'
    return None


def run_impl(texts):
    from qtoggleserver.core import expressions
    from qtoggleserver.core.expressions import ROLE_VALUE
    from qtoggleserver.core.expressions.exceptions import ExpressionParseError
    out = []
    for s in texts:
        try:
            e = expressions.parse('self', s, ROLE_VALUE)
            out.append(('ok', tree_of(e), str(e), sorted(e.get_deps())))
        except ExpressionParseError as exn:
            out.append(('err', exn.to_json()))
        except Exception as exn:
            out.append(('crash', '%s: %s' % (type(exn).__name__, exn)))
    return out


HEADER = 'From QT Require Import C03.Run.\nOpen Scope Z_scope.\n'


# ----------------------------------------------------------------------------------------------------------------
# the hub's entry point: PATCH /ports/{id} {"expression": text} and the expression attribute reported afterwards must agree
# with the parser's verdict on the very text that was submitted

async def _run_hub(texts):
    import types
    from qtoggleserver.conf import settings
    settings.persist.driver = 'qtoggleserver.drivers.persist.JSONDriver'
    settings.persist.file_path = None
    from qtoggleserver.core import expressions
    from qtoggleserver.core import api as core_api
    from qtoggleserver.core import main, ports as core_ports
    from qtoggleserver.core.api.funcs import ports as api_ports
    from qtoggleserver.core.expressions import ROLE_VALUE
    from qtoggleserver.core.expressions.exceptions import ExpressionParseError

    class HubPort(core_ports.Port):
        TYPE = core_ports.TYPE_NUMBER
        WRITABLE = True

        async def read_value(self):
            return 1

        async def write_value(self, value):
            pass

    core_ports._ports_by_id.clear()
    ports = await core_ports.load([{'driver': HubPort, 'port_id': 'self'}, {'driver': HubPort, 'port_id': 'other'}], trigger_add=False)
    port = ports[0]
    await port.enable()
    await ports[1].enable()
    await ports[1].set_attr('expression', 'ADD($self, 1)')     # so that `$other` in an expression of `self` closes a loop
    # the accepted expressions are not to be EVALUATED here (a generated BOY(1e9) or DELAY chain would keep the hub busy for
    # minutes): this stream is about what is accepted, held and reported
    for p_ in ports:
        p_.push_eval = lambda *a_, **k_: None
    handler = types.SimpleNamespace(access_level=core_api.ACCESS_LEVEL_ADMIN, username='c03',
                                    request=types.SimpleNamespace(headers={}, method='PATCH', path='/ports/self', body=b'',
                                                                  query_arguments={}))
    out = []
    try:
        for text in texts:
            try:
                e = expressions.parse('self', text, ROLE_VALUE)
                want = ('ok', str(e))
            except ExpressionParseError as exn:
                want = ('err', exn.to_json())
            except Exception as exn:  # noqa: BLE001
                want = ('crash', '%s: %s' % (type(exn).__name__, exn))
            before = str(port.get_expression() or '')
            if want[0] == 'ok' and '$other' in e.get_deps():
                want = ('err', {'reason': 'circular-dependency'})
            try:
                await api_ports.patch_port(handler, 'self', {'expression': text})
                got = ('ok',)
            except core_api.APIError as exn:
                got = ('err', exn.status, exn.code, dict(exn.params))
            except Exception as exn:  # noqa: BLE001
                got = ('crash', '%s: %s' % (type(exn).__name__, exn))
            held = str(port.get_expression() or '')
            reported_now = (await port.to_json()).get('expression')
            await main.update()
            for _ in range(3):
                await asyncio.sleep(0)
            reported_later = (await port.to_json()).get('expression')
            out.append({'text': text, 'want': want, 'got': got, 'before': before, 'held': held,
                        'reported_now': reported_now, 'reported_later': reported_later})
        # the transforms go through the same parser, plus the rule that they may only read the port itself
        from qtoggleserver.core.expressions import ROLE_TRANSFORM_READ, ROLE_TRANSFORM_WRITE
        for k, text in enumerate(texts[:len(texts) // 3] + ['MUL($other, 10)', 'ADD($, $other)', 'MUL($, 10)', '$other', ' SUB( $self , 1)']):
            attr, role = (('transform_write', ROLE_TRANSFORM_WRITE), ('transform_read', ROLE_TRANSFORM_READ))[k % 2]
            if text == '':
                continue
            try:
                e = expressions.parse('self', text, role)
                ext = sorted(d[1:] for d in e.get_deps() if d.startswith('$') and d != '$self')
                want = ('ext', ext) if ext else ('ok', str(e))
            except ExpressionParseError as exn:
                want = ('err', exn.to_json())
            except Exception as exn:  # noqa: BLE001
                want = ('crash', '%s: %s' % (type(exn).__name__, exn))
            before = (await port.to_json()).get(attr)
            try:
                await api_ports.patch_port(handler, 'self', {attr: text})
                got = ('ok',)
            except core_api.APIError as exn:
                got = ('err', exn.status, exn.code, dict(exn.params))
            except Exception as exn:  # noqa: BLE001
                got = ('crash', '%s: %s' % (type(exn).__name__, exn))
            await main.update()
            for _ in range(3):
                await asyncio.sleep(0)
            out.append({'text': text, 'attr': attr, 'want': want, 'got': got, 'before': before,
                        'reported_later': (await port.to_json()).get(attr)})
            if got == ('ok',):
                await port.set_attr(attr, '')
    finally:
        for t in (port._write_value_task, port._eval_task):
            if t is not None and not t.done():
                t.cancel()
        await asyncio.sleep(0)
        core_ports._ports_by_id.clear()
    return out


def run_hub(ctx, res, texts):
    """verdict of the hub vs verdict of the parser on the same text (the parser itself is compared with the Coq model and the
    grammar in run_batch)"""
    from qtoggleserver.core import expressions
    from qtoggleserver.core.expressions import ROLE_VALUE
    rows = asyncio.run(_run_hub(texts))
    d = res['distribution']
    for r in rows:
        res['evaluations'] += 1
        text, want, got = r['text'], r['want'], r['got']
        problem = None
        if 'attr' in r:
            d['hub:%s:%s' % (r['attr'], want[0])] = d.get('hub:%s:%s' % (r['attr'], want[0]), 0) + 1
            if want[0] == 'ok':
                if got != ('ok',):
                    problem = 'the parser accepts the text and it reads only the port itself, but the request is answered %r' % (got,)
                elif r['reported_later'] != want[1]:
                    problem = 'accepted, but GET reports %r instead of the canonical text %r' % (r['reported_later'], want[1])
            elif want[0] == 'ext':
                det = got[3].get('details') if got[0] == 'err' and got[1] == 400 else None
                if not det or det.get('reason') != 'external-dependency' or det.get('token') not in want[1]:
                    problem = 'the text reads other ports (%s) but the request is answered %r' % (', '.join(want[1]), got)
                elif r['reported_later'] != r['before']:
                    problem = 'rejected, but the transform changed from %r to %r' % (r['before'], r['reported_later'])
            elif want[0] == 'err':
                if got[0] != 'err' or got[1] != 400 or got[3].get('details') != want[1]:
                    problem = 'the parser rejects the text (%s) but the request is answered %r' % (want[1], got)
                elif r['reported_later'] != r['before']:
                    problem = 'rejected, but the transform changed from %r to %r' % (r['before'], r['reported_later'])
            else:
                res['tie_failures'].append({'text': text, 'note': 'parser raised a non-parse exception: %s' % want[1]})
                continue
            if problem:
                res['violations'].append({
                    'key': {'kind': 'hub-entry-point', 'attribute': r['attr'], 'parser_accepts': want[0] != 'err'},
                    'what': 'PATCH /ports/self {"%s": %r}: %s' % (r['attr'], text, problem),
                    'case': {'text': text, 'attribute': r['attr'], 'through': 'qtoggleserver.core.api.funcs.ports.patch_port'}, 'observed': r})
            continue
        d['hub:' + want[0]] = d.get('hub:' + want[0], 0) + 1
        if text == '':
            # documented short-cut of the hub: the empty text removes the expression
            if got != ('ok',) or r['held'] != '':
                problem = 'the empty text did not remove the expression'
        elif want[0] == 'ok':
            if got != ('ok',):
                problem = 'the parser accepts the text but PATCH /ports/self answers %r' % (got,)
            elif r['held'] != want[1]:
                problem = 'accepted, but the port holds %r instead of %r' % (r['held'], want[1])
            elif r['reported_later'] != want[1]:
                problem = 'accepted, but GET reports %r instead of the canonical text %r' % (r['reported_later'], want[1])
            else:
                try:
                    again = str(expressions.parse('self', r['reported_now'], ROLE_VALUE))
                except Exception as exn:  # noqa: BLE001
                    again = 'unparsable (%s)' % type(exn).__name__
                if again != want[1]:
                    problem = 'right after the request GET reports %r, which is not a text of the accepted expression' % (r['reported_now'],)
        elif want[0] == 'err':
            if got[0] != 'err' or got[1] != 400:
                problem = 'the parser rejects the text (%s) but PATCH /ports/self answers %r' % (want[1].get('reason'), got)
            elif got[3].get('details') != want[1]:
                problem = 'rejected, but with details %r where the parser reports %r' % (got[3].get('details'), want[1])
            elif r['held'] != r['before'] or r['reported_later'] != r['before']:
                problem = 'rejected, but the expression of the port changed from %r to %r (reported: %r)' % (r['before'], r['held'], r['reported_later'])
        else:
            res['tie_failures'].append({'text': text, 'note': 'parser raised a non-parse exception: %s' % want[1]})
            continue
        if problem:
            res['violations'].append({
                'key': {'kind': 'hub-entry-point', 'parser_accepts': want[0] == 'ok', 'whitespace_only': bool(text) and not text.strip(),
                        'leading_whitespace': bool(text) and text[0].isspace()},
                'what': 'PATCH /ports/self {"expression": %r}: %s' % (text, problem),
                'case': {'text': text, 'through': 'qtoggleserver.core.api.funcs.ports.patch_port'}, 'observed': r})


def run_batch(ctx, res, texts, hist, tag):
    results = run_impl(texts)
    rows, meta = [], []
    for s, r in zip(texts, results):
        if not all(ord(c) < 128 for c in s):
            continue
        if r[0] == 'ok':
            if not all(ord(c) < 128 for c in r[2]):
                continue
            exp, printed = '(POK %s)' % coq_pexpr(r[1]), ascii_list(r[2])
        elif r[0] == 'err':
            ce = coq_err(r[1])
            if ce is None or ('token' in r[1] and r[1]['reason'] == 'unexpected-character' and ord(r[1]['token']) >= 128):
                res['tie_failures'].append({'text': s, 'implementation': r[1], 'note': 'error outside the model alphabet'})
                continue
            exp, printed = '(PErrR %s)' % ce, '[]'
        else:
            res['tie_failures'].append({'text': s, 'implementation': r[1], 'note': 'parser raised a non-parse exception'})
            continue
        rows.append('(%s, %s, %s)' % (ascii_list(s), exp, printed))
        meta.append((s, r))
    shards, smeta = [], []
    for i in range(0, len(rows), 700):
        shards.append('Definition cases : list (list Z * pres * list Z) := [\n %s].\n' % ';\n '.join(rows[i:i + 700]))
        smeta.append(meta[i:i + 700])
    if not ctx.model_ok:
        res['tie_failures'].append('model not built; cases not evaluated')
        return results
    h = coq.boolean(hist)
    outs = coq.eval_shards(ctx.workdir, 'c03' + tag, HEADER, shards,
                           ['bad_model %s cases' % h, 'bad_spec %s cases' % h, 'bad_fixpoint %s cases' % h])
    for (rc, lists, err), m in zip(outs, smeta):
        if rc != 0 or len(lists) != 3:
            res['tie_failures'].append('coqc failed on a case shard: %s' % err[-600:])
            continue
        bad_model, bad_spec, bad_fix = lists
        for i in bad_model:
            s, r = m[i]
            res['tie_failures'].append({'text': s, 'implementation': _short(r), 'note': 'model differs from implementation'})
        for i in bad_spec:
            s, r = m[i]
            res['violations'].append({
                'key': {'kind': 'accept-reject', 'accepted': r[0] == 'ok'},
                'what': 'text %r is %s by the parser but the grammar says otherwise' % (s, 'accepted' if r[0] == 'ok' else 'rejected'),
                'case': {'text': s}, 'observed': _short(r)})
        for i in bad_fix:
            s, r = m[i]
            res['violations'].append({
                'key': {'kind': 'print-parse-fixpoint'},
                'what': 'str() of the expression parsed from %r is %r, which does not parse back to the same expression' % (s, r[2]),
                'case': {'text': s}, 'observed': _short(r)})
    return results


def _short(r):
    if r[0] == 'ok':
        return ['ok', r[2], r[3]]
    return list(r)


def set_history(enabled):
    """switch the availability of HISTORY (history.is_enabled() = samples-capable driver and settings.core.history_support)"""
    from qtoggleserver import persist
    from qtoggleserver.conf import settings
    if enabled:
        persist.is_samples_supported = lambda: True
        settings.core.history_support = True
    else:
        persist.is_samples_supported = _orig_samples_supported[0]
        settings.core.history_support = _orig_samples_supported[1]


_orig_samples_supported = [None, None]

NON_ASCII_LETTERS = ['\u00e9', '\u00df', '\u0430', '\u03b1', '\u0662', '\u00b2', '\u4e2d']


def non_ascii_cases(rng, g, n):
    """valid texts with one character of a port id or of a function name replaced by a non-ASCII letter/digit: the grammar's
    NAME and id alphabets are ASCII, so these must be rejected with unexpected-character (python-side oracle: the Coq model
    is over ASCII)"""
    import re
    out = []
    for _ in range(n):
        s = g.expr(rng.choice([1, 2, 2, 3]))
        spots = [m.start() for m in re.finditer(r'[A-Za-z0-9_]', s)
                 if (m.start() > 0 and (s[m.start() - 1] in '$@' or s[m.start() - 1].isalnum())) or s[m.start():m.start() + 1].isupper()]
        # only characters inside $id / @id or inside an upper-case function name
        spots = [i for i in spots if _inside_id_or_name(s, i)]
        if not spots:
            continue
        i = rng.choice(spots)
        out.append(s[:i] + rng.choice(NON_ASCII_LETTERS) + s[i + 1:])
    return out


def _inside_id_or_name(s, i):
    j = i
    while j > 0 and (s[j - 1].isalnum() or s[j - 1] in '_.-'):
        j -= 1
    if j > 0 and s[j - 1] in '$@':
        return True
    k = i
    while k < len(s) and (s[k].isalnum() or s[k] == '_'):
        k += 1
    rest = s[k:].lstrip()
    return s[j:k].isupper() and rest.startswith('(')


def check(ctx, res):
    from qtoggleserver import persist
    from qtoggleserver.conf import settings
    from qtoggleserver.core import history
    _orig_samples_supported[0] = persist.is_samples_supported
    _orig_samples_supported[1] = settings.core.history_support
    hist = bool(history.is_enabled())
    table, _ = functable.read_table()
    if not hist:
        table_gen = [e for e in table if e['ENABLED'] is True] + [e for e in table if e['ENABLED'] is not True][:1]
    else:
        table_gen = table
    g = Gen(ctx.rng, table_gen, hist)
    n = ctx.n(4000, 150000)
    texts = []
    for _ in range(n):
        s = g.expr(ctx.rng.choice([0, 1, 2, 2, 3]))
        r = ctx.rng.random()
        if r < 0.45:
            s = g.mutate(s)
        if r < 0.08:
            s = g.mutate(s)
        texts.append(s)
    texts += ['', ' ', '()', '( )', 'ADD()', 'ADD(1,2)', 'ADD (1, 2)', ' ADD(1,2) x', 'ADD(1,2)(', 'ADD(1,,2)', 'ADD(,1)', 'ADD(1,)',
              'ADD(1, 2))', '(1,2)', 'TIME()', 'TIME( )', 'TIME', '$', '@', '$ ', 'NOT(@p)', 'IF(1,2,3', ')', '(', 'ADD)1,2(', 'A+B(1)',
              'ADD(1 2, 3)', 'ADD(SUB(1,2),MUL(3,4,5))', 'HISTORY(@p,1,2)', 'HISTORY($p,1,2)']
    res['rule'] = ('grammar-generated texts over all %d registered functions (depth <= 3, random ASCII whitespace incl. \\x0b, \\x1f), '
                   'literals of every accepted form plus malformed ones; 45%% single-token mutated (dropped/added parenthesis or comma, '
                   'illegal character, unknown name, $<->@, wrong arity); a sample of them also goes through the real PATCH /ports/{id} '
                   '(verdict, error details, expression held and reported afterwards vs the parser on the same text); '
                   'distinct = distinct texts; non-trivial = contains a call'
                   % len(table_gen))
    t0 = time.time()
    allres = []
    for i in range(0, len(texts), 5000):
        allres += run_batch(ctx, res, texts[i:i + 5000], hist, 'b%d' % i)
    # the hub's entry point on a sample of the same texts, plus the whitespace corner cases
    hub_texts = ['$other', 'ADD($other, 1)', 'IF($p1, 2, MUL($other, 3))', '', ' ', '   ', '\t', ' \n ', '  ADD(1, #)', ' ADD(1,2) ', 'ADD(1, 2)', '  $p1', ' NOSUCH(1)', 'ADD( 1 ,2 )', '', 'SUB(1 2)',
                 '12', ' 12.50 ', 'GT(TIME(), 1552559696)', 'MUL($, 3.14159265)', '$', '@', '']
    hub_texts += [texts[ctx.rng.randrange(len(texts))] for _ in range(ctx.n(600, 6000))]
    run_hub(ctx, res, hub_texts)
    # the set of known functions can change while the hub runs (HISTORY exists only with a samples-capable driver and
    # history support): the same process parses with HISTORY available, then unavailable again
    hist_texts = ['HISTORY(@p1, 1, 2)', ' HISTORY( @ , 0,0)', 'ADD(HISTORY(@a.b, 1, -1), 1)', 'HISTORY($p1, 1, 2)', 'HISTORY(@p1, 1)',
                  'NOSUCH(1)', 'ADD(1, 2)'] + [t for t in texts if 'HISTORY' in t][:200]
    try:
        for phase, enabled in (('h1', True), ('h0', False), ('h2', True)):
            set_history(enabled)
            if bool(history.is_enabled()) != enabled:
                res['tie_failures'].append('could not switch history availability to %s' % enabled)
                break
            extra = run_batch(ctx, res, hist_texts, enabled, phase)
            texts += hist_texts
            allres += extra
    finally:
        set_history(False)
    # non-ASCII letters / digits inside port ids and function names
    na = non_ascii_cases(ctx.rng, g, ctx.n(300, 5000))
    na_res = run_impl(na)
    d0 = res['distribution']
    for s_, r_ in zip(na, na_res):
        d0['non_ascii_cases'] = d0.get('non_ascii_cases', 0) + 1
        ok = r_[0] != 'ok'           # must be rejected (another error of the mutated text may be reported first)
        if not ok:
            res['violations'].append({
                'key': {'kind': 'non-ascii-in-name-or-id'},
                'what': 'text %r has a non-ASCII character inside a port id or function name and is %s' % (
                    s_, 'accepted' if r_[0] == 'ok' else 'not rejected cleanly: %r' % (r_[1],)),
                'case': {'text': s_}, 'observed': _short(r_)})
    res['evaluations'] += len(na)
    res['evaluations'] += len(texts)
    res['distinct_nontrivial'] = len({s for s in texts if '(' in s})
    d = res['distribution']
    for s, r in zip(texts, allres):
        k = 'accepted' if r[0] == 'ok' else ('rejected:' + r[1].get('reason', '?') if r[0] == 'err' else 'crash')
        d[k] = d.get(k, 0) + 1
    d['history_enabled'] = hist
    for s, r in list(zip(texts, allres))[:8]:
        res['samples'].append({'text': s, 'implementation': _short(r)})
    res['extra']['wall_cases_s'] = round(time.time() - t0, 2)


def search(ctx, res):
    check(ctx, res)


REPLAY_HELP = 'in /repo: qtoggleserver.core.expressions.parse("self", <text>, ROLE_VALUE); compare str() / to_json() of the error'

LEVEL_TEXT = (
    'Coq theorems over a Gallina model of the parser (strip / dispatch / the single left-to-right scan of Function.parse with '
    'its index bookkeeping / literal recognisers with correctly rounded decimal->float / port ids / every error with reason, '
    'token and position) and of the printer: every accepted text yields a well-formed tree (names registered and enabled, '
    'arity within bounds, argument kinds admissible, literal text valid), and the canonical text of every well-formed tree '
    'parses back to exactly that tree (so printing is a parse fixpoint; same structure, dependencies and literal values), for '
    'trees of any depth and width. The registry is regenerated from the source on every run; model, grammar oracle and the real '
    'parser are compared on generated and mutated texts including error reason/token/position.'
)
LEVEL_NOTE = (
    'Trusted: Coq kernel incl. vm_compute; translator functable.py; correspondence harness/generator; Python str/int/float/re '
    'behaviour on ASCII is modelled and tied by the correspondence only. The independent grammar recogniser (accept iff '
    'derivable) is tied to parser and implementation by test, not by theorem — partial for the "iff grammar" half.'
)
TECHNIQUE = 'Coq proof (induction over trees, scan invariant) + registry translator + vm_compute correspondence on mutated texts'
