"""C05 — API value writes are validated against the port's declared value domain.

Theorems: coq/theories/Props/C05.v.
Tie: (T) Gen/C05Gen.v — the shape of the step test and of the non-finite guard in patch_port_value / patch_port_sequence is
re-read from core/api/funcs/ports.py on every run (fail closed) — + (C) port definitions x JSON bodies sent through the REAL
patch_port_value / patch_port_sequence (real core_ports.load, real MockAPIRequest of the repo's tests, a recording driver
port), compared with the Coq model (vm_compute, floats bit for bit) and with the Coq specification oracle (exact rationals,
binary and decimal reading).
"""
import ast
import asyncio
import itertools
import json
import math
import os
import time
from decimal import Decimal
from fractions import Fraction

from harness.common import coq, pyvals, repo

ID = 'C05'
PROPS = 'theories/Props/C05.v'
MODEL_TARGETS = ['theories/C05/Run.vo']
TIE = ('translator (shape of the step test and of the non-finite guard in both API functions) + correspondence by vm_compute '
       'on definitions x JSON bodies through the real patch_port_value / patch_port_sequence')
ALLOWED_AXIOMS = []
TRUSTED_BASE = [
    'harness/props/c05.py:translate_rules (reads the step test / non-finite guard of both API functions, fail closed)',
    'correspondence harness harness/props/c05.py: recording driver port (subclass of core_ports.Port declaring TYPE/MIN/MAX/'
    'INTEGER/STEP/CHOICES/WRITABLE as real drivers do), repo test MockAPIRequest, in-memory persistence',
    'modelled, not verified: jsonschema 4.x Draft4Validator (keywords enum, minimum, maximum, type), json.loads, CPython '
    'numeric semantics (Base/PyNum.v), float.__repr__ (C05/Repr.v, tied on every float of every case), fractions.Fraction, '
    'the write-transform expressions MUL/ADD/NOT/SUB/DIV/MOD as used by the harness (numeric literals evaluate to floats), '
    'json_utils.dumps (overflow on huge ints)',
]
ASSUMPTIONS = [
    'C05_accept_iff_exact is proved for integer-valued inputs (JSON integers; min / max / step / choices integers), where '
    'Python arithmetic is exact by construction; with the exact decimal step test (fix) C05_fixed_accept_iff_decimal has no such '
    'premise (finite inputs, non-NaN bounds)',
    'spec silent (model-vs-code only): integer-valued float literals (3.0) on integer ports; boolean ports that declare '
    'min/max/step/integer; choices together with min+step; transforms that raise on the value',
    'without a write transform the driver receives the request\'s own number (an int on a non-integer number port stays an '
    'int): accepted as "of the port type" (observation O1)',
    'driver failures (PortTimeout/PortError -> 504/502) and the 202-vs-204 distinction are outside the statement',
]

SRC = repo.path('qtoggleserver/core/api/funcs/ports.py')

# ----------------------------------------------------------------------------------------------------------------
# (T) translator: which step test / non-finite guard does the source contain?

HELPER_SRC = '''
def _on_step_grid(value, min_, step):
    try:
        value, min_, step = (
            fractions.Fraction(repr(n)) if isinstance(n, float) else fractions.Fraction(n) for n in (value, min_, step)
        )
    except ValueError:
        return False

    return not (value - min_) % step
'''
GUARD_TEST = 'isinstance(value, float) and not math.isfinite(value)'
STEP_PREFIX = ['None not in (step, min_)', 'step != 0']
STEP_BINARY = '(value - min_) % step'
STEP_DECIMAL = 'not _on_step_grid(value, min_, step)'


class Untranslatable(Exception):
    pass


def _dump(node):
    return ast.dump(node, annotate_fields=False, include_attributes=False)


def _expr_dump(text):
    return _dump(ast.parse(text, mode='eval').body)


def _strip_fn(fn):
    """body of a function without annotations / docstring, dumped"""
    body = [st for st in fn.body
            if not (isinstance(st, ast.Expr) and isinstance(st.value, ast.Constant) and isinstance(st.value.value, str))]
    args = [a.arg for a in fn.args.args]
    return args, [_dump(st) for st in body]


def _raises_400(st):
    return (len(st.body) == 1 and isinstance(st.body[0], ast.Raise) and not st.orelse
            and isinstance(st.body[0].exc, ast.Call) and _dump(st.body[0].exc.func) == _expr_dump('core_api.APIError')
            and st.body[0].exc.args and isinstance(st.body[0].exc.args[0], ast.Constant) and st.body[0].exc.args[0].value == 400)


def _scan(stmts, helper_ok):
    """-> (rule, guard) read from a statement list: exactly one step `if`, optionally preceded by the non-finite guard"""
    rule, guard = None, False
    prefix = [_expr_dump(t) for t in STEP_PREFIX]
    for st in stmts:
        if not isinstance(st, ast.If):
            continue
        t = st.test
        if _dump(t) == _expr_dump(GUARD_TEST):
            if not _raises_400(st) or rule is not None:
                raise Untranslatable('non-finite guard in an unexpected place / with an unexpected body')
            guard = True
            continue
        if isinstance(t, ast.BoolOp) and isinstance(t.op, ast.And) and len(t.values) == 3 and [_dump(v) for v in t.values[:2]] == prefix:
            if rule is not None:
                raise Untranslatable('more than one step test')
            if not _raises_400(st):
                raise Untranslatable('step test does not raise APIError(400, ...)')
            last = _dump(t.values[2])
            if last == _expr_dump(STEP_BINARY):
                rule = 'SBinary'
            elif last == _expr_dump(STEP_DECIMAL):
                if not helper_ok:
                    raise Untranslatable('_on_step_grid is not the helper this translator knows')
                rule = 'SDecimal'
            else:
                raise Untranslatable('unknown step test: ' + ast.unparse(t.values[2])[:80])
    if rule is None:
        raise Untranslatable('no step test of a known shape')
    return rule, guard


def read_rules():
    with open(SRC) as f:
        tree = ast.parse(f.read())
    fns = {n.name: n for n in tree.body if isinstance(n, (ast.FunctionDef, ast.AsyncFunctionDef))}
    helper_ok = False
    if '_on_step_grid' in fns:
        want = ast.parse(HELPER_SRC).body[0]
        helper_ok = _strip_fn(fns['_on_step_grid']) == _strip_fn(want)
    for name in ('patch_port_value', 'patch_port_sequence'):
        if name not in fns:
            raise Untranslatable(name + ' not found')
    # every use of `%` / _on_step_grid on `value` must be inside the statements we read
    rv = _scan(fns['patch_port_value'].body, helper_ok)
    loops = [st for st in fns['patch_port_sequence'].body
             if isinstance(st, ast.For) and isinstance(st.target, ast.Name) and st.target.id == 'value'
             and _dump(st.iter) == _expr_dump('values') and not st.orelse]
    if len(loops) != 1:
        raise Untranslatable('patch_port_sequence: expected one `for value in values` loop')
    rs = _scan(loops[0].body, helper_ok)
    # order in patch_port_value: schema validation, [guard], step test, enabled, writable, write
    return {'value': rv, 'sequence': rs}


def gen_text(rules):
    b = lambda x: 'true' if x else 'false'  # noqa: E731
    return (
        '(* generated by harness/props/c05.py (translate_rules) from %s — do not edit *)\n'
        'From QT Require Import C05.Model.\n'
        'Definition step_rule_value : step_rule := %s.\n'
        'Definition step_rule_sequence : step_rule := %s.\n'
        'Definition finite_guard_value : bool := %s.\n'
        'Definition finite_guard_sequence : bool := %s.\n'
        % (SRC, rules['value'][0], rules['sequence'][0], b(rules['value'][1]), b(rules['sequence'][1]))
    )


def translate_rules(ctx=None):
    try:
        rules = read_rules()
    except Untranslatable as e:
        # keep the model buildable: fall back to the last generated file, or to the shapes of the code as first read
        if not os.path.exists(os.path.join(coq.THEORIES, 'Gen', 'C05Gen.v')):
            coq.write_gen('C05Gen.v', gen_text({'value': ('SBinary', False), 'sequence': ('SBinary', False)}))
        return {'status': 'untranslatable', 'detail': str(e)}
    coq.write_gen('C05Gen.v', gen_text(rules))
    return {'status': 'ok', 'detail': 'value: %s guard=%s; sequence: %s guard=%s' % (rules['value'] + rules['sequence'])}


TRANSLATORS = [translate_rules]

# ----------------------------------------------------------------------------------------------------------------
# generator: port definitions x JSON bodies

TRANSFORMS = {0: None, 1: 'MUL($, 2)', 2: 'ADD($, 1)', 3: 'NOT($)', 4: 'SUB(10, $)', 5: 'DIV(1, $)', 6: 'DIV($, 4)', 7: 'MOD(7, $)',
              8: 'DIV($, SUB($, 3))'}
# in-domain values on which a (partial) transform fails to evaluate: the request must be refused, the driver untouched;
# always part of the quick slice of a definition with that transform
TRANSFORM_FAILS = {5: [0, 0.0, False], 7: [0, 0.0, False], 8: [3, 3.0]}
STEPS = [None, 1, 5, 0.5, 0.25, 0.1, 0.01]
MINS = [0, 1, -5, 0.5, 0.1, -2.5, 10]
MAXS = [10, 100, 5, 1, 0.9, 7.5, 255]
BOUNDS = ([(None, None)] + [(m, None) for m in MINS] + [(None, m) for m in MAXS]
          + [(0, 10), (0, 100), (1, 5), (-5, 5), (0.5, 7.5), (0.1, 0.9), (0, 1), (-2.5, 255), (10, 100), (0, 0.9)])
CHOICES = [[1, 2, 3], [0, 1], [0.5, 1.5, 2.5], [True, False], [0.1, 0.2, 0.3], [], [1, 2.5, 1e100, 2 ** 53 + 1]]
HUGE = 10 ** 400


def mk_def(type_='number', min_=None, max_=None, integer=False, step=None, choices=None, transform=0, enabled=True,
           writable=True, exists=True):
    return {'type': type_, 'min': min_, 'max': max_, 'integer': integer, 'step': step, 'choices': choices,
            'transform': transform, 'enabled': enabled, 'writable': writable, 'exists': exists}


BOUNDS_FULL = ([(None, None)] + [(m, None) for m in MINS] + [(None, m) for m in MAXS]
               + [(a, b) for a in MINS for b in MAXS if a < b])


def all_definitions(full=False):
    defs = []
    for (mn, mx), integer, step in itertools.product(BOUNDS_FULL if full else BOUNDS, [False, True], STEPS):
        defs.append(mk_def(min_=mn, max_=mx, integer=integer, step=step))
    # integer attribute given as a float-typed bound too (MIN = 0.0)
    for step in STEPS:
        defs.append(mk_def(min_=0.0, max_=10.0, step=step))
        defs.append(mk_def(min_=0.0, max_=10.0, step=step, integer=True))
    # choices (with and without min + step)
    for ch in CHOICES:
        defs.append(mk_def(choices=ch))
        defs.append(mk_def(choices=ch, min_=0, max_=2))
        defs.append(mk_def(choices=ch, min_=0, step=2))
        defs.append(mk_def(type_='boolean', choices=ch))
    # boolean ports, plain and with (meaningless) numeric attributes
    defs.append(mk_def(type_='boolean'))
    for t in (1, 2, 3):
        defs.append(mk_def(type_='boolean', transform=t))
    defs.append(mk_def(type_='boolean', min_=0, step=1))
    defs.append(mk_def(type_='boolean', min_=0, max_=0))
    defs.append(mk_def(type_='boolean', integer=True))
    defs.append(mk_def(type_='boolean', min_=0, step=5))
    # enabled / writable / existence
    for base in (mk_def(), mk_def(min_=0, max_=10, step=1), mk_def(min_=0, step=0.1), mk_def(type_='boolean'),
                 mk_def(choices=[1, 2, 3]), mk_def(integer=True, min_=0, max_=100)):
        for en, wr, ex in ((False, True, True), (True, False, True), (False, False, True), (True, True, False)):
            d = dict(base)
            d.update(enabled=en, writable=wr, exists=ex)
            defs.append(d)
    # write transforms
    defs.append(mk_def(type_='boolean', transform=5))
    defs.append(mk_def(type_='boolean', transform=7))
    for t in range(1, 9):
        defs.append(mk_def(transform=t))
        defs.append(mk_def(transform=t, integer=True))
        defs.append(mk_def(transform=t, min_=0, max_=10, step=0.5))
        defs.append(mk_def(transform=t, min_=0, max_=100, integer=True, step=5))
        defs.append(mk_def(transform=t, min_=0, step=0.1))
    # zero / degenerate steps
    defs.append(mk_def(min_=0, step=0))
    defs.append(mk_def(min_=0, step=0.0))
    defs.append(mk_def(min_=1, step=-0.5))
    defs.append(mk_def(min_=0.1, step=0.2))
    defs.append(mk_def(min_=0.1, max_=2, step=0.1))
    defs.append(mk_def(min_=0.5, step=1))
    defs.append(mk_def(min_=0.5, step=1, integer=True))
    return defs


GENERIC = [True, False, None, '3', '', [], {}, [1], {'a': 1}, 0, 1, -1, 2, 3, 3.0, 2.5, 0.3, 0.1, 0.2, 0.7, 0.30000000000000004,
           1e308, -1e308, 2 ** 53 - 1, 2 ** 53, 2 ** 53 + 1, 2 ** 53 + 2, float(2 ** 53), float(2 ** 53 + 2), HUGE, -HUGE,
           float('nan'), float('inf'), float('-inf'), -0.0, 5e-324, 1e-7, 7, 10, 10.0, 100, 0.5, 1.5, 1e16, 1e22, 6, 5.0]


def _num(x):
    return isinstance(x, (int, float)) and not isinstance(x, bool)


def _around(b):
    """values at and next to a bound"""
    out = [b]
    if isinstance(b, float) or _num(b):
        f = float(b)
        out += [math.nextafter(f, math.inf), math.nextafter(f, -math.inf), f]
        if f == int(f):
            out += [int(f), int(f) + 1, int(f) - 1]
        out += [b + 1, b - 1, b + 0.5]
    return out


def dec_grid_point(mn, st, k):
    """min + k * step computed exactly on the decimal representations, as the float nearest to it"""
    d = Decimal(repr(mn)) + k * Decimal(repr(st))
    f = float(d)
    return int(f) if (isinstance(mn, int) and isinstance(st, int)) else f


def values_for(d):
    vals = list(GENERIC)
    for b in (d['min'], d['max']):
        if b is not None:
            vals += _around(b)
    st = d['step']
    base = d['min'] if d['min'] is not None else 0
    if st:
        for k in (0, 1, 2, 3, 4, 7, 10, 13, 100, 1000, -1):
            g = dec_grid_point(base, st, k)
            fl = base + k * st                      # the float computation
            vals += [g, fl]
            if isinstance(g, float):
                vals += [math.nextafter(g, math.inf), math.nextafter(g, -math.inf)]
            if k in (1, 3, 10):
                vals += [g + st / 2, dec_grid_point(base, st, k) + st / 3]
            if isinstance(g, float) and g == int(g) and abs(g) < 2 ** 60:
                vals.append(int(g))
            if isinstance(g, int):
                vals.append(float(g))
        if d['max'] is not None:
            vals += [d['max'] - st, d['max'] + st]
    if d['choices'] is not None:
        for c in d['choices']:
            vals += [c]
            if _num(c):
                vals += [float(c) if abs(c) < 1e300 else c, math.nextafter(float(c), math.inf)]
                if float(c) == int(c):
                    vals += [int(c), bool(c) if c in (0, 1) else int(c)]
    # dedupe on exact identity (type + bits)
    seen, out = set(), []
    for v in vals:
        k = _vkey(v)
        if k not in seen:
            seen.add(k)
            out.append(v)
    return out


def _vkey(v):
    if isinstance(v, float):
        return ('f', v.hex())
    if isinstance(v, (list, dict)):
        return ('j', json.dumps(v, sort_keys=True))
    return (type(v).__name__, v)


def body_of(v):
    """the request body text for a value"""
    if isinstance(v, float):
        if v != v:
            return b'NaN'
        if math.isinf(v):
            return b'1e400' if v > 0 else b'-Infinity'
        return repr(v).encode()
    return json.dumps(v).encode()


def sequences_for(d, vals, rng, n):
    """n sequence requests: lists of values from the definition's pool (mostly numbers), well-formed and malformed bodies"""
    nums = [v for v in vals if isinstance(v, (bool, int, float))]
    out = []
    for _ in range(n):
        k = rng.choice([0, 1, 2, 3, 4])
        pool = nums if rng.random() < 0.85 else vals
        values = [rng.choice(pool) for _ in range(k)]
        delays = [rng.choice([0, 10, 500]) for _ in range(k)]
        r = rng.random()
        if r < 0.06:
            delays = delays + [5]
        elif r < 0.09 and delays:
            delays[0] = 'x'
        repeat = 1 if r < 0.97 else 'once'
        out.append({'values': values, 'delays': delays, 'repeat': repeat})
    return out


# ----------------------------------------------------------------------------------------------------------------
# implementation side

class Impl:
    inst = None

    def __init__(self):
        import logging
        logging.getLogger('qtoggleserver.drivers.persist.json').setLevel(logging.ERROR)
        logging.getLogger('qtoggleserver').setLevel(logging.CRITICAL + 1)
        from qtoggleserver.conf import settings
        settings.persist.driver = 'qtoggleserver.drivers.persist.JSONDriver'
        settings.persist.file_path = None
        from qtoggleserver import persist  # noqa: F401
        from qtoggleserver.core import expressions  # noqa: F401  (import order, as in the repo's conftest)
        from qtoggleserver.core import api as core_api
        from qtoggleserver.core import ports as core_ports
        from qtoggleserver.core.api.funcs import ports as api_ports
        try:
            from tests.qtoggleserver.mock.api import MockAPIRequest
        except Exception:  # noqa: BLE001  the repo's test helper is not importable: same object built here
            MockAPIRequest = None
        self.core_api, self.core_ports, self.api_ports, self.MockAPIRequest = core_api, core_ports, api_ports, MockAPIRequest

        class RecPort(core_ports.Port):
            def __init__(self, port_id):
                super().__init__(port_id)
                self.written = []
                self.seq_calls = []
                self.write_delay = 0
                self.gate = None          # asyncio.Event: the driver write blocks until it is set
                self.play = False         # True: set_sequence really installs and plays the sequence

            async def read_value(self):
                raise core_ports.SkipRead()

            async def write_value(self, value):
                if self.gate is not None:
                    await self.gate.wait()
                if self.write_delay:
                    await asyncio.sleep(self.write_delay)     # a slow driver: writes issued meanwhile overlap with this one
                self.written.append(value)

            async def set_sequence(self, values, delays, repeat):
                self.seq_calls.append((list(values), list(delays), repeat))
                if self.play:
                    await core_ports.Port.set_sequence(self, values, delays, repeat)

        self.RecPort = RecPort
        self.counter = 0
        self.cleared_transforms = 0

    @classmethod
    def get(cls):
        if cls.inst is None:
            cls.inst = Impl()
        return cls.inst

    def request(self, method, path, body):
        headers = {'Content-Type': 'application/json'}
        if self.MockAPIRequest is not None:
            return self.MockAPIRequest(method, path, body=body, headers=headers, access_level=self.core_api.ACCESS_LEVEL_NORMAL)
        from unittest import mock
        from qtoggleserver.web.handlers import APIHandler
        handler = APIHandler(application=mock.MagicMock(),
                             request=mock.MagicMock(headers=headers, method=method, path=path, query={}, body=body))
        handler.access_level = self.core_api.ACCESS_LEVEL_NORMAL
        return self.core_api.APIRequest(handler)

    async def make_port(self, d, queue_size=None):
        self.counter += 1
        # the type is a run-time string (as for ports created from a JSON body / persisted data), never the very object of the
        # TYPE_BOOLEAN / TYPE_NUMBER constants: code comparing types by identity shows
        attrs = {'TYPE': json.loads(json.dumps(''.join(list(d['type'])))), 'WRITABLE': bool(d['writable'])}
        if queue_size:
            attrs['WRITE_VALUE_QUEUE_SIZE'] = queue_size
        for k in ('min', 'max', 'step'):
            if d[k] is not None:
                attrs[k.upper()] = d[k]
        if d['integer']:
            attrs['INTEGER'] = True
        if d['choices'] is not None:
            attrs['CHOICES'] = [{'value': c, 'display_name': 'choice %d' % i} for i, c in enumerate(d['choices'])]
        cls = type('RecPort%d' % self.counter, (self.RecPort,), attrs)
        pid = 'c05p%d' % self.counter
        port = (await self.core_ports.load([{'driver': cls, 'port_id': pid}]))[0]
        if d['enabled']:
            await port.enable()
        if TRANSFORMS[d['transform']]:
            if self.counter % 2 == 0:
                await port.set_attr('transform_write', 'MUL($, 3)')      # replaced below: the declared transform is the last one set
            await port.set_attr('transform_write', TRANSFORMS[d['transform']])
            if port._transform_write is None:
                raise RuntimeError('transform_write not set')
        elif d['writable'] and self.counter % 2 == 0:
            # a transform was set and then removed again (transform_write = ""): the port declares none, values go untransformed
            await port.set_attr('transform_write', 'MUL($, 3)')
            await port.set_attr('transform_write', '')
            if await port.get_attr('transform_write') != '':
                raise RuntimeError('transform_write not cleared')
            self.cleared_transforms += 1
        return port

    async def drop_port(self, port):
        try:
            await port.remove(persisted_data=False)
        except BaseException:  # noqa: BLE001  (the cancelled write task is re-raised by cleanup)
            pass
        for t in (port._write_value_task, port._eval_task):
            if t is not None and not t.done():
                t.cancel()
                try:
                    await t
                except BaseException:  # noqa: BLE001
                    pass
        self.core_ports._ports_by_id.pop(port.get_id(), None)

    def classify(self, exc):
        """exception -> model error name (None = outside the model alphabet)"""
        core_api = self.core_api
        if exc is None or isinstance(exc, core_api.APIAccepted):
            return 'Accepted'
        if isinstance(exc, core_api.APIError):
            key = (exc.status, exc.code)
            if key == (404, 'no-such-port'):
                return 'E404'
            if exc.status == 400 and exc.code in ('invalid-value', 'invalid-field', 'invalid-request', 'missing-field'):
                return 'EInvalid'
            if key == (400, 'port-disabled'):
                return 'EDisabled'
            if key == (400, 'read-only-port'):
                return 'EReadOnly'
            if key == (400, 'port-with-expression'):
                return 'EWithExpression'
            if key == (500, 'unexpected-error'):
                return 'E500'
            return None
        if isinstance(exc, Exception):
            return 'E500'       # uncaught: the web layer answers 500
        return None

    OTHER = {'number': 987654.25, 'boolean': False}

    async def run_def(self, d, bodies, seqs):
        """-> (value results, sequence results).  A value result is (body, r, info); r = {'json': parsed body, 'outcome':
        str|None, 'raw': str, 'written': [...], 'seq': [...], 'state_changed': bool}; info says what the port's last read
        value was.  The port's last read value is, in turn: None (fresh port); a value of the port's type that differs from
        the written one; and — second step on the same port — EXACTLY the value the driver received for the same body a
        moment ago (the same value written twice: it must be delivered twice)."""
        port = await self.make_port(d)
        pid = port.get_id() if d['exists'] else 'c05-no-such-port'
        out_v, out_s = [], []
        try:
            for i, body in enumerate(bodies):
                if i % 4 == 1:
                    last = self.OTHER[d['type']]
                    port.set_last_read_value(last)
                    out_v.append((body, await self.one(port, pid, 'value', body), {'last_read': describe(last)}))
                    port.set_last_read_value(None)
                    continue
                r = await self.one(port, pid, 'value', body)
                out_v.append((body, r, {'last_read': None}))
                if i % 4 != 3 and r['outcome'] == 'Accepted' and len(r['written']) == 1 and r['written'][0] is not None:
                    w = r['written'][0]
                    port.set_last_read_value(w)
                    out_v.append((body, await self.one(port, pid, 'value', body),
                                  {'last_read': describe(w), 'step': 'same request again; last read value = the value just delivered'}))
                    port.set_last_read_value(None)
            for params in seqs:
                out_s.append(await self.one(port, pid, 'sequence', json.dumps(params).replace('Infinity', '1e400').encode()))
        finally:
            await self.drop_port(port)
        return out_v, out_s

    async def run_overlap(self, d, body_a, body_b, delay=0.003):
        """a is current (last read value), b is written on a slow driver and, while that write is in flight, a is written
        again: both are accepted, the driver must receive b then a.  -> value results as in run_def, or [] when a / b are not
        accepted on a fresh port."""
        port = await self.make_port(d)
        pid = port.get_id()
        out = []
        try:
            ra = await self.one(port, pid, 'value', body_a)
            if not (ra['outcome'] == 'Accepted' and len(ra['written']) == 1 and ra['written'][0] is not None):
                return []
            wa = ra['written'][0]
            port.set_last_read_value(wa)
            port.write_delay = delay
            port.written.clear()
            info = {'last_read': describe(wa), 'step': 'slow driver (%g s per write): b, then a while b is in flight' % delay}
            t1 = asyncio.create_task(self.one(port, pid, 'value', body_b, clear=False))
            await asyncio.sleep(delay / 3)
            t2 = asyncio.create_task(self.one(port, pid, 'value', body_a, clear=False))
            rs = list(await asyncio.gather(t1, t2))
            calls = list(port.written)
            accepted = [r for r in rs if r['outcome'] == 'Accepted']
            if len(calls) == len(accepted):
                for r in rs:
                    r['written'] = [calls.pop(0)] if r['outcome'] == 'Accepted' else []
            else:
                for r in rs:
                    r['written'] = []
                    r['delivery_mismatch'] = {'accepted_requests': len(accepted), 'driver_calls': [describe(c) for c in port.written]}
            out = [(body_b, rs[0], dict(info, request='b')), (body_a, rs[1], dict(info, request='a'))]
            # burst: four writes launched in the same event-loop iteration (b, a, b, a) on the slow driver: several are pending
            # in the port's write queue at once (far below its capacity, nothing may be dropped); all accepted, the driver
            # must receive all four, in submission order
            port.written.clear()
            info = {'last_read': describe(wa), 'step': 'slow driver (%g s per write): burst b, a, b, a launched together; '
                                                       'several writes pending in the queue at once' % delay}
            burst = [body_b, body_a, body_b, body_a]
            tasks = [asyncio.create_task(self.one(port, pid, 'value', b, clear=False)) for b in burst]
            rs = list(await asyncio.gather(*tasks))
            calls = list(port.written)
            accepted = [r for r in rs if r['outcome'] == 'Accepted']
            if len(calls) == len(accepted):
                for r in rs:
                    r['written'] = [calls.pop(0)] if r['outcome'] == 'Accepted' else []
            else:
                for r in rs:
                    r['written'] = []
                    r['delivery_mismatch'] = {'accepted_requests': len(accepted), 'driver_calls': [describe(c) for c in port.written]}
            out += [(b, r, dict(info, request='burst %d' % i)) for i, (b, r) in enumerate(zip(burst, rs))]
        finally:
            port.write_delay = 0
            await self.drop_port(port)
        return out

    @staticmethod
    def _assign(rs, calls):
        """hand the driver calls, in order, to the accepted requests, in submission order; a count mismatch is recorded"""
        accepted = [r for r in rs if r['outcome'] == 'Accepted']
        if len(calls) == len(accepted):
            calls = list(calls)
            for r in rs:
                r['written'] = [calls.pop(0)] if r['outcome'] == 'Accepted' else []
        else:
            for r in rs:
                r['written'] = []
                r['delivery_mismatch'] = {'accepted_requests': len(accepted), 'driver_calls': [describe(c) for c in calls]}

    async def run_fresh_concurrent(self, d, body_ok, body_bad):
        """the very first two requests a port ever gets, overlapping in time: a value the definition accepts and one it
        refuses, launched together on a fresh port (nothing about the port has been computed / memoised yet); each must be
        answered as if it were alone"""
        port = await self.make_port(d)
        pid = port.get_id()
        try:
            info = {'last_read': None, 'step': 'fresh port: the first two requests it ever gets, launched together'}
            tasks = [asyncio.create_task(self.one(port, pid, 'value', b, clear=False)) for b in (body_ok, body_bad)]
            rs = list(await asyncio.gather(*tasks))
            self._assign(rs, list(port.written))
            return [(body_ok, rs[0], dict(info, request='first')), (body_bad, rs[1], dict(info, request='second'))]
        finally:
            await self.drop_port(port)

    async def run_queue_full(self, d, bodies, capacity=4, extra=2):
        """a port whose write queue holds `capacity` entries and whose driver write is blocked: one write enters the driver,
        capacity + extra more are submitted (the oldest pending ones are evicted and their requests answered with an error),
        then the driver is released: every request answered 2xx must have reached the driver, in submission order.
        -> (value results of the requests answered 2xx or unexpectedly, number of requests evicted with 500)"""
        port = await self.make_port(d, queue_size=capacity)
        pid = port.get_id()
        n = 1 + capacity + extra
        seq = [bodies[i % len(bodies)] for i in range(n)]
        try:
            port.gate = asyncio.Event()
            tasks = [asyncio.create_task(self.one(port, pid, 'value', seq[0], clear=False))]
            for _ in range(50):
                await asyncio.sleep(0)
                if port._writing:
                    break
            for b in seq[1:]:
                tasks.append(asyncio.create_task(self.one(port, pid, 'value', b, clear=False)))
                for _ in range(3):
                    await asyncio.sleep(0)
            port.gate.set()
            rs = list(await asyncio.gather(*tasks))
            self._assign(rs, list(port.written))
            info = {'last_read': None, 'step': 'write queue of %d entries, blocked driver, %d writes submitted, then released' % (capacity, n)}
            out, evicted = [], 0
            for i, (b, r) in enumerate(zip(seq, rs)):
                if r['outcome'] == 'E500' and not r.get('delivery_mismatch') and 0 < i <= extra:
                    evicted += 1          # QueueFull -> 500: the request was told; outside the model (which has no queue)
                    continue
                out.append((b, r, dict(info, request='write %d of %d' % (i + 1, n))))
            return out, evicted
        finally:
            port.gate = None
            await self.drop_port(port)

    async def run_playback(self, d, values, delay_ms=2):
        """an accepted PATCH sequence is really installed and played once: -> (request result, values, driver calls while it
        played) or None when the request is not accepted"""
        port = await self.make_port(d)
        pid = port.get_id()
        try:
            port.play = True
            params = {'values': values, 'delays': [delay_ms] * len(values), 'repeat': 1}
            r = await self.one(port, pid, 'sequence', json.dumps(params).encode())
            if r['outcome'] != 'Accepted':
                return None
            # the last element is handed to a fire-and-forget task just before the sequence reports its end: wait until the
            # sequence is gone, the queue is idle and the driver calls have been stable for a few milliseconds
            stable, seen = 0, -1
            for _ in range(600):
                idle = port._sequence is None and port._write_value_queue.empty() and not port._writing
                if idle and len(port.written) == seen:
                    stable += 1
                    if stable >= 15:
                        break
                else:
                    stable = 0
                seen = len(port.written)
                await asyncio.sleep(0.001)
            return r, values, list(port.written)
        finally:
            port.play = False
            await self.drop_port(port)

    async def one(self, port, pid, entry, body, clear=True):
        req = self.request('PATCH', '/api/ports/%s/%s' % (pid, entry), body)
        handler = req.handler
        if clear:
            port.written.clear()
            port.seq_calls.clear()
        before = (port.get_last_read_value(), port._sequence, port.is_enabled())
        params = handler.get_request_json()
        exc = None
        try:
            fn = self.api_ports.patch_port_value if entry == 'value' else self.api_ports.patch_port_sequence
            await fn(handler, pid, params)
        except Exception as e:  # noqa: BLE001  (APIAccepted = 202 is an Exception too)
            exc = e
        after = (port.get_last_read_value(), port._sequence, port.is_enabled())
        raw = 'ok' if exc is None else '%s%s' % (type(exc).__name__, (':%s:%s' % (exc.status, exc.code)) if hasattr(exc, 'code') else '')
        return {'json': params, 'outcome': self.classify(exc), 'raw': raw, 'written': list(port.written),
                'seq': [s[0] for s in port.seq_calls], 'state_changed': before != after}


# ----------------------------------------------------------------------------------------------------------------
# Coq literals

def c_json(v):
    if v is None:
        return 'JNull'
    if isinstance(v, bool):
        return '(JBool %s)' % coq.boolean(v)
    if isinstance(v, int):
        return '(JInt %s)' % coq.z(v)
    if isinstance(v, float):
        return '(JFloat %s)' % pyvals.sf(v)
    if isinstance(v, str):
        return '(JStr %s)' % coq.string(v)
    if isinstance(v, list):
        return '(JArr %s)' % coq.lst([c_json(x) for x in v])
    if isinstance(v, dict):
        return '(JObj %s)' % coq.lst(['(%s, %s)' % (coq.string(k), c_json(x)) for k, x in v.items()])
    raise TypeError(repr(v))


def c_pdesc(d):
    return ('{| d_bool := %s; d_min := %s; d_max := %s; d_integer := %s; d_step := %s; d_choices := %s; '
            'd_transform := %d; d_enabled := %s; d_writable := %s |}' % (
                coq.boolean(d['type'] == 'boolean'), pyvals.opt_pyval(d['min']), pyvals.opt_pyval(d['max']),
                coq.boolean(d['integer']), pyvals.opt_pyval(d['step']),
                coq.option(d['choices'], lambda cs: coq.lst([pyvals.pyval(c) for c in cs])),
                d['transform'], coq.boolean(d['enabled']), coq.boolean(d['writable'])))


def c_def(d):
    return 'None' if not d['exists'] else '(Some %s)' % c_pdesc(d)


def c_obs(r):
    """None if the observation is outside the model alphabet"""
    if r['outcome'] is None:
        return None
    effects = []
    for w in r['written']:
        if w is None:
            effects.append('(DriverWrite None)')
        elif isinstance(w, (bool, int, float)):
            effects.append('(DriverWrite (Some %s))' % pyvals.pyval(w))
        else:
            return None
    for s in r['seq']:
        if not all(isinstance(x, (bool, int, float)) for x in s):
            return None
        effects.append('(SetSequence %s)' % coq.lst([pyvals.pyval(x) for x in s]))
    o = 'Accepted' if r['outcome'] == 'Accepted' else '(Rejected %s)' % r['outcome']
    return '(%s, %s)' % (o, coq.lst(effects))


def describe(v):
    if isinstance(v, float):
        return {'float': repr(v), 'hex': v.hex()}
    if isinstance(v, bool) or v is None or isinstance(v, str):
        return v
    if isinstance(v, int):
        return v if abs(v) < 2 ** 63 else {'int': str(v)}
    if isinstance(v, list):
        return [describe(x) for x in v]
    if isinstance(v, dict):
        return {k: describe(x) for k, x in v.items()}
    return repr(v)


def describe_def(d):
    return {k: describe(v) if k in ('min', 'max', 'step', 'choices') else v for k, v in d.items()} | {
        'transform': TRANSFORMS[d['transform']]}


def floats_in(x, acc):
    if isinstance(x, float):
        if x == x and not math.isinf(x):
            acc.add(x)
    elif isinstance(x, list):
        for y in x:
            floats_in(y, acc)
    elif isinstance(x, dict):
        for y in x.values():
            floats_in(y, acc)


def repr_row(x):
    t = Decimal(repr(x)).as_tuple()
    n = int(''.join(map(str, t.digits))) * (-1 if t.sign else 1)
    e = t.exponent
    while n != 0 and n % 10 == 0:
        n //= 10
        e += 1
    return '(%s, %s, %s)' % (pyvals.sf(x), coq.z(n), coq.z(e))


CLASSES = {2: 'decimal-step-grid', 3: 'non-finite-number', 4: 'rejected-inside-domain', 5: 'accepted-outside-domain',
           6: 'off-grid-accepted', 7: 'effect-on-reject', 8: 'wrong-delivery', 9: 'on-grid-rejected'}
CLASS_TEXT = {
    'decimal-step-grid': 'rejected although it lies on the declared decimal grid min + k*step (binary float remainder is not 0)',
    'non-finite-number': 'Infinity / NaN accepted and handed to the driver',
    'rejected-inside-domain': 'rejected although the value is in the declared domain',
    'accepted-outside-domain': 'accepted although the value is outside the declared domain',
    'off-grid-accepted': 'accepted although off the grid min + k*step',
    'on-grid-rejected': 'rejected by the step test although on the grid min + k*step (float rounding in value - min)',
    'effect-on-reject': 'rejected, yet the driver / the sequence / the port state was touched',
    'wrong-delivery': 'accepted, but the driver did not receive exactly coerce(transform(value))',
}

HEADER = 'From QT Require Import C05.Run.\nOpen Scope string_scope.\nOpen Scope Z_scope.\n'
SHARD = 800
JOBS = 2      # coqc processes at once (the machine is shared)


# ----------------------------------------------------------------------------------------------------------------
# running a batch of (definition, bodies, sequences)

def run_plan(ctx, res, plan, tag, overlap_budget=10 ** 9):
    """plan: list of (definition, [body bytes], [sequence params])"""
    impl = Impl.get()

    async def go():
        out = []
        n_overlap = 0
        for d, bodies, seqs in plan:
            rv, rs = await impl.run_def(d, bodies, seqs)
            # overlapping writes on a slow driver, with two distinct bodies this definition accepts
            acc = []
            for body, r, info in rv:
                if r['outcome'] == 'Accepted' and info.get('last_read') is None and body not in acc:
                    acc.append(body)
            bad = [body for body, r, info in rv if r['outcome'] == 'EInvalid' and body[:1] in b'-0123456789'
                   and isinstance(r['json'], (int, float)) and r['json'] == r['json'] and abs(r['json']) < 1e300]
            if acc and bad and n_fresh[0] < overlap_budget and d['exists']:
                n_fresh[0] += 1
                rv = rv + await impl.run_fresh_concurrent(d, acc[0], bad[n_fresh[0] % len(bad)])
            if len(acc) >= 2 and n_overlap < overlap_budget and d['exists']:
                n_overlap += 1
                rv = rv + await impl.run_overlap(d, acc[0], acc[-1])
                if n_overlap % 2 == 0 or d['transform']:
                    more, ev = await impl.run_queue_full(d, acc[:7])
                    rv = rv + more
                    evicted[0] += ev
            # an accepted sequence really played (always on the ports with a write transform)
            nums = [json.loads(b) for b in acc if b[:1] in b'-0123456789tf']
            if nums and d['exists'] and (d['transform'] or n_overlap % 3 == 0) and len(plays) < overlap_budget:
                p = await impl.run_playback(d, (nums + nums[:1])[:3])
                if p is not None:
                    plays.append((d,) + p)
            out.append((rv, rs))
        return out

    plays, evicted, n_fresh = [], [0], [0]

    t0 = time.time()
    results = asyncio.run(go())
    t_impl = time.time() - t0

    vrows, vmeta, srows, smeta = [], [], [], []
    floats = set()
    dist = res['distribution']

    def bump(k, n=1):
        dist[k] = dist.get(k, 0) + n

    for (d, bodies, seqs), (rv, rs) in zip(plan, results):
        floats_in([d['min'], d['max'], d['step'], d['choices']], floats)
        for body, r, info in rv:
            res['evaluations'] += 1
            bump('entry:value')
            bump('outcome:' + str(r['outcome']))
            bump('last-read-value:' + ('queue-full-scenario' if 'write queue' in info.get('step', '') else
                                       'fresh-port-concurrent-first-requests' if 'fresh port' in info.get('step', '') else
                                       'none' if info.get('last_read') is None else
                                       'overlapping-writes' if 'request' in info else
                                       'equals-delivered' if 'step' in info else 'other'))
            floats_in(r['json'], floats)
            case = {'entry': 'value', 'definition': describe_def(d), 'body': body.decode()}
            if info.get('last_read') is not None or info.get('step'):
                case['port_state'] = info
            if r.get('delivery_mismatch'):
                r2 = dict(r, raw='%s; %s' % (r['raw'], json.dumps(r['delivery_mismatch'])))
                res['violations'].append(violation('wrong-delivery', case, r2, d))
                continue
            obs = c_obs(r)
            if obs is None:
                res['tie_failures'].append({'case': case, 'implementation': r['raw'], 'note': 'observation outside the model alphabet'})
                continue
            if r['state_changed'] and r['outcome'] != 'Accepted':
                res['violations'].append(violation('effect-on-reject', case, r, d))
            vrows.append('(%s, %s, %s)' % (c_def(d), c_json(r['json']), obs))
            vmeta.append((d, case, r))
        for params, r in zip(seqs, rs):
            res['evaluations'] += 1
            bump('entry:sequence')
            bump('seq-outcome:' + str(r['outcome']))
            floats_in(r['json'], floats)
            case = {'entry': 'sequence', 'definition': describe_def(d), 'body': describe(params)}
            obs = c_obs(r)
            p = r['json']
            if obs is None or not (isinstance(p, dict) and set(p) == {'values', 'delays', 'repeat'}
                                   and isinstance(p['values'], list) and isinstance(p['delays'], list)):
                res['tie_failures'].append({'case': case, 'implementation': r['raw'], 'note': 'observation outside the model alphabet'})
                continue
            if r['state_changed'] and r['outcome'] != 'Accepted':
                res['violations'].append(violation('effect-on-reject', case, r, d))
            srows.append('(%s, %s, %s, %s, %s)' % (c_def(d), coq.lst([c_json(x) for x in p['values']]),
                                                   coq.lst([c_json(x) for x in p['delays']]), c_json(p['repeat']), obs))
            smeta.append((d, case, r))
    res['extra']['impl_wall_s'] = round(res['extra'].get('impl_wall_s', 0) + t_impl, 2)
    if not ctx.model_ok:
        res['tie_failures'].append('model not built; cases not evaluated')
        return

    shards, kinds = [], []
    for i in range(0, len(vrows), SHARD):
        shards.append('Definition cases : list vcase := [\n %s].\n' % ';\n '.join(vrows[i:i + SHARD]))
        kinds.append(('v', vmeta[i:i + SHARD]))
    t1 = time.time()
    outs = coq.eval_shards(ctx.workdir, 'c05v' + tag, HEADER, shards, ['bad_model cases', 'bad_spec cases', 'rule_flips cases', 'flips_lost cases', 'flips_lost_on_binary_grid cases'], jobs=JOBS)
    sshards, skinds = [], []
    for i in range(0, len(srows), SHARD):
        sshards.append('Definition cases : list scase := [\n %s].\n' % ';\n '.join(srows[i:i + SHARD]))
        skinds.append(('s', smeta[i:i + SHARD]))
    outs += coq.eval_shards(ctx.workdir, 'c05s' + tag, HEADER, sshards, ['bad_model_seq cases', 'bad_spec_seq cases'], jobs=JOBS)
    kinds += skinds
    fl = sorted(floats)
    rshards = ['Definition cases : list (sf * Z * Z) := [\n %s].\n' % ';\n '.join(repr_row(x) for x in fl[i:i + 2000])
               for i in range(0, len(fl), 2000)]
    routs = coq.eval_shards(ctx.workdir, 'c05r' + tag, HEADER, rshards, ['bad_repr cases'], jobs=JOBS)
    prows, pmeta = [], []
    for d, r, values, calls in plays:
        res['evaluations'] += 1
        bump('sequence-playback')
        case = {'entry': 'sequence-playback', 'definition': describe_def(d),
                'body': {'values': describe(values), 'delays': [2] * len(values), 'repeat': 1}}
        if not all(c is None or isinstance(c, (bool, int, float)) for c in calls):
            res['tie_failures'].append({'case': case, 'driver_calls': repr(calls), 'note': 'observation outside the model alphabet'})
            continue
        es = coq.lst(['(DriverWrite %s)' % pyvals.opt_pyval(c) for c in calls])
        prows.append('(%s, %s, %s)' % (c_pdesc(d), coq.lst([c_json(x) for x in values]), es))
        pmeta.append((d, case, {'raw': r['raw'], 'written': calls, 'seq': []}))
    if prows:
        pouts = coq.eval_shards(ctx.workdir, 'c05p' + tag, HEADER,
                                ['Definition cases : list pcase := [\n %s].\n' % ';\n '.join(prows)],
                                ['bad_play cases', 'bad_play_spec cases'], jobs=JOBS)
        for rc, lists, err in pouts:
            if rc != 0 or len(lists) != 2:
                res['tie_failures'].append('coqc failed on the playback shard: %s' % err[-600:])
                continue
            for i in lists[0]:
                d, case, r = pmeta[i]
                res['tie_failures'].append({'case': case, 'implementation': observed(r), 'note': 'played sequence: driver calls differ from the model'})
            for i in lists[1]:
                d, case, r = pmeta[i]
                res['violations'].append(violation('wrong-delivery', case, r, d))
    bump('queue-full-evicted-with-500', evicted[0])
    dist['ports-with-transform-set-then-cleared'] = impl.cleared_transforms
    res['extra']['coq_wall_s'] = round(res['extra'].get('coq_wall_s', 0) + time.time() - t1, 2)
    bump('floats-checked-against-repr', len(fl))
    for i, (rc, lists, err) in enumerate(routs):
        if rc != 0 or len(lists) != 1:
            res['tie_failures'].append('coqc failed on a repr shard: %s' % err[-500:])
            continue
        for j in lists[0]:
            x = fl[i * 2000 + j]
            res['tie_failures'].append({'float': x.hex(), 'repr': repr(x), 'note': 'Repr.v differs from float.__repr__'})

    for (rc, lists, err), (kind, meta) in zip(outs, kinds):
        want = 5 if kind == 'v' else 2
        if rc != 0 or len(lists) != want:
            res['tie_failures'].append('coqc failed on a case shard: %s' % err[-600:])
            continue
        for i in lists[0]:
            d, case, r = meta[i]
            res['tie_failures'].append({'case': case, 'implementation': observed(r), 'note': 'model differs from implementation'})
        flat = lists[1]
        for i, c in zip(flat[0::2], flat[1::2]):
            d, case, r = meta[i]
            res['violations'].append(violation(CLASSES.get(c, 'class-%d' % c), case, r, d))
        if kind == 'v':
            bump('verdict-differs-between-binary-and-decimal-step-test', len(lists[2]))
            bump('fix-loses-accepted-value', len(lists[3]))
            bump('fix-loses-binary-grid-value', len(lists[4]))


def observed(r):
    return {'response': r['raw'], 'driver_calls': [describe(w) for w in r['written']], 'sequences': [describe(s) for s in r['seq']]}


def violation(cls, case, r, d):
    key = {'class': cls, 'entry': case['entry']}
    if cls in ('decimal-step-grid', 'off-grid-accepted', 'on-grid-rejected'):
        key['step'] = repr(d['step'])
    return {'key': key,
            'what': 'PATCH %s %s on %s: %s -> %s' % (case['entry'], json.dumps(case['body']), _short_def(d), CLASS_TEXT.get(cls, cls), r['raw']),
            'case': case, 'observed': observed(r)}


def _short_def(d):
    parts = [d['type']]
    for k in ('min', 'max', 'step', 'choices'):
        if d[k] is not None:
            parts.append('%s=%r' % (k, d[k]))
    if d['integer']:
        parts.append('integer')
    if d['transform']:
        parts.append('transform_write=%s' % TRANSFORMS[d['transform']])
    if not d['enabled']:
        parts.append('disabled')
    if not d['writable']:
        parts.append('read-only')
    if not d['exists']:
        parts.append('(no such port)')
    return 'port(' + ', '.join(parts) + ')'


# ----------------------------------------------------------------------------------------------------------------

def corpus_plan():
    plan = []
    cdir = os.path.join(coq.VERIF, 'corpus', 'C05')
    if not os.path.isdir(cdir):
        return plan
    for name in sorted(os.listdir(cdir)):
        if not name.endswith('.json'):
            continue
        with open(os.path.join(cdir, name)) as f:
            c = json.load(f)
        plan.append(case_plan(c))
    return plan


def case_plan(c):
    """a corpus / replay case -> plan entry"""
    c = c.get('case', c)
    dd = c['definition']

    def num(x):
        if isinstance(x, dict) and 'hex' in x:
            return float.fromhex(x['hex'])
        if isinstance(x, dict) and 'int' in x:
            return int(x['int'])
        return x
    tcode = {v: k for k, v in TRANSFORMS.items()}[dd.get('transform')]
    d = mk_def(dd.get('type', 'number'), num(dd.get('min')), num(dd.get('max')), bool(dd.get('integer')), num(dd.get('step')),
               None if dd.get('choices') is None else [num(x) for x in dd['choices']], tcode, dd.get('enabled', True),
               dd.get('writable', True), dd.get('exists', True))
    if c.get('entry', 'value') == 'value':
        return (d, [c['body'].encode()], [])

    def un(x):
        if isinstance(x, list):
            return [un(y) for y in x]
        if isinstance(x, dict) and ('hex' in x or 'int' in x):
            return num(x)
        if isinstance(x, dict):
            return {k: un(v) for k, v in x.items()}
        return x
    return (d, [], [un(c['body'])])


def build_plan(ctx, n_pairs, full=False):
    defs = all_definitions(full)
    rng = ctx.rng
    plan = []
    if full:
        for d in defs:
            vals = values_for(d)
            plan.append((d, [body_of(v) for v in vals], sequences_for(d, vals, rng, 12)))
        return plan
    # quick: every definition family is visited; a random slice of each definition's values
    per = max(4, n_pairs // len(defs))
    order = list(range(len(defs)))
    rng.shuffle(order)
    budget = n_pairs
    for i in order:
        d = defs[i]
        vals = values_for(d)
        k = min(len(vals), per + (3 if d['step'] else 0))
        chosen = rng.sample(vals, k)
        # always there: the two values of a boolean port; the in-domain values on which a partial transform fails
        for v in ([True, False] if d['type'] == 'boolean' else []) + TRANSFORM_FAILS.get(d['transform'], []):
            if not any(_vkey(v) == _vkey(c) for c in chosen):
                chosen.append(v)
        nseq = 1 if rng.random() < 0.6 else 0
        plan.append((d, [body_of(v) for v in chosen], sequences_for(d, vals, rng, nseq)))
        budget -= k + nseq
    # spend what is left on the step / bounds definitions (where the boundary is)
    hard = [d for d in defs if d['step'] and d['exists']]
    while budget > 0 and hard:
        d = rng.choice(hard)
        vals = values_for(d)
        k = min(len(vals), 12, budget)
        plan.append((d, [body_of(v) for v in rng.sample(vals, k)], []))
        budget -= k
    return plan


def nontrivial(d, body):
    return d['type'] == 'number' and d['exists'] and any(d[k] is not None for k in ('min', 'max', 'step', 'choices')) \
        and body[:1] in b'-0123456789'


def check(ctx, res):
    res['rule'] = (
        'definitions: number/boolean x {no bounds, min, max, both} (7 mins, 7 maxs, 10 pairs; thorough: all 42 pairs) x integer x step in {none, 1, 5, 0.5, '
        '0.25, 0.1, 0.01} + choices lists + disabled / read-only / missing ports + 8 write transforms (three partial: DIV(1, $), '
        'MOD(7, $), DIV($, SUB($, 3)); the in-domain values on which they fail are always included: such a request must be refused, '
        'driver untouched) + degenerate steps; '
        'bodies per definition: true/false/null/strings/arrays/objects, ints and floats at and next to (math.nextafter) every '
        'bound, grid points min + k*step computed decimally and in floats with their neighbours, off-grid points, 2^53+-1, '
        '1e308, 10^400, NaN, 1e400, -Infinity, -0.0, ints written as floats; 0-4 element sequences from the same pools. '
        'Port state: the last read value is None, a different value of the port type, or (second step on the same port) exactly '
        'the value just delivered for the same body; per definition one overlapping-writes scenario on a slow driver (a current, '
        'write b, write a while b is in flight: driver must get b then a; then a burst b, a, b, a launched in one event-loop iteration: '
        'several writes pending in the queue at once, driver must get all four in order). Every accepted request must produce exactly one '
        'driver call with coerce(transform(value)), in request order. '
        'distinct = distinct (definition, body); non-trivial = number port with at least one declared constraint and a numeric body')
    if ctx.replay:
        with open(ctx.replay) as f:
            plan = [case_plan(json.load(f))]
        run_plan(ctx, res, plan, 'r')
        return
    plan = corpus_plan()
    if plan:
        run_plan(ctx, res, plan, 'c')
    full = ctx.tier == 'thorough'
    plan = build_plan(ctx, 4000, full=full)
    seen = set()
    for d, bodies, _ in plan:
        dk = json.dumps(describe_def(d), sort_keys=True)
        for b in bodies:
            if nontrivial(d, b):
                seen.add((dk, b))
    res['distinct_nontrivial'] = len(seen)
    res['exhaustive'] = False
    chunk = 60 if not full else 40
    for i in range(0, len(plan), chunk * 8):
        run_plan(ctx, res, plan[i:i + chunk * 8], 'g%d' % i, overlap_budget=(10 ** 9 if full else 120))
    for d, bodies, seqs in plan[:6]:
        res['samples'].append({'definition': describe_def(d), 'bodies': [b.decode() for b in bodies[:6]],
                               'sequences': [describe(s) for s in seqs[:1]]})
    res['distribution']['definitions'] = len(plan)
    try:
        rules = read_rules()
        res['extra']['rules_in_source'] = {k: {'step_test': v[0], 'non_finite_guard': v[1]} for k, v in rules.items()}
    except Untranslatable as e:
        res['extra']['rules_in_source'] = 'untranslatable: %s' % e


def search(ctx, res):
    """the proof or the tie broke: look harder (full product of definitions x values)"""
    plan = build_plan(ctx, 40000, full=(ctx.tier == 'thorough'))
    for i in range(0, len(plan), 400):
        run_plan(ctx, res, plan[i:i + 400], 's%d' % i)
        if res['violations']:
            break


REPLAY_HELP = ('bin/check C05 --replay <this file> (case.port_state, if present, says what the port\'s last read value was / which '
               'multi-step scenario the request belongs to; the replay re-runs the body twice on one port); or by hand: a core_ports.Port subclass with TYPE/MIN/MAX/INTEGER/STEP/CHOICES/'
               'WRITABLE class attributes as in case.definition, loaded with core_ports.load and enabled, then '
               'await patch_port_value(MockAPIRequest("PATCH", ..., access_level=ACCESS_LEVEL_NORMAL).handler, port_id, json.loads(case.body))')

LEVEL_TEXT = (
    'Coq theorems over a Gallina model of patch_port_value / patch_port_sequence (get_value_schema, the Draft-4 keywords enum/'
    'minimum/maximum/type as jsonschema 4 applies them, the step test in CPython float arithmetic and in its exact decimal '
    'form, the enabled / writable checks in the code\'s order, transform_and_write_value with adapt_value_type) against a '
    'specification over exact rationals: model accepts iff the specification does on integer-valued inputs (both step tests) '
    'and, for the exact decimal step test, on ALL finite inputs under the decimal reading; a rejected request has no effect; '
    'an accepted one delivers coerce(transform v); keyword-by-keyword schema semantics; the binary step test is refuted on '
    'min 0, step 0.1, value 0.3. The step-test shape is re-read from the source on every run; model and specification are '
    'both compared with the real API functions on thousands of definition x body pairs, floats bit for bit.'
)
LEVEL_NOTE = (
    'Trusted: Coq kernel incl. vm_compute; the translator and correspondence harness in harness/props/c05.py; jsonschema, '
    'json.loads, CPython numerics, float.__repr__ and fractions.Fraction are modelled (C05/Model.v, C05/Repr.v, Base/PyNum.v) '
    'and tied by the correspondence only. C05_accept_iff_exact is restricted to integer-valued inputs; carve-outs where the '
    'spec is silent: 3.0 on integer ports, numeric attributes on boolean ports, choices with min+step. No axioms.'
)
TECHNIQUE = 'Coq proof over a model tied by a source-shape translator and vm_compute correspondence; exact-rational spec oracle'
