"""Worker process for C12 / C13: runs the REAL qtoggleserver master (Slave, SlavePort, core main loop, API functions) against
the simulated slave of simslave.py on the virtual clock of harness.common.vloop.

    python -m harness.props.c12_worker < jobs.json > results.json

jobs: list of {'kind': 'e2e' | 'micro', ...}.  vloop patches time.time globally, hence the dedicated process.

e2e   the slave is added through the API function post_slave_devices and runs its real listen / poll loop (or receives pushed
      events through post_slave_device_events) while a timed script mutates the simulated device, switches the network off and
      on and edits ports / values / device attributes on the master through the API functions.  Observations: GET /ports and
      GET /devices of the master at sync points, value-change events of the master, what the device delivered, the request log
      of the device.
micro the real Slave / SlavePort objects are driven step by step (handle_event, fetch_and_update_ports, _poll_once, main.update,
      offline edits, _handle_online) with no latency; the mirror state is dumped after the steps: this is what the Coq models are
      compared with.
"""
import asyncio
import copy
import json
import logging
import re
import sys
import traceback
import types

from harness.common import vloop
from harness.props import simslave

MASTER_OWNED = ('tag', 'expression', 'history_interval', 'history_retention', 'online', 'last_sync', 'expires',
                'provisioning', 'pending_value')
RENAMED = ('expression', 'history_interval', 'history_retention')

_mods = None


def mods():
    global _mods
    if _mods is None:
        logging.disable(logging.CRITICAL)
        from qtoggleserver.conf import settings
        settings.persist.driver = 'qtoggleserver.drivers.persist.JSONDriver'
        settings.persist.file_path = None
        from qtoggleserver import persist
        from qtoggleserver.core import expressions  # noqa: F401  (import order)
        from qtoggleserver.core import events as core_events
        from qtoggleserver.core import main as core_main
        from qtoggleserver.core import ports as core_ports
        from qtoggleserver.core import sessions as core_sessions
        from qtoggleserver.core.api import auth as core_api_auth
        from qtoggleserver.core.api.funcs import ports as ports_api
        from qtoggleserver.core.device import attrs as core_device_attrs
        from qtoggleserver.core.events import handlers as ev_handlers
        from qtoggleserver.slaves import devices as slaves_devices
        from qtoggleserver.slaves import ports as slaves_ports
        from qtoggleserver.slaves.api.funcs import devices as slaves_api
        core_device_attrs.name = 'master'
        _mods = types.SimpleNamespace(
            settings=settings, persist=persist, core_events=core_events, core_main=core_main, core_ports=core_ports,
            core_sessions=core_sessions, core_api_auth=core_api_auth, ports_api=ports_api, ev_handlers=ev_handlers,
            slaves_devices=slaves_devices, slaves_ports=slaves_ports, slaves_api=slaves_api,
            core_device_attrs=core_device_attrs)
    return _mods


class Handler:
    """what api_call / APIRequest read from the tornado handler"""
    def __init__(self, method, path='/', level=30, query=None, headers=None):
        self.access_level = level
        self.username = 'admin'
        self.request = types.SimpleNamespace(
            headers=dict(headers or {}), method=method, path=path, body=b'',
            query_arguments={k: [str(v).encode()] for k, v in (query or {}).items()})

    def decode_argument(self, v, name=None):
        return v.decode()


def reset_globals(M):
    M.core_ports._ports_by_id.clear()
    M.core_ports._save_loop_task = None
    M.slaves_devices._slaves_by_name.clear()
    M.core_sessions._sessions_by_id.clear()
    if hasattr(M.persist._thread_local, 'driver'):
        del M.persist._thread_local.driver
    M.core_main._update_lock = None
    M.core_main._last_time = 0
    M.core_main._ready = False
    M.core_main._updating_enabled = True
    M.core_main._update_loop_task = None
    M.core_main._force_eval_expression_ports.clear()
    M.core_main._ports_with_read_error = type(M.core_main._ports_with_read_error)(M.core_main._PORT_READ_ERROR_RETRY_INTERVAL)
    M.ev_handlers._registered_handlers[:] = []
    M.ev_handlers._enabled = True


def make_recorder(M, log, prefix):
    class Recorder(M.core_events.Handler):
        FIRE_AND_FORGET = False

        async def handle_event(self, event):
            t = event.get_type()
            if t == 'value-change':
                pid = event.get_port().get_id()
                if pid.startswith(prefix):
                    log.append([vloop.vtime_ms(), pid[len(prefix):], event.new_value])
    return Recorder('verif-recorder')


async def api_result(coro):
    """run an API function -> ['ok', value] | ['accepted'] | ['error', status, code]"""
    M = mods()
    from qtoggleserver.core import api as core_api
    try:
        return ['ok', await coro]
    except core_api.APIAccepted:
        return ['accepted']
    except core_api.APIError as e:
        return ['error', e.status, e.code]
    except Exception as e:  # what the HTTP layer would turn into a 500
        return ['error', 500, '%s: %s' % (type(e).__name__, e)]


def jsonable(x):
    return json.loads(json.dumps(x, default=str))


async def master_ports(M, name):
    r = await api_result(M.ports_api.get_ports(Handler('GET', '/api/ports')))
    if r[0] != 'ok':
        return {'error': r}
    return [jsonable(p) for p in r[1] if p.get('id', '').startswith(name + '.')]


async def master_devices(M):
    r = await api_result(M.slaves_api.get_slave_devices(Handler('GET', '/api/devices')))
    return jsonable(r[1]) if r[0] == 'ok' else {'error': r}


def dump_mirror(M, slave):
    """internal mirror state (for the model tie): per port in registry order"""
    out = []
    for p in slave._get_local_ports():
        out.append({
            'id': p.get_remote_id(),
            'cached': jsonable(p._cached_attrs),
            'queue': jsonable(list(reversed(p._remote_value_queue))),      # oldest first
            'cached_value': jsonable(p._cached_value),
            'enabled': bool(p.is_enabled()),
            'last_read': jsonable(p.get_last_read_value()),
            'prov': sorted(p._provisioning),
            'tag': p._tag,
        })
    return {'ports': out, 'dev': jsonable(slave._cached_attrs), 'dev_prov': sorted(slave._provisioning_attrs),
            'online': bool(slave.is_online()), 'ready': bool(slave.is_ready())}


async def persisted(M, name):
    recs = list(await M.persist.query('slave_ports'))
    ports = {r['id'][len(name) + 1:]: {'provisioning': sorted(r.get('provisioning', [])), 'value': r.get('value'),
                                       'attrs': r.get('attrs')}
             for r in recs if r.get('id', '').startswith(name + '.')}
    srec = await M.persist.get('slaves', name)
    return {'ports': jsonable(ports),
            'slave': jsonable({'provisioning_attrs': sorted((srec or {}).get('provisioning_attrs', [])),
                               'attrs': (srec or {}).get('attrs')})}


async def start_master(M, sim, settings_over=None):
    reset_globals(M)
    s = M.settings.slaves
    s.enabled = True
    s.timeout, s.long_timeout, s.keepalive, s.retry_interval, s.retry_count = 10, 60, 10, 5, 3
    for k, v in (settings_over or {}).items():
        setattr(s, k, v)
    simslave.install(M.slaves_devices, sim)
    await M.core_ports.init()
    await M.core_main.init()
    M.core_main.set_ready()


# ----------------------------------------------------------------------------------------------------------------------
# e2e

async def run_e2e(job):
    M = mods()
    name = job.get('name', 'dev1')
    mode = job['mode']
    sim = simslave.SimSlave(name, job['ports'], device=job.get('device'), flags=job.get('flags', ['listen']),
                            latencies=[x / 1000.0 for x in job.get('lat', [10])], session_floor=job.get('session_floor', 10))
    sim.use_refs = bool(job.get('refs'))
    await start_master(M, sim)
    vc_log = []
    M.core_events.register_handler(make_recorder(M, vc_log, name + '.'))
    res = {'syncs': [], 'edits': [], 'errors': [], 'vc': vc_log}

    if job.get('pre_restore') is not None:
        # a restore of the slave devices (PUT /devices) before the slave is added; an entry refused by the per-entry validation
        # makes it fail with 400: the master must work as before afterwards
        M.settings.core.backup_support = True
        rr = await api_result(M.slaves_api.put_slave_devices(Handler('PUT', '/api/devices'), params=copy.deepcopy(job['pre_restore'])))
        res['pre_restore_result'] = jsonable(rr[:3])

    params = {'scheme': 'http', 'host': 'sim', 'port': 80, 'path': '/', 'admin_password': ''}
    if mode == 'listen':
        params['listen_enabled'] = True
    elif mode == 'poll':
        params['poll_interval'] = int(job.get('poll', 2))
    else:  # push: permanently offline slave that receives events through POST /devices/<name>/events
        params['listen_enabled'] = False
        params['poll_interval'] = 0
    r = await api_result(M.slaves_api.post_slave_devices(Handler('POST', '/api/devices'), params=params))
    if r[0] != 'ok':
        res['errors'].append('post_slave_devices: %r' % (r,))
        return res
    slave = M.slaves_devices.get(name)

    # listen sessions the device dropped: [virtual ms, undelivered events lost, did the master report the slave online then]
    res['session_expiries'] = []
    sim.expire_hook = lambda sid, n: res['session_expiries'].append([vloop.vtime_ms(), n, bool(slave.is_online())])

    # the order in which the master consumes what the device reports: every event when Slave.handle_event receives it (the
    # answers to the master's own GET requests are logged by the simulated device when they arrive)
    def wrap_slave(sl):
        orig_handle_event = sl.handle_event

        async def logged_handle_event(event):
            entry = [vloop.vtime_ms(), 'event', [copy.deepcopy(event)]]
            sim.delivered.append(entry)
            try:
                return await orig_handle_event(event)
            except Exception:
                entry[1] = 'event-rejected'      # e.g. port-add of a port a resync has already added: not taken over
                raise
        sl.handle_event = logged_handle_event
    wrap_slave(slave)

    # a second slave whose name has the first one's name as a prefix (dev1 / dev10): each owns exactly its own ports
    sim2 = slave2 = None
    name2 = None
    if job.get('second'):
        name2 = job['second']['name']
        sim2 = simslave.SimSlave(name2, job['second']['ports'], flags=['listen'], host='sim2',
                                 latencies=[x / 1000.0 for x in job.get('lat', [10])])
        sim2.base_path = ''
        simslave.FakeAsyncHTTPClient.sims['sim2'] = sim2
        r2 = await api_result(M.slaves_api.post_slave_devices(Handler('POST', '/api/devices'), params={
            'scheme': 'http', 'host': 'sim2', 'port': 80, 'path': '/', 'admin_password': '', 'listen_enabled': True}))
        if r2[0] != 'ok':
            res['errors'].append('post_slave_devices (second slave): %r' % (r2,))
        slave2 = M.slaves_devices.get(name2)

    async def restart_master():
        """save, drop the Slave and SlavePort objects, load the slaves again from the same store (slaves.devices.load())"""
        nonlocal slave
        for s in list(M.slaves_devices.get_all()):
            await s.save()
        await M.slaves_devices.cleanup()
        for p in list(M.core_ports.get_all()):
            if isinstance(p, M.slaves_ports.SlavePort):
                await p.remove(persisted_data=False)
        M.slaves_devices._slaves_by_name.clear()
        await M.slaves_devices.load()
        slave = M.slaves_devices.get(name)
        if slave is None:
            res['errors'].append('the slave is gone after the restart')
            return
        wrap_slave(slave)
        await asyncio.sleep(0.12)
        res.setdefault('restarts', []).append({'t': vloop.vtime_ms(), 'devices': await master_devices(M),
                                               'req_index': len(sim.requests)})

    push_tasks = []
    if mode == 'push':
        async def deliver(ev):
            await asyncio.sleep(sim.next_latency())
            if not sim.net_up:
                return          # webhook lost (retries are not simulated; scripts keep the network up in push mode)
            auth = M.core_api_auth.make_auth_header(M.core_api_auth.ORIGIN_DEVICE, username=None,
                                                    password_hash=slave.get_admin_password_hash())
            h = Handler('POST', '/api/devices/%s/events' % name, level=0, headers={'Authorization': auth})
            rr = await api_result(M.slaves_api.post_slave_device_events(h, name=name, params=ev))
            if rr[0] == 'error':         # e.g. an event about a port that a resync has already removed
                res.setdefault('push_refused', []).append(jsonable(rr[:3]))
        chain = {'last': None}

        def hook(ev):
            prev = chain['last']

            async def seq():
                if prev is not None:
                    await asyncio.wait([prev])
                await deliver(ev)
            chain['last'] = asyncio.ensure_future(seq())
            push_tasks.append(chain['last'])
        sim.push_hook = hook

    async def wait_ready(limit):
        t = 0.0
        while t < limit:
            if mode == 'push' or (slave.is_online() and slave.is_ready()):
                return True
            await asyncio.sleep(0.25)
            t += 0.25
        return False

    if not await wait_ready(60):
        res['errors'].append('slave did not become ready within 60 s')

    async def quiesce(limit=120.0):
        """network up, slave online and ready, all remote value queues drained, no API call in flight, stable for 2 s"""
        t, stable = 0.0, 0.0
        while t < limit:
            await asyncio.sleep(0.25)
            t += 0.25
            ok = sim.net_up and (mode == 'push' or (slave.is_online() and slave.is_ready()))
            ok = ok and all(not p._remote_value_queue or not p.is_enabled() for p in slave._get_local_ports())
            ok = ok and (mode == 'poll' or sim.inflight == 0) and all(tk.done() for tk in push_tasks)
            if mode == 'poll':
                ok = ok and sim.polls_since_change >= 2
            if mode == 'listen':             # the master's listen call is waiting at the device and nothing is queued for it
                sess = sim.sessions.get(slave._listen_session_id)
                ok = ok and sess is not None and not sess.queue and sess.future is not None and not sess.future.done()
            if slave2 is not None:
                sess2 = sim2.sessions.get(slave2._listen_session_id)
                ok = ok and slave2.is_online() and slave2.is_ready() and sim2.inflight == 0
                ok = ok and all(not p._remote_value_queue or not p.is_enabled() for p in M.core_ports.get_all()
                                if p.get_id().startswith(name2 + '.'))
                ok = ok and sess2 is not None and not sess2.queue and sess2.future is not None and not sess2.future.done()
            stable = stable + 0.25 if ok else 0.0
            if stable >= (2.0 if mode != 'push' else 4.0):
                return True
        return False

    side_tasks = []      # master / device commands started by 'at' triggers, running while a request is in flight
    triggers = []

    SYNC_OPS = {'sv': sim.set_value, 'sa': sim.set_port_attr, 'sadd': sim.add_port, 'srm': sim.remove_port,
                'sd': sim.set_device_attr, 'sfull': sim.full_update, 'sdel': sim.del_port_attr, 'svburst': sim.burst}

    def on_request(method, path):
        for tr in triggers:
            if tr['armed'] and tr['m'] == method and re.fullmatch(tr['p'], path.rstrip('/') or '/'):
                if tr['skip'] > 0:
                    tr['skip'] -= 1
                    continue
                tr['armed'] = False
                if tr['op'][0] in SYNC_OPS:      # a change of the device itself happens before the device answers this request
                    SYNC_OPS[tr['op'][0]](*tr['op'][1:])
                    continue
                side_tasks.append(asyncio.ensure_future(run_op(tr['op_index'], tr['op'][0], tr['op'][1:], in_flight=[method, path])))
    sim.request_hook = on_request

    async def run_op(i, kind, args, in_flight=None):
        try:
            if kind == 'sv':
                sim.set_value(args[0], args[1])
            elif kind == 'sa':
                sim.set_port_attr(args[0], args[1], args[2])
            elif kind == 'sadd':
                sim.add_port(args[0])
            elif kind == 'srm':
                sim.remove_port(args[0])
            elif kind == 'svburst':      # many value changes of one port in a row
                sim.burst(*args)
            elif kind == 'sdel':         # an optional attribute disappears from a port of the device
                sim.del_port_attr(args[0], args[1])
            elif kind == 'sddel':
                sim.del_device_attr(args[0])
            elif kind == 'sv2':          # value change on the second simulated slave
                sim2.set_value(args[0], args[1])
            elif kind == 'failreq':      # the next request matching args[0] fails with fault args[1] (one request only)
                sim.one_shot.append({'m': args[0]['m'], 'p': args[0]['p'], 'skip': int(args[0].get('skip', 0)), 'fault': args[1]})
            elif kind == 'restart':
                await restart_master()
            elif kind == 'sd':
                sim.set_device_attr(args[0], args[1])
            elif kind == 'sfull':
                sim.full_update()
            elif kind == 'slow':         # how the device answers PATCH /ports/<id>/value from now on: None | ['never'] | ['later', ms]
                sim.slow[args[0]] = args[1] if len(args) > 1 else None
            elif kind == 'down':
                sim.set_net(False, args[0] if args else None)
            elif kind == 'up':
                sim.set_net(True)
            elif kind == 'at':           # arm: when a request matching args[0] reaches the device, run the op args[1] meanwhile
                spec = args[0]
                triggers.append({'armed': True, 'm': spec['m'], 'p': spec['p'], 'skip': int(spec.get('skip', 0)),
                                 'op': args[1], 'op_index': i})
            elif kind == 'mp':           # PATCH /devices/<name> on the master
                rr = await api_result(M.slaves_api.patch_slave_device(
                    Handler('PATCH', '/api/devices/%s' % name), name=name, params=copy.deepcopy(args[0])))
                res.setdefault('device_patches', []).append({'op': i, 't': vloop.vtime_ms(), 'args': jsonable(args),
                                                             'in_flight': in_flight, 'result': jsonable(rr[:3])})
            elif kind in ('mv', 'ma', 'md'):
                before = bool(slave.is_online())
                if kind == 'mv':
                    pid = '%s.%s' % (name, args[0])
                    rr = await api_result(M.ports_api.patch_port_value(
                        Handler('PATCH', '/api/ports/%s/value' % pid), port_id=pid, params=args[1]))
                elif kind == 'ma':
                    pid = '%s.%s' % (name, args[0])
                    rr = await api_result(M.ports_api.patch_port(
                        Handler('PATCH', '/api/ports/%s' % pid), port_id=pid, params=copy.deepcopy(args[1])))
                else:
                    rr = await api_result(M.slaves_api.slave_device_forward(
                        Handler('PATCH', '/api/devices/%s/forward/device' % name), name=name, path='/device',
                        params=copy.deepcopy(args[0])))
                after = bool(slave.is_online())
                await asyncio.sleep(0.12)        # two iterations of the main loop (attribute caches are per iteration)
                mp = await master_ports(M, name)
                md = await master_devices(M)
                res['edits'].append({'op': i, 't': vloop.vtime_ms(), 'kind': kind, 'args': jsonable(args),
                                     'online_before': before, 'online_after': after, 'in_flight': in_flight,
                                     'result': jsonable(rr[:3] if rr[0] == 'error' else rr[:1]),
                                     'ports': mp, 'devices': md, 'persisted': await persisted(M, name),
                                     'req_index': len(sim.requests)})
            elif kind == 'sync':
                sim.set_net(True)
                if side_tasks:
                    await asyncio.wait(side_tasks, timeout=60)
                ok = await quiesce()
                ok = ok and all(t.done() for t in side_tasks)
                res['syncs'].append({
                    'op': i, 't': vloop.vtime_ms(), 'quiescent': ok,
                    'slave_ports': [sim.port_json(p) for p in sim.ports], 'slave_device': copy.deepcopy(sim.device),
                    'master_ports': await master_ports(M, name), 'master_devices': await master_devices(M),
                    'online': bool(slave.is_online()), 'req_index': len(sim.requests), 'vc_index': len(vc_log),
                    'delivered_index': len(sim.delivered),
                    'triggers_not_fired': [tr['op_index'] for tr in triggers if tr['armed']],
                    'second': None if sim2 is None else {
                        'name': name2, 'slave_ports': [sim2.port_json(p) for p in sim2.ports],
                        'master_ports': await master_ports(M, name2)},
                })
                for tr in triggers:
                    tr['armed'] = False
            elif kind == 'wait':
                pass
            else:
                res['errors'].append('unknown op %r' % ([kind] + list(args),))
        except Exception:
            res['errors'].append('op %d %r raised: %s' % (i, [kind] + list(args), traceback.format_exc()[-800:]))

    for i, op in enumerate(job['ops']):
        dt, kind, args = op[0], op[1], op[2:]
        if dt:
            await asyncio.sleep(dt / 1000.0)
        res.setdefault('op_marks', []).append([len(sim.requests), len(simslave.FakeAsyncHTTPClient.attempts), vloop.vtime_ms()])
        await run_op(i, kind, args)
    res['requests'] = jsonable(sim.requests)
    res['slave_passwords'] = jsonable(sim.passwords)
    res['failed_requests'] = jsonable(sim.failed_requests)
    res['refused_by_client'] = jsonable(simslave.FakeAsyncHTTPClient.refused_by_client)
    res['attempts'] = jsonable(simslave.FakeAsyncHTTPClient.attempts)
    res['delivered'] = jsonable(sim.delivered)
    res['slave_events'] = len(sim.events)
    res['net_refused'] = sim.refused
    res['vtime_ms'] = vloop.vtime_ms()
    return res


# ----------------------------------------------------------------------------------------------------------------------
# micro: the real objects, step by step

async def run_micro(job):
    M = mods()
    name = job.get('name', 'dev1')
    sim = simslave.SimSlave(name, job['ports'], device=job.get('device'), flags=job.get('flags', []), latencies=[0.0])
    await start_master(M, sim)
    M.core_main._ready = False          # no background ticks: the script says when main.update() runs
    poll = bool(job.get('poll'))
    res = {'steps': [], 'errors': []}
    slave = await M.slaves_devices.add('http', 'sim', 80, '/', poll_interval=0, listen_enabled=False, admin_password='')
    # a slave that is online and ready without its loops running: the steps below are what the loops would call
    if poll:
        slave._poll_interval = 3600
        slave._poll_started = True
    else:
        slave._listen_enabled = True
    slave._online = True
    slave._ready = True
    pending = []                         # events emitted by the device, not yet delivered
    sim.push_hook = pending.append
    M.core_main._ready = True            # main.update() only runs when called; is_ready is not consulted by update()

    def aux_value(pid):
        p = sim.ports.get(pid)
        if p is None:
            return ['err']
        return ['val', p.get('value') if p.get('enabled') else None]

    await asyncio.sleep(0)
    res['init'] = dump_mirror(M, slave)
    todo = list(job['steps'])
    i = -1
    while todo:
        st = todo.pop(0)
        i += 1
        kind, args = st[0], st[1:]
        if kind == 'drain':              # main.update() until every enabled port's remote value queue is empty
            if i < 2000 and any(p._remote_value_queue and p.is_enabled() for p in slave._get_local_ports()):
                todo[:0] = [['tick'], ['drain']]
            continue
        rec = {'kind': kind, 'step': jsonable(st)}
        n0 = len(sim.requests)
        c0 = len(simslave.FakeAsyncHTTPClient.attempts)
        try:
            if kind in ('sv', 'sa', 'sadd', 'srm', 'sd', 'sfull', 'sdel', 'sddel'):
                {'sv': sim.set_value, 'sa': sim.set_port_attr, 'sadd': sim.add_port, 'srm': sim.remove_port,
                 'sd': sim.set_device_attr, 'sfull': sim.full_update, 'sdel': sim.del_port_attr,
                 'sddel': sim.del_device_attr}[kind](*args)
            elif kind == 'deliver':          # hand the k oldest undelivered events to Slave.handle_event, like the listen loop
                k = args[0]
                evs, pending[:] = pending[:k], pending[k:]
                rec['events'] = []
                for ev in evs:
                    pid = (ev.get('params') or {}).get('id')
                    item = {'event': jsonable(ev), 'aux': aux_value(pid) if pid is not None else ['err']}
                    if ev['type'] == 'full-update':
                        item['dev'] = copy.deepcopy(sim.device)
                        item['ports'] = [sim.port_json(p) for p in sim.ports]
                        item['auxs'] = {p: aux_value(p) for p in sim.ports}
                    try:
                        await slave.handle_event(copy.deepcopy(ev))
                        item['raised'] = None
                    except Exception as e:
                        item['raised'] = type(e).__name__
                    except asyncio.CancelledError:
                        # port.remove() awaits the cancelled write/eval tasks of a port whose tasks never started
                        item['raised'] = 'CancelledError'
                        item['tb'] = traceback.format_exc()[-900:]
                    await asyncio.sleep(0)       # let the tasks of newly created ports start (the loops yield on their next fetch)
                    item['after'] = dump_mirror(M, slave)
                    rec['events'].append(item)
            elif kind == 'drop':             # the session expired: undelivered events are lost
                pending[:] = []
            elif kind == 'tick':
                await M.core_main.update()
            elif kind == 'fetch':
                rec['ports'] = [sim.port_json(p) for p in sim.ports]
                rec['auxs'] = {p: aux_value(p) for p in sim.ports}
                try:
                    await slave.fetch_and_update_ports()
                    rec['raised'] = None
                except Exception as e:
                    rec['raised'] = type(e).__name__
            elif kind == 'poll':
                rec['dev'] = copy.deepcopy(sim.device)                    # GET /device is the first thing _poll_once does
                rec['was_online'] = bool(slave.is_online())
                rec['ret'] = await slave._poll_once()
                rec['ports'] = [sim.port_json(p) for p in sim.ports]      # GET /ports comes after provisioning, if any
                rec['auxs'] = {p: aux_value(p) for p in sim.ports}
            elif kind == 'offline':
                slave._online = False
                await slave._handle_offline()
            elif kind == 'online':           # what the listen loop does when the device answers again
                slave._online = True
                await slave._handle_online()
                rec['dev'] = copy.deepcopy(sim.device)                    # the refresh comes after provisioning
                rec['ports'] = [sim.port_json(p) for p in sim.ports]
                rec['auxs'] = {p: aux_value(p) for p in sim.ports}
            elif kind == 'set_attr':
                port = M.core_ports.get('%s.%s' % (name, args[0]))
                if port is None:
                    rec['raised'] = 'no-port'
                else:
                    try:
                        await port.set_attr(args[1], args[2])
                        rec['raised'] = None
                    except Exception as e:
                        rec['raised'] = type(e).__name__
            elif kind == 'write_value':
                port = M.core_ports.get('%s.%s' % (name, args[0]))
                if port is None:
                    rec['raised'] = 'no-port'
                else:
                    try:
                        await port.write_value(args[1])
                        rec['raised'] = None
                    except Exception as e:
                        rec['raised'] = type(e).__name__
            elif kind == 'patch_device':
                h = Handler('PATCH', '/api/devices/%s/forward/device' % name)
                from qtoggleserver.core import api as core_api
                rec['ret'] = jsonable(list(await slave.intercept_request('PATCH', '/device', copy.deepcopy(args[0]),
                                                                          core_api.APIRequest(h))))
            elif kind == 'provision':
                await slave.apply_provisioning()
            elif kind == 'saveload':         # persistence of the pending sets: what a restart would read back
                rec['persisted'] = await persisted(M, name)
            else:
                res['errors'].append('unknown step %r' % (st,))
        except Exception:
            rec['crashed'] = traceback.format_exc()[-600:]
            res['errors'].append('step %d %r raised: %s' % (i, st, rec['crashed']))
        await asyncio.sleep(0)           # the real loops yield at every HTTP exchange; lets new ports' tasks start
        rec['requests'] = jsonable([r[1:] for r in sim.requests[n0:]])
        rec['attempts'] = jsonable([r[1:] for r in simslave.FakeAsyncHTTPClient.attempts[c0:]])
        rec['after'] = dump_mirror(M, slave)
        rec['undelivered'] = len(pending)
        rec['view'] = await master_ports(M, name)
        res['steps'].append(rec)
    res['final_slave_ports'] = [sim.port_json(p) for p in sim.ports]
    res['final_slave_device'] = copy.deepcopy(sim.device)
    return res


def run_job(job):
    try:
        coro = run_e2e(job) if job['kind'] == 'e2e' else run_micro(job)
        return vloop.run(coro)
    except Exception:
        return {'errors': ['worker: ' + traceback.format_exc()[-1500:]], 'crashed': True}


def main():
    jobs = json.load(sys.stdin)
    out = [run_job(j) for j in jobs]
    json.dump(out, sys.stdout)


if __name__ == '__main__':
    main()
