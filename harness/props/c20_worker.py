"""C20 worker — builds hub configurations through the REAL API functions, takes the backup documents, restores them onto a
differently configured hub and reports what the hub answers afterwards.

Run in its own process (the implementation keeps its configuration in module-level globals; `core.device.reset` reloads a
module; everything is torn down and checked empty between configurations):

    python -m harness.props.c20_worker IN.json OUT.json      # IN: {"jobs": [job, ...]}  ->  OUT: {"results": [result, ...]}

job (a *pair* of configurations plus, optionally, a mutation of the documents before they are restored):
  {"hardware": [{"id": "hw1", "kind": "bool_rw"|"num_rw"|"num_ro"|"custom", "input": 3, "fault": null|"OSError"|...}, ...],
                                                        # non-virtual ports, same on both hubs; fault: read_value raises while PUT /ports runs
   "source": [op, ...], "target": [op, ...],
   "mutate": null | [["ports"|"device"|"devices"|"peripherals", mutation], ...],
   "restore": [...] (optional)                                         # which documents are PUT, in this order; default: ALL four,
                                                                      # in the order the hub advertises (GET /backup/endpoints + standard)
   "sim": {host: {name, flags, ...}}}                                 # simulated slave devices (what GET /device answers); other hosts refuse
op:
  ["post_port", {id, type, min?, max?, integer?, step?, choices?}] | ["patch_port", id, {attr: value}] | ["patch_value", id, value]
  | ["delete_port", id] | ["patch_device", {attr: value}] | ["put_slaves", [entry, ...]] | ["patch_slave", name, {...}]
  | ["post_peripheral", {...}]
  | ["delete_peripheral", id] | ["patch_sequence", id, {values, delays, repeat}]   (job["linger_ms"]: real time to wait after the restore)
mutation (applied to the GET document before PUT):
  ["set", index, key, value] | ["del", index, key] | ["append", entry] | ["insert", index, entry] | ["drop", index]
  | ["replace", whole_document]

result:
  {"src": docs, "tgt": docs, "put": {name: outcome}, "flags": {name: [updating_enabled, events_enabled]}, "after": docs,
   "behaviour": {name: [a polling pass ran, a triggered event reached a handler]} (observed after each PUT),
   "sent": docs actually PUT, "ops": {"source": [outcome...], "target": [...]}, "transforms": [[text, role, in, out], ...],
   "clean": [...problems found by the emptiness check...]}
docs = {"ports": [...], "device": {...}, "devices": [...], "peripherals": [...]}
outcome = ["ok", value] | ["api", status, code, params] | ["exc", type name, text]
"""
import asyncio
import copy
import json
import sys
import types

SETTLE_ROUNDS = 60


class Hub:
    def __init__(self):
        import logging
        logging.disable(logging.CRITICAL)
        from qtoggleserver.conf import settings
        settings.persist.driver = 'qtoggleserver.drivers.persist.JSONDriver'
        settings.persist.file_path = None
        from qtoggleserver import persist
        from qtoggleserver.core import expressions as core_expressions
        from qtoggleserver.core import api as core_api
        from qtoggleserver.core import device as core_device
        from qtoggleserver.core import events as core_events
        from qtoggleserver.core import main as core_main
        from qtoggleserver.core import ports as core_ports
        from qtoggleserver.core import vports as core_vports
        from qtoggleserver.core.api.funcs import device as api_device
        from qtoggleserver.core.api.funcs import ports as api_ports
        from qtoggleserver.core.device import attrs as device_attrs
        from qtoggleserver.core.events import handlers as ev_handlers
        from qtoggleserver import peripherals
        from qtoggleserver.peripherals.api import funcs as api_peripherals
        from qtoggleserver.slaves import devices as slaves_devices
        from qtoggleserver.slaves.api.funcs import devices as api_slaves

        self.settings, self.persist, self.core_api, self.core_device, self.core_events = settings, persist, core_api, core_device, core_events
        self.core_main, self.core_ports, self.core_vports, self.core_expressions = core_main, core_ports, core_vports, core_expressions
        self.api_device, self.api_ports, self.device_attrs, self.ev_handlers = api_device, api_ports, device_attrs, ev_handlers
        self.peripherals, self.api_peripherals, self.slaves_devices, self.api_slaves = peripherals, api_peripherals, slaves_devices, api_slaves
        self.req = types.SimpleNamespace(access_level=core_api.ACCESS_LEVEL_ADMIN, username='admin',
                                         request=types.SimpleNamespace(headers={}, method='PUT', path='/api', body=b'',
                                                                       query_arguments={}))
        self.default_virtual_ports = settings.core.virtual_ports
        hub = self

        class HwPort(core_ports.Port):
            """stands for a piece of hardware: exists on both hubs of a pair with the same type and capabilities"""
            WRITABLE = True

            def __init__(self, port_id, inp=None):
                super().__init__(port_id)
                self._hw_value = inp
                self.c20_fault = None        # scripted read fault (armed only while PUT /ports runs)

            async def read_value(self):
                if self.c20_fault:
                    raise hub.make_exc(self.c20_fault)
                return self._hw_value

            async def write_value(self, value):
                self._hw_value = value

        class HwBoolRW(HwPort):
            TYPE = 'boolean'

        class HwNumRW(HwPort):
            TYPE = 'number'

        class HwNumRO(HwPort):
            TYPE = 'number'
            WRITABLE = False

            async def write_value(self, value):
                raise core_ports.PortError('read-only hardware')

        class HwCustom(HwPort):
            """a driver with its own attributes: one modifiable number on a grid, one modifiable string with choices,
            one that is reported but cannot be changed"""
            TYPE = 'number'
            ADDITIONAL_ATTRDEFS = {
                'gain': {'display_name': 'Gain', 'description': 'gain', 'type': 'number', 'modifiable': True,
                         'min': 0, 'max': 100, 'integer': True, 'step': 5},
                'mode': {'display_name': 'Mode', 'description': 'mode', 'type': 'string', 'modifiable': True,
                         'choices': [{'value': 'fast', 'display_name': 'Fast'}, {'value': 'slow', 'display_name': 'Slow'}]},
                'serial': {'display_name': 'Serial', 'description': 'serial', 'type': 'string', 'modifiable': False},
            }

            def __init__(self, port_id, inp=None):
                super().__init__(port_id, inp)
                self.c20_gain = 10
                self.c20_mode = 'fast'

            async def attr_get_gain(self):
                return self.c20_gain

            async def attr_set_gain(self, v):
                self.c20_gain = v

            async def attr_get_mode(self):
                return self.c20_mode

            async def attr_set_mode(self, v):
                self.c20_mode = v

            async def attr_get_serial(self):
                return 'SN-' + self.get_id()

        from qtoggleserver.drivers.persist.json import JSONDriver

        class MemDriver(JSONDriver):
            """the in-memory JSON driver, with sample support so that the history attributes exist (as the repo's test mock)"""
            def __init__(self):
                super().__init__(file_path=None)

            def _load(self):
                return {}

            def _save(self, data):
                pass

            def is_samples_supported(self):
                return True

        self.MemDriver = MemDriver
        # behavioural observation of the two switches: a registered (synchronous) event handler sees an event only while event
        # delivery is on; main.update() reaches handle_value_changes only while polling is on
        from qtoggleserver.core.events import base as ev_base

        class Recorder(ev_base.Handler):
            FIRE_AND_FORGET = False

            def __init__(self):
                super().__init__('c20-recorder')
                self.seen = 0

            async def handle_event(self, event):
                self.seen += 1

        self.recorder = Recorder()
        core_events.register_handler(self.recorder)
        self.passes = 0
        orig_hvc = core_main.handle_value_changes

        async def counting_hvc(*a, **kw):
            hub.passes += 1
            return await orig_hvc(*a, **kw)

        core_main.handle_value_changes = counting_hvc

        # simulated slave devices: Slave.api_call answers from hub.sim (host -> the device's GET /device attributes; a host that is
        # not there refuses the connection); the listen / poll loops idle, so a live device stays `online: false` and no traffic
        # is attempted; PUT /devices does not wait for devices to come online
        from qtoggleserver.core import responses as core_responses
        settings.slaves.long_timeout = 0
        self.sim = {}

        async def sim_api_call(slave, method, path, body=None, timeout=None, retry_counter=0):
            dev = hub.sim.get(slave.get_host())
            if dev is None:
                raise core_responses.ConnectionRefused()
            slave.update_last_sync()
            if (method, path) == ('GET', '/device'):
                return copy.deepcopy(dev)
            if (method, path) == ('GET', '/ports'):
                return []
            if method == 'GET' and path in ('/webhooks', '/reverse'):
                return {}
            raise core_responses.HTTPError(404, 'no-such-function')

        async def idle_loop(slave):
            try:
                await asyncio.sleep(3600)
            except asyncio.CancelledError:
                pass

        slaves_devices.Slave.api_call = sim_api_call
        slaves_devices.Slave._listen_loop = idle_loop
        slaves_devices.Slave._poll_loop = idle_loop

        def make_exc(kind):
            if kind == 'OSError':
                return OSError(5, 'scripted I/O error')
            if kind == 'PortReadError':
                return core_ports.PortReadError('scripted read error')
            if kind == 'SkipRead':
                return core_ports.SkipRead()
            if kind == 'TimeoutError':
                return asyncio.TimeoutError()
            return RuntimeError('scripted driver failure')

        self.make_exc = make_exc
        self.hw_classes = {'bool_rw': HwBoolRW, 'num_rw': HwNumRW, 'num_ro': HwNumRO, 'custom': HwCustom}
        self.transform_log = []

        # record every evaluation of a read/write transform (the model takes expression evaluation as given)
        orig_trw = core_ports.BasePort.transform_and_write_value
        orig_rtv = core_ports.BasePort.read_transformed_value

        async def rec_write(port, value):
            tw = port._transform_write
            if tw is None:
                return await orig_trw(port, value)
            captured = {}
            orig_q = port._write_value_queued

            async def q(v):
                captured['v'] = v
                return await orig_q(v)

            port._write_value_queued = q
            try:
                return await orig_trw(port, value)
            finally:
                del port._write_value_queued
                if 'v' in captured:
                    hub.transform_log.append([port.get_id(), str(tw), 'w', value, captured['v']])

        async def rec_read(port):
            tr = port._transform_read
            if tr is None:
                return await orig_rtv(port)
            captured = {}
            orig_r = port.read_value

            async def r():
                captured['v'] = await orig_r()
                return captured['v']

            port.read_value = r
            try:
                out = await orig_rtv(port)
            finally:
                del port.read_value
            if 'v' in captured:
                hub.transform_log.append([port.get_id(), str(tr), 'r', captured['v'], out])
            return out

        core_ports.BasePort.transform_and_write_value = rec_write
        core_ports.BasePort.read_transformed_value = rec_read

    # ------------------------------------------------------------------------------------------------------------
    async def drain(self, n=6):
        for _ in range(n):
            await asyncio.sleep(0)

    async def settle(self):
        """what the hub's update loop does over the next ticks: poll, evaluate, write, until nothing changes"""
        cp = self.core_ports
        last = None
        for _ in range(SETTLE_ROUNDS):
            await self.drain()
            await self.core_main.update()
            await self.drain()
            tasks = set(self.ev_handlers._active_handle_tasks)
            if tasks:
                await asyncio.wait(tasks)
            busy = any(p._write_value_queue.qsize() or p._writing or p.has_pending_eval() for p in cp.get_all())
            snap = [(p.get_id(), p.get_last_read_value()) for p in cp.get_all()]
            if not busy and snap == last:
                return True
            last = snap
        return False

    async def teardown(self):
        cp = self.core_ports
        self.core_main.enable_updating()
        self.core_events.enable()
        for p in list(self.peripherals.get_all()):
            try:
                await p.cleanup_ports(persisted_data=True)
            except Exception:  # noqa: BLE001
                pass
            try:
                await self.peripherals.remove(p.get_id(), persisted_data=True)
            except Exception:  # noqa: BLE001
                self.peripherals._registered_peripherals.pop(p.get_id(), None)
        for s in list(self.slaves_devices.get_all()):
            try:
                await self.slaves_devices.remove(s)
            except Exception:  # noqa: BLE001
                pass
        self.slaves_devices._slaves_by_name.clear()
        for port in list(cp.get_all()):
            try:
                if port._sequence:
                    await port._sequence.cancel()
                    port._sequence = None
                await port.remove()
            except (Exception, asyncio.CancelledError):  # noqa: BLE001
                pass
            cp._ports_by_id.pop(port.get_id(), None)
        self.core_vports._vport_args.clear()
        await self.drain()
        self.core_main._force_eval_expression_ports.clear()
        self.core_main._force_eval_all_expressions = False
        self.core_main._ports_with_read_error.clear() if hasattr(self.core_main._ports_with_read_error, 'clear') else None
        await self.core_device.reset()
        await self.core_device.load()
        self.device_attrs = sys.modules['qtoggleserver.core.device.attrs']
        self.settings.core.virtual_ports = self.default_virtual_ports
        # a new, empty in-memory store
        self.persist._thread_local.driver = self.MemDriver()
        problems = []
        if cp.get_all():
            problems.append('ports left: %s' % [p.get_id() for p in cp.get_all()])
        if self.peripherals.get_all() or self.slaves_devices.get_all():
            problems.append('peripherals/slaves left')
        for coll in ('ports', 'vports', 'slaves', 'peripherals'):
            if list(await self.persist.query(coll)):
                problems.append('persisted %s left' % coll)
        return problems

    def flags(self):
        return [bool(self.core_main._updating_enabled), bool(self.ev_handlers._enabled)]

    async def behaviour(self):
        """[a polling pass runs, a triggered event reaches a handler] - observed, not read from the flags"""
        before = self.passes
        await self.core_main.update()
        polled = self.passes > before
        seen = self.recorder.seen
        await self.core_events.trigger_full_update()
        return [polled, self.recorder.seen > seen]

    async def call(self, func, *args):
        try:
            out = func(self.req, *args)
            if asyncio.iscoroutine(out) or isinstance(out, asyncio.Future):
                out = await out
            return ['ok', out]
        except self.core_api.APIError as e:
            return ['api', e.status, e.code, _jsonable(e.params)]
        except self.core_api.APIAccepted:
            return ['ok', 'accepted']
        except Exception as e:  # noqa: BLE001
            return ['exc', type(e).__name__, str(e)[:300]]

    async def docs(self):
        out = {}
        for name, f in (('ports', self.api_ports.get_ports), ('device', self.api_device.get_device),
                        ('devices', self.api_slaves.get_slave_devices), ('peripherals', self.api_peripherals.get_peripherals)):
            r = await self.call(f)
            out[name] = _jsonable(r[1]) if r[0] == 'ok' else {'__error__': r}
        return out

    async def build(self, hardware, ops):
        cp = self.core_ports
        outcomes = []
        if hardware:
            ports = await cp.load([{'driver': self.hw_classes[h['kind']], 'port_id': h['id'], 'inp': h.get('input')}
                                   for h in hardware])
            for h, port in zip(hardware, ports):
                if h.get('enabled', True):
                    await port.enable()
        for op in ops:
            kind = op[0]
            if kind == 'post_port':
                r = await self.call(self.api_ports.post_ports, copy.deepcopy(op[1]))
            elif kind == 'patch_port':
                r = await self.call(self.api_ports.patch_port, op[1], copy.deepcopy(op[2]))
            elif kind == 'patch_value':
                r = await self.call(self.api_ports.patch_port_value, op[1], op[2])
            elif kind == 'delete_port':
                r = await self.call(self.api_ports.delete_port, op[1])
            elif kind == 'patch_device':
                r = await self.call(self.api_device.patch_device, copy.deepcopy(op[1]))
            elif kind == 'put_slaves':
                r = await self.call(self.api_slaves.put_slave_devices, copy.deepcopy(op[1]))
            elif kind == 'patch_sequence':   # ["patch_sequence", id, {"values": [...], "delays": [ms...], "repeat": n}]
                r = await self.call(self.api_ports.patch_port_sequence, op[1], copy.deepcopy(op[2]))
            elif kind == 'post_slave':       # ["post_slave", {scheme, host, port, path, admin_password, poll_interval?, listen_enabled?}]
                r = await self.call(self.api_slaves.post_slave_devices, copy.deepcopy(op[1]))
            elif kind == 'patch_slave':      # ["patch_slave", name, {poll_interval | listen_enabled | enabled}]
                r = await self.call(self.api_slaves.patch_slave_device, op[1], copy.deepcopy(op[2]))
            elif kind == 'post_peripheral':
                r = await self.call(self.api_peripherals.post_peripherals, copy.deepcopy(op[1]))
            elif kind == 'delete_peripheral':
                r = await self.call(self.api_peripherals.delete_peripheral, op[1])
            elif kind == 'set_setting':      # ["set_setting", "virtual_ports", n]: the hub's limit of virtual ports
                setattr(self.settings.core, op[1], op[2])
                r = ['ok', None]
            else:
                raise ValueError(kind)
            await self.drain(3)
            outcomes.append([r[0]] + ([None] if r[0] == 'ok' else _jsonable(r[1:])))
        await self.settle()
        return outcomes

    async def raw_values(self):
        """what each port's driver reads at this moment (the harness ports, virtual ports and the mock peripheral ports read
        without side effects)"""
        out = {}
        for p in self.core_ports.get_all():
            try:
                out[p.get_id()] = _jsonable(await p.read_value())
            except Exception:  # noqa: BLE001
                out[p.get_id()] = None
        return out

    def parse_table(self, docs_list):
        """the real parser on every expression / transform text that occurs (and on what it prints):
        [port id, text, role, ok, printed, ids of the $port nodes in the order check_loops visits them]"""
        ce = self.core_expressions
        roles = {'expression': ce.ROLE_VALUE, 'transform_read': ce.ROLE_TRANSFORM_READ, 'transform_write': ce.ROLE_TRANSFORM_WRITE}
        todo = []
        for doc in docs_list:
            if not isinstance(doc, list):
                continue
            for e in doc:
                if not isinstance(e, dict) or not isinstance(e.get('id'), str):
                    continue
                for k in roles:
                    if isinstance(e.get(k), str) and e[k]:
                        todo.append((e['id'], e[k], k))
        # any port may be asked about any text that some port holds (loop detection follows references)
        seen, out = set(), []

        def deps_of(x, acc):
            if isinstance(x, ce.PortValue):
                acc.append(x.port_id)
            elif isinstance(x, ce.Function):
                for a in x.args:
                    deps_of(a, acc)
            return acc

        while todo:
            pid, text, k = todo.pop()
            if (pid, text, k) in seen:
                continue
            seen.add((pid, text, k))
            try:
                ex = ce.parse(pid, text, role=roles[k])
                printed = str(ex)
                out.append([pid, text, k, True, printed, deps_of(ex, [])])
                if printed != text:
                    todo.append((pid, printed, k))
            except ce.ExpressionParseError:
                out.append([pid, text, k, False, None, []])
            except Exception as e:  # noqa: BLE001
                out.append([pid, text, k, False, 'exc:%s' % type(e).__name__, []])
        return out

    async def advertised_order(self):
        """the documents in the order a client restores a complete backup: the standard endpoints (the constants of the bundled
        frontend, read by harness/translate/backupendpoints.py) and those THIS hub advertises (the real get_backup_endpoints),
        ascending `order`, stable - restricted to the four documents of the property"""
        from harness.translate import backupendpoints
        from qtoggleserver.core.api.funcs import backup as api_backup
        r = await self.call(api_backup.get_backup_endpoints)
        adv = [(e['path'], e['order']) for e in r[1]] if r[0] == 'ok' else []
        eps = list(backupendpoints.standard()) + adv
        names = {'/device': 'device', '/devices': 'devices', '/peripherals': 'peripherals', '/ports': 'ports'}
        seq = [names[p] for p, _o in sorted(eps, key=lambda e: e[1]) if p in names]
        return seq, _jsonable(r[1] if r[0] == 'ok' else r)

    async def restore(self, name, doc):
        f = {'ports': self.api_ports.put_ports, 'device': self.api_device.put_device,
             'devices': self.api_slaves.put_slave_devices, 'peripherals': self.api_peripherals.put_peripherals}[name]
        r = await self.call(f, doc)
        return [r[0]] + ([None] if r[0] == 'ok' else _jsonable(r[1:]))


def _jsonable(x):
    return json.loads(json.dumps(x, default=lambda o: '<%s>' % type(o).__name__))


def mutate(doc, m):
    kind = m[0]
    if kind == 'replace':
        return copy.deepcopy(m[1])
    doc = copy.deepcopy(doc)
    if kind == 'set':
        if isinstance(doc, list):
            if 0 <= m[1] < len(doc):
                doc[m[1]][m[2]] = m[3]
        else:
            doc[m[2]] = m[3]
    elif kind == 'del':
        if isinstance(doc, list):
            if 0 <= m[1] < len(doc):
                doc[m[1]].pop(m[2], None)
        else:
            doc.pop(m[2], None)
    elif kind == 'append':
        doc.append(m[1])
    elif kind == 'insert':
        doc.insert(m[1], m[2])
    elif kind == 'drop':
        if 0 <= m[1] < len(doc):
            del doc[m[1]]
    else:
        raise ValueError(kind)
    return doc


async def run_job(hub, job):
    res = {'clean': []}
    hub.sim = copy.deepcopy(job.get('sim') or {})
    res['clean'] += await hub.teardown()
    res['device_defaults'] = (await hub.docs())['device']
    hub.transform_log = []
    ops = {}
    ops['source'] = await hub.build(job.get('hardware', []), job['source'])
    res['src'] = await hub.docs()
    res['clean'] += await hub.teardown()
    ops['target'] = await hub.build(job.get('hardware', []), job['target'])
    res['tgt'] = await hub.docs()
    res['ops'] = ops
    hub.transform_log = []
    sent = copy.deepcopy(res['src'])
    for name, m in job.get('mutate') or []:
        sent[name] = mutate(sent[name], m)
    res['sent'] = {}
    res['put'], res['flags'], res['mid'], res['behaviour'] = {}, {}, {}, {}
    if job.get('restore'):
        order = job['restore']
    else:
        order, res['advertised'] = await hub.advertised_order()
    res['order'] = order
    res['after_put'] = {}
    for name in order:
        if name == 'ports':
            res['mid'] = await hub.docs()     # the hub PUT /ports acts on (peripherals and slaves already restored)
            res['mid_raw'] = await hub.raw_values()
        doc = copy.deepcopy(sent[name])
        res['sent'][name] = copy.deepcopy(doc)
        faulty = []
        if name == 'ports':
            # hardware whose read fails at the moment of the restore (unplugged / broken): {"id":.., "fault": kind} in job.hardware
            for h in job.get('hardware', []):
                port = hub.core_ports.get(h['id'])
                if h.get('fault') and port is not None:
                    port.c20_fault = h['fault']
                    faulty.append(port)
        res['put'][name] = await hub.restore(name, doc)
        for port in faulty:
            port.c20_fault = None
        res['flags'][name] = hub.flags()
        res['behaviour'][name] = await hub.behaviour()
        res['after_put'][name] = (await hub.docs())[name]      # what that endpoint answers right after its own PUT
        if name != order[-1] and res['flags'][name] != [True, True]:
            # a later PUT would hide it (put_ports switches both on again); the observation above is what counts
            hub.core_main.enable_updating()
            hub.core_events.enable()
    # what the hub holds the moment the restore returns (before the next polling passes)
    res['immediately'] = await hub.docs()
    if not res['mid']:
        res['mid'] = res['immediately']
        res['mid_raw'] = await hub.raw_values()
    hub.core_main.enable_updating()          # a hub left with polling disabled would otherwise never settle; flags are recorded above
    hub.core_events.enable()
    res['settled'] = await hub.settle()
    if job.get('linger_ms'):
        # a sequence the target was playing takes its next steps in real time: let them happen (or not) before looking
        await asyncio.sleep(job['linger_ms'] / 1000.0)
        res['settled'] = await hub.settle()
    res['after'] = await hub.docs()
    res['transforms'] = _jsonable(hub.transform_log)
    res['parses'] = _jsonable(hub.parse_table([res['src']['ports'], res['tgt']['ports'], res['sent'].get('ports'),
                                               res['after']['ports']]))
    return res


async def amain(inp, outp):
    with open(inp) as f:
        jobs = json.load(f)['jobs']
    hub = Hub()
    results = []
    for job in jobs:
        try:
            results.append(await run_job(hub, job))
        except Exception as e:  # noqa: BLE001
            import traceback
            results.append({'error': '%s: %s' % (type(e).__name__, e), 'traceback': traceback.format_exc()[-2000:]})
    try:
        await hub.teardown()
    except Exception:  # noqa: BLE001
        pass
    with open(outp, 'w') as f:
        json.dump({'results': results}, f)


if __name__ == '__main__':
    asyncio.run(amain(sys.argv[1], sys.argv[2]))
