"""C04 — expression assignments never create a dependency cycle.

Theorems: coq/theories/Props/C04.v (check_loops = closes_cycle for every graph; acyclicity is invariant under every sequence
of assignments / clears / port additions / removals; a rejected assignment keeps the previous expression; no false rejection).
Tie: (C) random and enumerated histories are run through the real code path (virtual ports created the way the API creates
them, `await port.set_attr('expression', text)`, `port.remove()`), and every step's outcome and resulting
`str(port.get_expression())` is compared with the Coq model (Model.step, vm_compute).
Spec oracle: (a) Coq Spec (closes_cycle_b / acyclic_b, proved equivalent to the declarative definitions) applied to the
observations; (b) a brute-force reachability test in this file over the implementation's own objects (`get_deps()` of every
port's current expression), after every step.
"""
import asyncio
import glob
import itertools
import json
import logging
import os
import re
import time

from harness.common import coq

ID = 'C04'
PROPS = 'theories/Props/C04.v'
MODEL_TARGETS = ['theories/C04/Run.vo']
TRANSLATORS = []
TIE = ('correspondence: histories of expression assignments / clears / port removals / re-additions through the real '
       'set_attr("expression") path vs Model.step by vm_compute, every step (outcome + resulting expression text)')
ALLOWED_AXIOMS = []
TRUSTED_BASE = [
    'correspondence harness harness/props/c04.py: generator, the text <-> tree mapping of the generated fragment '
    '(checked each step through str(port.get_expression())), the brute-force reachability oracle over Expression.get_deps()',
    'modelled, not verified: the expression parser (C03), object identity of ports = equality of ids in _ports_by_id, '
    'asyncio (check_loops never suspends on another task: its awaits are all on itself)',
]
ASSUMPTIONS = [
    'the port registry only changes by load_one / remove; ids are never re-mapped while expressions refer to them '
    '(map_id applies to non-virtual ports at start-up only)',
    'assignments are not interleaved: attr_set_expression has no suspension point between check_loops and the store',
    'a port is (re-)added without expression; an expression persisted for it is installed through the same set_attr path',
]

FUNCS = {'ADD': (2, 4), 'MUL': (2, 3), 'MIN': (2, 4), 'MAX': (2, 3), 'IF': (3, 3), 'NOT': (1, 1), 'ABS': (1, 1),
         'AND': (2, 3), 'OR': (2, 3), 'SUB': (2, 2)}
BAD_TEXTS = ['FOO(1)', 'ADD(1', 'ADD(1)', '$p1 $p2', 'IF($p1, 2)', '$p#']
DANGLING = ['x1', 'x2']

# ------------------------------------------------------------------------------------------------------------------
# the fragment of the expression language used here: text <-> tree

def text_of(t):
    k = t[0]
    if k == 'lit':
        return str(t[1])
    if k == 'pv':
        return '$' + t[1]
    if k == 'self':
        return '$'
    return '%s(%s)' % (t[1], ', '.join(text_of(a) for a in t[2]))


class _Bad(Exception):
    pass


def parse_fragment(text):
    """text -> tree, or None when the text is outside the fragment (the harness then tells the model `TBad` and the real
    parser must refuse it too, otherwise the step is a tie failure)."""
    s = text
    pos = [0]

    def ws():
        while pos[0] < len(s) and s[pos[0]] == ' ':
            pos[0] += 1

    def expr():
        ws()
        if pos[0] >= len(s):
            raise _Bad()
        c = s[pos[0]]
        if c == '$':
            m = re.compile(r'[a-zA-Z0-9_.-]*').match(s, pos[0] + 1)
            pos[0] = m.end()
            return ('pv', m.group(0)) if m.group(0) else ('self',)
        m = re.compile(r'[0-9]+').match(s, pos[0])
        if m:
            pos[0] = m.end()
            return ('lit', int(m.group(0)))
        m = re.compile(r'[A-Z]+').match(s, pos[0])
        if not m or m.group(0) not in FUNCS:
            raise _Bad()
        name = m.group(0)
        pos[0] = m.end()
        if pos[0] >= len(s) or s[pos[0]] != '(':
            raise _Bad()
        pos[0] += 1
        args = []
        while True:
            args.append(expr())
            ws()
            if pos[0] < len(s) and s[pos[0]] == ',':
                pos[0] += 1
                continue
            if pos[0] < len(s) and s[pos[0]] == ')':
                pos[0] += 1
                break
            raise _Bad()
        lo, hi = FUNCS[name]
        if not lo <= len(args) <= hi:
            raise _Bad()
        return ('call', name, args)

    try:
        t = expr()
        ws()
        if pos[0] != len(s):
            return None
        return t
    except _Bad:
        return None


def coq_expr(t):
    k = t[0]
    if k == 'lit':
        return '(Lit (Some (VInt %s)))' % coq.z(t[1])
    if k == 'pv':
        return '(PortVal %s)' % cstr(t[1])
    if k == 'self':
        return 'SelfVal'
    return '(Call %s %s)' % (cstr(t[1]), coq.lst([coq_expr(a) for a in t[2]]))


def tree_depth(t):
    return 0 if t[0] != 'call' else 1 + max([tree_depth(a) for a in t[2]] + [0])


def tree_ports(t, acc=None):
    acc = set() if acc is None else acc
    if t[0] == 'pv':
        acc.add(t[1])
    elif t[0] == 'call':
        for a in t[2]:
            tree_ports(a, acc)
    return acc


# ------------------------------------------------------------------------------------------------------------------
# histories: {'ports': [ids present at the start], 'ops': [[kind, port, text]...]}   kind: set | remove | add
# (a clear is a set with text ''; an unparsable text is a set with a text outside the fragment)

def gen_tree(rng, ids, depth, density):
    if depth <= 0 or rng.random() < 0.3:
        r = rng.random()
        if r < density:
            return ('pv', rng.choice(ids))
        if r < density + 0.08:
            return ('self',)
        if r < density + 0.15:
            return ('pv', rng.choice(DANGLING))
        return ('lit', rng.choice([0, 1, 2, 5, 10, 42]))
    name = rng.choice(sorted(FUNCS))
    lo, hi = FUNCS[name]
    return ('call', name, [gen_tree(rng, ids, depth - 1, density) for _ in range(rng.randint(lo, hi))])


def gen_history(rng):
    n = rng.randint(2, 8)
    ids = ['p%d' % i for i in range(1, n + 1)]
    present = [i for i in ids if rng.random() < 0.9] or ids[:2]
    alive = set(present)
    density = rng.choice([0.5, 0.65, 0.8])
    ops = []
    for _ in range(rng.randint(1, 40)):
        r = rng.random()
        gone = [i for i in ids if i not in alive]
        if r < 0.07 and len(alive) > 1:
            p = rng.choice(sorted(alive))
            alive.discard(p)
            ops.append(['remove', p, ''])
        elif r < 0.17 and gone:
            p = rng.choice(gone)
            alive.add(p)
            ops.append(['add', p, ''])
        elif r < 0.24:
            ops.append(['set', rng.choice(sorted(alive)), ''])
        elif r < 0.27:
            ops.append(['set', rng.choice(sorted(alive)), rng.choice(BAD_TEXTS)])
        else:
            p = rng.choice(sorted(alive))
            # mostly chains / shallow trees so that long cycles are attempted, sometimes deep nesting
            d = rng.choice([0, 0, 1, 1, 2, 3])
            ops.append(['set', p, text_of(gen_tree(rng, ids, d, density))])
    return {'ports': present, 'ops': ops}


EXH_PORTS = ['p1', 'p2', 'p3']
EXH_ALPHABET = ['', '$p1', '$p2', '$p3', 'ADD($p2, $p3)', 'MIN($, IF($p1, $p3, 1))']


def exhaustive_histories(max_len):
    steps = [['set', p, t] for p in EXH_PORTS for t in EXH_ALPHABET]
    for n in range(1, max_len + 1):
        for combo in itertools.product(steps, repeat=n):
            yield {'ports': list(EXH_PORTS), 'ops': [list(o) for o in combo]}


# ------------------------------------------------------------------------------------------------------------------
# the implementation

_impl = None


def impl():
    global _impl
    if _impl is None:
        logging.getLogger('qtoggleserver').setLevel(logging.CRITICAL)
        from qtoggleserver.conf import settings
        settings.persist.driver = 'qtoggleserver.drivers.persist.JSONDriver'
        settings.persist.file_path = None       # in-memory store
        settings.core.virtual_ports = 1024
        from qtoggleserver import persist
        from qtoggleserver.core import main  # noqa: F401  (import order: main before ports, as the server does)
        from qtoggleserver.core import ports as core_ports
        from qtoggleserver.core import vports as core_vports
        from qtoggleserver.core import expressions
        from qtoggleserver.core.expressions import exceptions as ex

        class Impl:
            pass
        _impl = Impl()
        _impl.persist, _impl.core_ports, _impl.core_vports, _impl.expressions, _impl.ex = (
            persist, core_ports, core_vports, expressions, ex)
    return _impl


def _edges(I):
    """the implementation's own "reads the value of" relation: `$id` entries of get_deps() of each current expression"""
    g = {}
    for port in I.core_ports.get_all():
        e = port.get_expression()
        g[port.get_id()] = _value_deps(e) if e is not None else set()
    return g


def _value_deps(e):
    return {d[1:] for d in e.get_deps() if d.startswith('$') and len(d) > 1}


def _reach(g, q):
    seen, todo = {q}, [q]
    while todo:
        x = todo.pop()
        for r in g.get(x, ()):
            if r in g and r not in seen:
                seen.add(r)
                todo.append(r)
    return seen


def _distinct_cycle(g):
    """two distinct existing ports that read each other transitively, or None"""
    reach = {q: _reach(g, q) for q in g}
    for q in sorted(g):
        for r in sorted(reach[q]):
            if r != q and q in reach[r]:
                return [q, r]
    return None


async def _add_port(I, pid, enabled):
    # core/api/funcs/ports.py:post_ports
    await I.core_vports.add(pid, 'number', None, None, None, None, None)
    port = await I.core_ports.load_one(
        'qtoggleserver.core.vports.VirtualPort',
        {'id_': pid, 'type_': 'number', 'min_': None, 'max_': None, 'integer': None, 'step': None, 'choices': None},
    )
    if enabled:
        await port.enable()
    await asyncio.sleep(0)   # let the port's write/eval tasks start (cancelling a never-started task makes remove() raise)
    return port


async def _remove_port(I, port):
    # core/api/funcs/ports.py:delete_port
    # Not C04's subject, but the harness must survive it: BasePort.cleanup() cancels the eval task once and awaits it; when the
    # cancellation lands inside Function.eval_args' asyncio.gather and a sibling argument has already failed, gather reports
    # that failure instead of the cancellation, _eval_and_write swallows it, and remove() waits forever.  So: let a running
    # evaluation finish first, and if remove() still does not return, cancel the eval task again.
    for _ in range(20):
        if not port.has_pending_eval():
            break
        await asyncio.sleep(0)
    task = asyncio.ensure_future(port.remove())
    for i in range(2000):
        if task.done():
            break
        await asyncio.sleep(0)
        if i % 10 == 9 and getattr(port, '_eval_task', None) is not None:
            port._eval_task.cancel()
    await asyncio.wait_for(task, 5)
    await I.core_vports.remove(port.get_id())


async def run_history(I, h):
    """-> (observations [(outcome, text_after)], oracle verdict None | (step index, kind, detail))"""
    for port in list(I.core_ports.get_all()):
        await _remove_port(I, port)
    obs = []
    verdict = None
    try:
        for i, pid in enumerate(h['ports']):
            await _add_port(I, pid, i % 2 == 0)
        for k, (kind, pid, text) in enumerate(h['ops']):
            port = I.core_ports.get(pid)
            bad = None
            if kind == 'add':
                if port is not None:
                    obs.append(('noport', ''))
                    continue
                port = await _add_port(I, pid, k % 2 == 0)
                outcome = 'accepted'
                after = str(port.get_expression()) if port.get_expression() else ''
            elif kind == 'remove':
                if port is None:
                    obs.append(('noport', ''))
                    continue
                await _remove_port(I, port)
                outcome, after = 'accepted', ''
                if I.core_ports.get(pid) is not None:
                    outcome = 'other:still-registered'
            else:
                if port is None:
                    obs.append(('noport', ''))
                    continue
                before_expr = port.get_expression()
                before = str(before_expr) if before_expr else ''
                graph = _edges(I)
                # what the specification says about this assignment, from the implementation's own objects
                cand, closes = None, False
                if text:
                    try:
                        cand = I.expressions.parse(pid, text, I.expressions.ROLE_VALUE)
                    except I.ex.ExpressionParseError:
                        cand = None
                    if cand is not None:
                        closes = any(q != pid and q in graph and pid in _reach(graph, q) for q in _value_deps(cand))
                try:
                    await port.set_attr('expression', text)
                    outcome = 'accepted'
                except I.core_ports.InvalidAttributeValue as e:
                    reason = (e.details or {}).get('reason')
                    outcome = 'circular' if reason == 'circular-dependency' else 'parse'
                except I.ex.CircularDependency:
                    outcome = 'circular'
                except Exception as e:  # anything else is outside the model's alphabet -> tie failure
                    outcome = 'other:%s' % type(e).__name__
                after_expr = port.get_expression()
                after = str(after_expr) if after_expr else ''
                if text and cand is not None:
                    if closes and outcome != 'circular':
                        bad = ('cycle-accepted', 'assignment closes a cycle but was %s' % outcome)
                    elif not closes and outcome == 'circular':
                        bad = ('false-rejection', 'assignment closes no cycle between distinct ports but was rejected')
                    elif outcome == 'accepted' and after != str(cand):
                        bad = ('not-installed', 'accepted but the expression is %r' % after)
                if bad is None and outcome in ('circular', 'parse') and (after != before or after_expr is not before_expr):
                    bad = ('rejected-but-changed', 'rejected (%s) but the expression changed from %r to %r' % (outcome, before, after))
                if bad is None and not text and after != '':
                    bad = ('not-cleared', 'empty text did not clear the expression')
            cyc = _distinct_cycle(_edges(I))
            if cyc is not None:
                bad = ('cycle-present', 'ports %s and %s read each other' % tuple(cyc))
            obs.append((outcome, after))
            if bad is not None and verdict is None:
                verdict = (k, bad[0], bad[1])
    finally:
        for port in list(I.core_ports.get_all()):
            try:
                await _remove_port(I, port)
            except Exception:
                I.core_ports._ports_by_id.pop(port.get_id(), None)
    return obs, verdict


async def _run_batch(I, hs):
    out = []
    for h in hs:
        out.append(await run_history(I, h))
    return out


def run_impl(hs):
    I = impl()
    lvl = logging.root.manager.disable
    logging.disable(logging.CRITICAL)
    try:
        return asyncio.run(_run_batch(I, hs))
    finally:
        logging.disable(lvl)


# ------------------------------------------------------------------------------------------------------------------
# Coq side

# string literals are the expensive part of a case file (each character is elaborated to eight booleans): the recurring ones
# (port ids, function names) are defined once and referred to by name
_NAMES = {}
for _s in ['p%d' % _i for _i in range(1, 9)] + DANGLING + sorted(FUNCS):
    _NAMES[_s] = 's_' + _s
HEADER = ('From QT Require Import C04.Run.\nOpen Scope string_scope.\n'
          + ''.join('Definition %s := %s.\n' % (v, coq.string(k)) for k, v in sorted(_NAMES.items())))


def cstr(s):
    return _NAMES.get(s) or coq.string(s)


OUTCOME = {'accepted': 'Accepted', 'circular': 'Circular', 'parse': 'ParseError', 'noport': 'NoPort'}


def coq_op(kind, pid, text):
    if kind == 'add':
        return 'OAdd %s' % cstr(pid)
    if kind == 'remove':
        return 'ORemove %s' % cstr(pid)
    if text == '':
        return 'OSet %s TEmpty' % cstr(pid)
    t = parse_fragment(text)
    if t is None:
        return 'OSet %s TBad' % cstr(pid)
    return 'OSet %s (TExpr %s)' % (cstr(pid), coq_expr(t))


def coq_hist(h, obs):
    rows = []
    for (kind, pid, text), (outcome, after) in zip(h['ops'], obs):
        t = parse_fragment(text) if kind == 'set' and text else None
        a = 'ANew' if (t is not None and after == text_of(t)) else 'AText %s' % coq.string(after)
        rows.append('(%s, %s, %s)' % (coq_op(kind, pid, text), OUTCOME[outcome], a))
    return '(%s, [%s])' % (coq.lst(h['ports'], cstr), ';\n   '.join(rows))


# ------------------------------------------------------------------------------------------------------------------
# shrinking (against the brute-force oracle on the implementation; no Coq in the loop)

def _simpler_trees(t):
    if t[0] == 'call':
        for a in t[2]:
            yield a
        for i, a in enumerate(t[2]):
            for b in _simpler_trees(a):
                yield ('call', t[1], t[2][:i] + [b] + t[2][i + 1:])
        lo, _ = FUNCS[t[1]]
        if len(t[2]) > lo:
            for i in range(len(t[2])):
                yield ('call', t[1], t[2][:i] + t[2][i + 1:])
    elif t[0] in ('pv', 'self'):
        yield ('lit', 1)


def shrink(h, kind):
    def fails(c):
        _, v = run_impl([c])[0]
        return v is not None and v[1] == kind

    cur = {'ports': list(h['ports']), 'ops': [list(o) for o in h['ops']]}
    _, v = run_impl([cur])[0]
    if v is None:
        return cur
    cur['ops'] = cur['ops'][:v[0] + 1]
    changed = True
    budget = 400
    while changed and budget > 0:
        changed = False
        for i in reversed(range(len(cur['ops']))):
            c = {'ports': cur['ports'], 'ops': cur['ops'][:i] + cur['ops'][i + 1:]}
            budget -= 1
            if c['ops'] and fails(c):
                cur, changed = c, True
        for i, (k, p, text) in enumerate(cur['ops']):
            t = parse_fragment(text) if k == 'set' and text else None
            if t is None:
                continue
            for t2 in _simpler_trees(t):
                c = {'ports': cur['ports'], 'ops': cur['ops'][:i] + [[k, p, text_of(t2)]] + cur['ops'][i + 1:]}
                budget -= 1
                if fails(c):
                    cur, changed = c, True
                    break
        for pid in list(cur['ports']):
            if len(cur['ports']) > 1 and not any(o[1] == pid for o in cur['ops']):
                c = {'ports': [q for q in cur['ports'] if q != pid], 'ops': cur['ops']}
                budget -= 1
                if fails(c):
                    cur, changed = c, True
    return cur


# ------------------------------------------------------------------------------------------------------------------

def load_corpus():
    out = []
    for path in sorted(glob.glob(os.path.join(coq.VERIF, 'corpus', ID, '*.json'))):
        with open(path) as f:
            d = json.load(f)
        for h in d.get('histories', [d] if 'ops' in d else []):
            out.append({'ports': list(h['ports']), 'ops': [list(o) for o in h['ops']], 'name': os.path.basename(path)})
    return out


def _nontrivial(h, obs):
    """at least one circular rejection and one accepted assignment of a function call that reads another port"""
    rej = any(o[0] == 'circular' for o in obs)
    acc = False
    for (kind, pid, text), o in zip(h['ops'], obs):
        if kind == 'set' and text and o[0] == 'accepted':
            t = parse_fragment(text)
            if t is not None and t[0] == 'call' and (tree_ports(t) - {pid}):
                acc = True
    return rej and acc


def _violation(h, k, kind, detail, obs, do_shrink=True):
    small = shrink(h, kind) if do_shrink else {'ports': h['ports'], 'ops': h['ops'][:k + 1]}
    sobs, sv = run_impl([small])[0]
    return {
        'key': {'kind': kind},
        'what': '%s: %s (history of %d operations over ports %s; last operation %s)' % (
            kind, (sv or (0, kind, detail))[2], len(small['ops']), ','.join(small['ports']), small['ops'][-1]),
        'case': {'ports': small['ports'], 'ops': small['ops']},
        'observed': [list(o) for o in sobs],
        'expected': 'an assignment is rejected with circular-dependency iff it closes a cycle between distinct ports; '
                    'a rejected assignment leaves the previous expression; the graph stays acyclic',
    }


def run_histories(ctx, res, hs, tag, every=False, shard_size=250, count_distinct=None):
    t0 = time.time()
    results = run_impl(hs)
    t_impl = time.time() - t0
    d = res['distribution']

    def bump(k, n=1):
        d[k] = d.get(k, 0) + n

    usable = []
    n_viol = 0
    for h, (obs, verdict) in zip(hs, results):
        res['evaluations'] += 1
        bump('histories')
        bump('ports:%d' % len(set(h['ports']) | {o[1] for o in h['ops']}))
        bump('length:%s' % ('1-4' if len(h['ops']) <= 4 else '5-10' if len(h['ops']) <= 10 else '11-20' if len(h['ops']) <= 20 else '21-40'))
        for (kind, pid, text), o in zip(h['ops'], obs):
            bump('op:%s' % ('clear' if kind == 'set' and not text else kind))
            bump('outcome:%s' % o[0].split(':')[0])
            if kind == 'set' and text:
                t = parse_fragment(text)
                if t is not None:
                    bump('depth:%d' % tree_depth(t))
        if count_distinct is not None and _nontrivial(h, obs):
            count_distinct.add(json.dumps([h['ports'], h['ops']]))
        if verdict is not None and n_viol < 5:
            n_viol += 1
            res['violations'].append(_violation(h, verdict[0], verdict[1], verdict[2], obs))
        others = [(k, o) for k, o in enumerate(obs) if o[0] not in OUTCOME]
        if others:
            k, o = others[0]
            res['tie_failures'].append({'ports': h['ports'], 'ops': h['ops'][:k + 1], 'implementation': list(o),
                                        'note': 'outcome outside the model alphabet'})
            continue
        usable.append((h, obs))
    res['extra']['impl_wall_s'] = round(res['extra'].get('impl_wall_s', 0) + t_impl, 2)
    if not ctx.model_ok:
        res['tie_failures'].append('model not built; cases not evaluated')
        return results
    shards, meta = [], []
    for i in range(0, len(usable), shard_size):
        part = usable[i:i + shard_size]
        shards.append('Definition cases : list hist := Eval vm_compute in [\n %s].\n' % ';\n '.join(coq_hist(h, o) for h, o in part))
        meta.append(part)
    t0 = time.time()
    outs = coq.eval_shards(ctx.workdir, 'c04' + tag, HEADER, shards,
                           ['bad_model cases', 'bad_spec %s cases' % ('true' if every else 'false')])
    res['extra']['coq_wall_s'] = round(res['extra'].get('coq_wall_s', 0) + time.time() - t0, 2)
    for (rc, lists, err), part in zip(outs, meta):
        if rc != 0 or len(lists) != 2:
            res['tie_failures'].append('coqc failed on a case shard: %s' % err[-600:])
            continue
        bad_model, bad_spec = lists
        for code in bad_model[:5]:
            h, obs = part[code // 1000]
            k = code % 1000
            res['tie_failures'].append({'ports': h['ports'], 'ops': h['ops'][:k + 1],
                                        'implementation': [list(o) for o in obs[:k + 1]][-3:],
                                        'note': 'model differs from implementation at step %d' % k})
        for code in bad_spec[:5]:
            h, obs = part[code // 1000]
            k = min(code % 1000, len(h['ops']) - 1)
            if any(v['case']['ops'] == h['ops'][:len(v['case']['ops'])] for v in res['violations']):
                continue
            v = _violation(h, k, 'coq-spec', 'the observation at step %d contradicts Spec.closes_cycle_b / acyclic_b' % k, obs,
                           do_shrink=False)
            res['violations'].append(v)
    return results


def check(ctx, res):
    res['rule'] = (
        'histories of 1..40 operations over 2..8 virtual ports (some absent at the start): 73% assignments of random trees '
        '(depth 0..3 over ADD MUL MIN MAX IF NOT ABS AND OR SUB, leaves $id / $ / dangling ids / literals), 7% clears, 3% '
        'unparsable texts, 7% removals, <=10% re-additions; every step through the real set_attr/remove/load_one. '
        'distinct = distinct histories; non-trivial = contains a circular-dependency rejection and an accepted assignment of a '
        'function call reading another port')
    I = impl()
    if ctx.replay:
        with open(ctx.replay) as f:
            d = json.load(f)
        case = d.get('case', d)
        run_histories(ctx, res, [{'ports': case['ports'], 'ops': case['ops']}], 'replay', every=True)
        return
    corpus = load_corpus()
    if corpus:
        run_histories(ctx, res, corpus, 'corpus', every=True)
        res['distribution']['corpus'] = len(corpus)
    distinct = set()
    n = ctx.n(2000, 100000)
    done = 0
    while done < n:
        m = min(4000, n - done)
        hs = [gen_history(ctx.rng) for _ in range(m)]
        results = run_histories(ctx, res, hs, 'r%d' % done, every=False, count_distinct=distinct)
        if done == 0:
            for h, (obs, _) in list(zip(hs, results))[:4]:
                res['samples'].append({'ports': h['ports'],
                                       'steps': [{'op': o, 'outcome': ob[0], 'expression_after': ob[1]}
                                                 for o, ob in zip(h['ops'][:12], obs[:12])]})
        done += m
        if len(res['violations']) >= 5:
            break
    res['distinct_nontrivial'] = len(distinct)
    if ctx.tier == 'thorough':
        batch = []
        total = 0
        for h in exhaustive_histories(4):
            batch.append(h)
            if len(batch) == 8000:
                run_histories(ctx, res, batch, 'e%d' % total, every=False, shard_size=1000)
                total += len(batch)
                batch = []
        if batch:
            run_histories(ctx, res, batch, 'e%d' % total, every=False, shard_size=1000)
            total += len(batch)
        res['distribution']['exhaustive_histories'] = total
        res['extra']['exhaustive_scope'] = ('all %d histories of <= 4 assignments over ports %s with the texts %r'
                                            % (total, EXH_PORTS, EXH_ALPHABET))
    del I


def search(ctx, res):
    """the proof or the tie broke: look harder for a concrete failing input (spec oracles vs implementation)"""
    n = ctx.n(20000, 200000)
    done = 0
    while done < n and not res['violations']:
        hs = [gen_history(ctx.rng) for _ in range(4000)]
        run_histories(ctx, res, hs, 's%d' % done, every=True)
        done += len(hs)
    if not res['violations']:
        hs = list(itertools.islice(exhaustive_histories(3), 6200))
        run_histories(ctx, res, hs, 'sx', every=True, shard_size=1000)


REPLAY_HELP = ('bin/check C04 --replay <this file>; or in /repo: create the virtual ports of case.ports '
               '(core_vports.add + core_ports.load_one), then for each [kind, port, text] of case.ops: '
               'set -> await port.set_attr("expression", text); remove -> await port.remove(); add -> load_one again')

LEVEL_TEXT = (
    'Coq theorems over a Gallina model of check_loops (the recursive walk with the shared seen_ports set, level counter, '
    'dangling ids, $ = the owner, descent through function arguments; structural recursion on fuel = ports + 1, proved '
    'sufficient), attr_set_expression and port add/remove: for EVERY graph (acyclic or not), port and expression the check '
    'raises CircularDependency iff the assignment would make the port read a different port that already reads it '
    '(soundness by induction on the run, completeness by the closed-set argument over the threaded seen set); hence for every '
    'sequence of assignments, clears, additions and removals from an acyclic graph the graph stays acyclic between distinct '
    'ports; a rejected assignment keeps the previous expression; an assignment that closes no cycle (self references '
    'included) is never rejected. The model is compared step by step with the real set_attr("expression") path on generated '
    'histories, and the real outcomes are compared with the Coq specification oracle (proved equivalent to the declarative '
    'definitions) and with a brute-force reachability test over the implementation\'s own get_deps().'
)
LEVEL_NOTE = (
    'Trusted: Coq kernel incl. vm_compute; the correspondence harness (generator, text<->tree mapping of the generated '
    'fragment, checked through str(expression) at every step); the parser is not modelled (C03); port identity = id equality. '
    'Assumes assignments are not interleaved and ids are not re-mapped while referenced. No axioms (Print Assumptions: closed '
    'under the global context).'
)
TECHNIQUE = 'Coq proof (induction on fuel and expression structure; closed-set invariant for the DFS) + vm_compute correspondence on generated histories'
