"""C04 — expression assignments never create a dependency cycle.

Theorems: coq/theories/Props/C04.v (check_loops = closes_cycle for every graph; acyclicity is invariant under every sequence
of assignments / clears / port additions / removals; a rejected assignment keeps the previous expression; no false rejection).
Tie: (C) random and enumerated histories are run through the real code path (virtual ports created the way the API creates
them, `await port.set_attr('expression', text)`, `port.remove()`), and every step's outcome and resulting
`str(port.get_expression())` is compared with the Coq model (Model.step, vm_compute).
Spec oracle: (a) Coq Spec (closes_cycle_b / acyclic_b, proved equivalent to the declarative definitions) applied to the
observations; (b) a brute-force reachability test in this file over the TEXT of the expressions the ports hold (every `$id`
occurring in it; not get_deps(), not any walk of the code under test), after every step.
"""
import asyncio
import glob
import itertools
import json
import logging
import os
import re
import signal
import time

from harness.common import coq
from harness.translate import exprstore

ID = 'C04'
PROPS = 'theories/Props/C04.v'
MODEL_TARGETS = ['theories/C04/Run.vo']
TRANSLATORS = [exprstore.translate]
TIE = ('translator (no suspension point between check_loops and the store of the expression; check_loops awaits only itself) + '
       'correspondence: histories of expression assignments / clears / port removals / re-additions, single and concurrent '
       '(asyncio.gather, on ports with and without a running value sequence), through the real set_attr("expression") path vs '
       'Model.step by vm_compute, every step (outcome + resulting expression text; a concurrent step must equal some serialization)')
ALLOWED_AXIOMS = []
TRUSTED_BASE = [
    'harness/translate/exprstore.py (counts the suspension points between `await check_loops(...)` and `self._expression = '
    'expression` in attr_set_expression, and the awaits of check_loops other than its own recursion)',
    'correspondence harness harness/props/c04.py: generator, the text <-> tree mapping of the generated fragment '
    '(checked each step through str(port.get_expression())), the brute-force reachability oracle over the $id occurrences of the expression texts',
    'modelled, not verified: the expression parser (C03), object identity of ports = equality of ids in _ports_by_id, '
    'asyncio (check_loops never suspends on another task: its awaits are all on itself)',
]
ASSUMPTIONS = [
    'the recursive walk of check_loops stays below the interpreter\'s recursion limit (on /repo: RecursionError beyond ~330 '
    'chained ports with doubly nested calls, ~990 with plain references; see notes/C04.md); the model has no such limit',
    'the port registry only changes by load_one / remove; ids are never re-mapped while expressions refer to them '
    '(map_id applies to non-virtual ports at start-up only)',
    'concurrent requests: the event-loop model (Model.task_step) lets a request yield any number of times before its check and '
    'after its store, never in between; that number is read from the source on every run (Gen/C04Gen.v) and tested by '
    'concurrent steps, it is not proved about CPython',
    'the persisted store is modelled as id -> expression written by port.save(); other persisted attributes (enabled, ...) and '
    'the persistence driver itself are not (C06/C07)',
]

BASIC_FUNCS = {'ADD': (2, None), 'MUL': (2, None), 'MIN': (2, None), 'MAX': (2, None), 'IF': (3, 3), 'NOT': (1, 1),
               'ABS': (1, 1), 'AND': (2, None), 'OR': (2, None), 'SUB': (2, 2)}


def _registry():
    """name -> (min args, max args | None): the WHOLE function registry of the tree under test (read from the source by
    harness/translate/functable.py): arithmetic, comparison, bitwise, rounding, aggregation, date/time and the time-processing
    functions (SAMPLE DELAY HELD FREEZE DERIV INTEG FMAVG FMEDIAN SEQUENCE ACC ACCINC HYST RISING FALLING ...).  HISTORY is
    only registered when the persistence driver stores samples (not the in-memory JSON driver used here)."""
    try:
        from harness.translate import functable
        table, _ = functable.read_table()
        fs = {e['name']: (e['MIN_ARGS'] or 0, e['MAX_ARGS']) for e in table if e.get('ENABLED') is True}
        fs.pop('SHL', None)     # evaluation hazard of the harness, not C04's subject: int(a) << int(b) with a port value b ~ 1e15
        if len(fs) >= 40 and all(k in fs for k in BASIC_FUNCS):
            return fs
    except Exception:
        pass
    return dict(BASIC_FUNCS)


FUNCS = _registry()
TIME_FUNCS = [f for f in ('SAMPLE', 'DELAY', 'HELD', 'FREEZE', 'DERIV', 'INTEG', 'FMAVG', 'FMEDIAN', 'SEQUENCE', 'ACC', 'ACCINC',
                          'HYST', 'RISING', 'FALLING', 'DEFAULT', 'AVAILABLE', 'ONOFFAUTO', 'LUT', 'LUTLI', 'BOW', 'DATE',
                          'HMSINTERVAL', 'MDINTERVAL') if f in FUNCS]


def pick_arity(rng, name):
    lo, hi = FUNCS[name]
    return rng.randint(lo, hi if hi is not None else lo + 2)


VALUE_DEP_RE = re.compile(r'\$([a-zA-Z0-9_.-]+)')


def text_deps(text):
    """the reads relation by the TEXT: every `$id` occurring anywhere in the expression (a bare `$` is the port itself)"""
    return set(VALUE_DEP_RE.findall(text or ''))

BAD_TEXTS = ['FOO(1)', 'ADD(1', 'ADD(1)', '$p1 $p2', 'IF($p1, 2)', '$p#', 'ADD(@p1, 1)', 'SAMPLE($p1)', 'HISTORY(@p1, 0, 10)']
DANGLING = ['x1', 'x2']

# ------------------------------------------------------------------------------------------------------------------
# the fragment of the expression language used here: text <-> tree

def text_of(t):
    k = t[0]
    if k == 'lit':
        return str(t[1])
    if k == 'pv':
        return '$' + t[1]
    if k == 'self':
        return '$'
    if k == 'ref':
        return '@' + t[1]
    return '%s(%s)' % (t[1], ', '.join(text_of(a) for a in t[2]))


class _Bad(Exception):
    pass


def parse_fragment(text):
    """text -> tree, or None when the text is outside the fragment (the harness then tells the model `TBad` and the real
    parser must refuse it too, otherwise the step is a tie failure)."""
    s = text
    pos = [0]

    def ws():
        while pos[0] < len(s) and s[pos[0]] == ' ':
            pos[0] += 1

    def expr():
        ws()
        if pos[0] >= len(s):
            raise _Bad()
        c = s[pos[0]]
        if c == '$':
            m = re.compile(r'[a-zA-Z0-9_.-]*').match(s, pos[0] + 1)
            pos[0] = m.end()
            return ('pv', m.group(0)) if m.group(0) else ('self',)
        if c == '@':
            m = re.compile(r'[a-zA-Z0-9_.-]+').match(s, pos[0] + 1)
            if not m:
                raise _Bad()
            pos[0] = m.end()
            return ('ref', m.group(0))
        m = re.compile(r'[0-9]+').match(s, pos[0])
        if m:
            pos[0] = m.end()
            return ('lit', int(m.group(0)))
        m = re.compile(r'[A-Z]+').match(s, pos[0])
        if not m or m.group(0) not in FUNCS:
            raise _Bad()
        name = m.group(0)
        pos[0] = m.end()
        if pos[0] >= len(s) or s[pos[0]] != '(':
            raise _Bad()
        pos[0] += 1
        args = []
        ws()
        if pos[0] < len(s) and s[pos[0]] == ')':
            pos[0] += 1
            if FUNCS[name][0] > 0:
                raise _Bad()
            return ('call', name, [])
        while True:
            args.append(expr())
            ws()
            if pos[0] < len(s) and s[pos[0]] == ',':
                pos[0] += 1
                continue
            if pos[0] < len(s) and s[pos[0]] == ')':
                pos[0] += 1
                break
            raise _Bad()
        lo, hi = FUNCS[name]
        if len(args) < lo or (hi is not None and len(args) > hi):
            raise _Bad()
        if any(a[0] == 'ref' for a in args):
            raise _Bad()     # validate_arg_kinds: a port reference is only accepted by HISTORY (not registered here)
        return ('call', name, args)

    try:
        t = expr()
        ws()
        if pos[0] != len(s):
            return None
        return t
    except _Bad:
        return None


def coq_expr(t):
    k = t[0]
    if k == 'lit':
        return '(Lit (Some (VInt %s)))' % coq.z(t[1])
    if k == 'pv':
        return '(PortVal %s)' % cstr(t[1])
    if k == 'self':
        return 'SelfVal'
    if k == 'ref':
        return '(PortRef %s)' % cstr(t[1])
    return '(Call %s %s)' % (cstr(t[1]), coq.lst([coq_expr(a) for a in t[2]]))


def tree_depth(t):
    return 0 if t[0] != 'call' else 1 + max([tree_depth(a) for a in t[2]] + [0])


def tree_ports(t, acc=None):
    acc = set() if acc is None else acc
    if t[0] == 'pv':
        acc.add(t[1])
    elif t[0] == 'call':
        for a in t[2]:
            tree_ports(a, acc)
    return acc


# ------------------------------------------------------------------------------------------------------------------
# histories: {'ports': [ids present at the start], 'ops': [[kind, port, text]...]}   kind: set | remove | add
# (a clear is a set with text ''; an unparsable text is a set with a text outside the fragment)

def gen_tree(rng, ids, depth, density):
    if depth <= 0 or rng.random() < 0.3:
        r = rng.random()
        if r < density:
            return ('pv', rng.choice(ids))
        if r < density + 0.08:
            return ('self',)
        if r < density + 0.15:
            return ('pv', rng.choice(DANGLING))
        return ('lit', rng.choice([0, 1, 2, 5, 10, 42, 1000]))
    name = pick_function(rng)
    if name in SMALL_LITERAL_ARGS:
        return ('call', name, [('lit', rng.choice([0, 1, 2, 5])) for _ in range(pick_arity(rng, name))])
    return ('call', name, [gen_tree(rng, ids, depth - 1, density) for _ in range(pick_arity(rng, name))])


# BOW / BOM / BOY step week by week / month by month in a Python loop of n iterations: with a port value of 1e15 as n the
# evaluation (a background task of the ports enabled by the harness) never ends.  Not C04's subject: literal arguments only.
SMALL_LITERAL_ARGS = ('BOW', 'BOM', 'BOY', 'BOD')


def pick_function(rng, min_args=0):
    r = rng.random()
    pool = sorted(BASIC_FUNCS) if r < 0.4 else TIME_FUNCS if r < 0.75 and TIME_FUNCS else sorted(FUNCS)
    pool = [f for f in pool if f in FUNCS and (FUNCS[f][1] is None or FUNCS[f][1] >= min_args)]
    return rng.choice(pool or sorted(BASIC_FUNCS))


def _wrap_ref(rng, target, ids, density):
    """a small tree that reads $target somewhere"""
    r = rng.random()
    if r < 0.4:
        return ('pv', target)
    name = pick_function(rng, min_args=1)
    while name in SMALL_LITERAL_ARGS:
        name = pick_function(rng, min_args=1)
    args = [gen_tree(rng, ids, rng.choice([0, 0, 1]), density * 0.5) for _ in range(max(1, pick_arity(rng, name)))]
    args[rng.randrange(len(args))] = ('pv', target) if rng.random() < 0.7 else _wrap_ref(rng, target, ids, density)
    return ('call', name, args)


def gen_par(rng, ids, alive, density, ops):
    """append a concurrent step (and, before it, the operations that start value sequences on its ports) to ops"""
    live = sorted(alive)
    k = min(len(live), rng.choice([2, 2, 3]))
    if k < 2:
        return
    mode = rng.random()
    seq_mode = rng.choice(['all', 'all', 'none', 'mixed'])
    subs = []
    if mode < 0.5:
        # requests that close a cycle only together: q0 reads q1, q1 reads q2, ..., the last one reads q0
        qs = rng.sample(live, k)
        for i, q in enumerate(qs):
            subs.append(['set', q, text_of(_wrap_ref(rng, qs[(i + 1) % k], ids, density))])
    else:
        for _ in range(k):
            q = rng.choice(live)
            r = rng.random()
            text = '' if r < 0.1 else rng.choice(BAD_TEXTS) if r < 0.15 else text_of(gen_tree(rng, ids, rng.choice([0, 1, 1, 2]), density))
            subs.append(['set', q, text])
    targets = {q for _, q, _ in subs}
    if mode >= 0.8 and len(alive - targets) >= 1 and len(alive) > 2:
        victim = rng.choice(sorted(alive - targets))
        subs[rng.randrange(len(subs))] = ['remove', victim, '']
        alive.discard(victim)
    for _, q, _ in [x for x in subs if x[0] == 'set']:
        if seq_mode == 'all' or (seq_mode == 'mixed' and rng.random() < 0.5):
            ops.append(['set', q, ''])       # the API refuses a sequence on a port with an expression
            ops.append(['seq', q, ''])
    ops.append(['par', '', subs])


def gen_load_scenario(rng, ids, alive, density, ops):
    """the load path: a persisted expression that is re-assigned when the rest of the graph has changed meanwhile"""
    live = sorted(alive)
    if len(live) < 2:
        return
    p, q = rng.sample(live, 2)
    if rng.random() < 0.5:
        # hot-unplug: p reads q (saved); p goes away keeping its data; q is made to read p; p comes back
        ops.append(['set', p, text_of(_wrap_ref(rng, q, ids, density))])
        ops.append(['save', p, ''])
        ops.append(['unplug', p, ''])
        ops.append(['set', q, text_of(_wrap_ref(rng, p, ids, density))])
        if rng.random() < 0.5:
            ops.append(['save', q, ''])
        ops.append(['add', p, ''])
        ops.append(['probe', q, ''])
    else:
        # crash: p's expression cleared in memory but not saved, q <- $p accepted and saved, restart
        ops.append(['set', p, text_of(_wrap_ref(rng, q, ids, density))])
        ops.append(['save', p, ''])
        ops.append(['set', p, '' if rng.random() < 0.7 else text_of(gen_tree(rng, ids, 1, density))])
        ops.append(['set', q, text_of(_wrap_ref(rng, p, ids, density))])
        ops.append(['save', q, ''])
        ops.append(['restart', '', ''])
        for x in live:
            ops.append(['probe', x, ''])


def gen_able_scenario(rng, ids, alive, density, ops):
    """a port is enabled / disabled (slow driver) while assignments that concern it are served"""
    live = sorted(alive)
    if len(live) < 2:
        return
    p, q = rng.sample(live, 2)
    if rng.random() < 0.6:
        # p is disabled holding an expression that reads q; while p is being enabled its expression is removed (or replaced)
        # and q is made to read p
        ops.append(['set', p, text_of(_wrap_ref(rng, q, ids, density))])
        ops.append(['disable', p, '0'])
        subs = [['enable', p, str(rng.choice([5, 10, 20, 40]))],
                ['set', p, '' if rng.random() < 0.7 else text_of(gen_tree(rng, [x for x in ids if x != q], 1, density))],
                ['set', q, text_of(_wrap_ref(rng, p, ids, density))]]
        ops.append(['par', '', subs])
    else:
        kind = rng.choice(['enable', 'disable'])
        ops.append([('disable' if kind == 'enable' else 'enable'), p, '0'])
        subs = [[kind, p, str(rng.choice([0, 1, 3, 10, 30]))]]
        for _ in range(rng.choice([1, 2])):
            t = rng.choice([p, q])
            subs.append(['set', t, text_of(gen_tree(rng, ids, rng.choice([0, 1, 1]), density))])
        ops.append(['par', '', subs])
    ops.append(['probe', p, ''])
    ops.append(['probe', q, ''])


def gen_restore_scenario(rng, ids, alive, density, ops):
    """PUT /ports: every port is reset, then the attributes of the backup are assigned port by port -- here a backup whose
    dependency direction is the reverse of the running configuration"""
    live = sorted(alive)
    if len(live) < 2:
        return
    k = min(len(live), rng.choice([2, 2, 3]))
    qs = rng.sample(live, k)
    for i in range(k - 1):
        ops.append(['set', qs[i], text_of(_wrap_ref(rng, qs[i + 1], ids, density))])     # running: q0 -> q1 -> ...
    for q in qs:
        ops.append(['reset', q, ''])
    for i in range(k - 1, 0, -1):
        ops.append(['set', qs[i], text_of(_wrap_ref(rng, qs[i - 1], ids, density))])     # backup: ... -> q1 -> q0
    ops.append(['probe', qs[0], ''])


def gen_history(rng, par_rate=0.06, max_len=40, load_rate=0.03):
    n = rng.randint(2, 8)
    ids = ['p%d' % i for i in range(1, n + 1)]
    present = [i for i in ids if rng.random() < 0.9] or ids[:2]
    alive = set(present)
    density = rng.choice([0.5, 0.65, 0.8])
    ops = []
    for _ in range(rng.randint(1, max_len)):
        r = rng.random()
        gone = [i for i in ids if i not in alive]
        if rng.random() < par_rate:
            gen_par(rng, ids, alive, density, ops)
        elif rng.random() < load_rate:
            gen_load_scenario(rng, ids, alive, density, ops)
        elif rng.random() < load_rate:
            gen_able_scenario(rng, ids, alive, density, ops)
        elif rng.random() < load_rate * 0.7:
            gen_restore_scenario(rng, ids, alive, density, ops)
        elif rng.random() < 0.03:
            ops.append([rng.choice(['enable', 'disable', 'reset']), rng.choice(sorted(alive)), '0'])
        elif rng.random() < 0.03 and len(alive) > 1:
            p = rng.choice(sorted(alive))
            alive.discard(p)
            ops.append(['unplug', p, ''])
        elif rng.random() < 0.012:
            ops.append(['restart', '', ''])
            for x in sorted(alive):
                ops.append(['probe', x, ''])
        elif rng.random() < 0.02:
            ops.append(['probe', rng.choice(sorted(alive)), ''])
        elif r < 0.07 and len(alive) > 1:
            p = rng.choice(sorted(alive))
            alive.discard(p)
            ops.append(['remove', p, ''])
        elif r < 0.17 and gone:
            p = rng.choice(gone)
            alive.add(p)
            ops.append(['add', p, ''])
        elif r < 0.24:
            ops.append(['set', rng.choice(sorted(alive)), ''])
        elif r < 0.27:
            ops.append(['set', rng.choice(sorted(alive)), rng.choice(BAD_TEXTS)])
        elif r < 0.29:
            ops.append(['seq', rng.choice(sorted(alive)), ''])
        else:
            p = rng.choice(sorted(alive))
            # mostly chains / shallow trees so that long cycles are attempted, sometimes deep nesting
            d = rng.choice([0, 0, 1, 1, 2, 3])
            if rng.random() < 0.02:
                ops.append(['set', p, '@' + rng.choice(ids)])     # @id: the port itself, not its value -- no edge
            else:
                ops.append(['set', p, text_of(gen_tree(rng, ids, d, density))])
            if rng.random() < 0.5:
                ops.append(['save', p, ''])      # the API saves after a PATCH; a crash may come before
    return {'ports': present, 'ops': ops[:max_len + 10]}


def wrapper_sweep_histories():
    """every function of the registry, every argument position: p1 := F(.., $p2, ..) then p2 := $p1 must be refused (the edge
    is there wherever the `$p2` sits), p1 := F(.., $, ..) and p1 := F(.., $p1, ..) must be accepted"""
    out = []
    for name in sorted(FUNCS):
        lo, hi = FUNCS[name]
        n = max(lo, 1)
        if hi is not None and hi < 1:
            continue
        ops = []
        for i in range(n):
            for leaf in ('$p2', '$', '$p1'):
                args = ['1'] * n
                args[i] = leaf
                ops.append(['set', 'p1', '%s(%s)' % (name, ', '.join(args))])
                if leaf == '$p2':
                    ops.append(['set', 'p2', '$p1'])
                    ops.append(['set', 'p2', 'ADD(1, %s(%s))' % (name, ', '.join(['2'] * i + ['$p1'] + ['2'] * (n - i - 1)))])
        ops.append(['set', 'p1', ''])
        ops.append(['set', 'p2', '$p1'])
        out.append({'ports': ['p1', 'p2'], 'ops': ops})
    return out


LONG_LENGTHS = [17, 24, 40, 64, 200]


def gen_long_history(rng, n):
    """a chain of n ports built in forward / reverse / random order (reverse: every assignment walks the whole chain built
    so far), then assignments that close it at the far end and in the middle (must be refused whatever the length),
    shortcuts that close nothing (must be accepted), a link removed and the closing edge accepted, the link refused.
    Wrappers are at most one function deep: the walk of /repo is recursive (see notes: RecursionError beyond ~330 ports)"""
    ids = ['p%d' % i for i in range(1, n + 1)]

    def link(src, dst):
        r = rng.random()
        if r < 0.6:
            return '$' + dst
        name = pick_function(rng, min_args=1)
        while name in SMALL_LITERAL_ARGS:
            name = pick_function(rng, min_args=1)
        args = [('lit', rng.choice([0, 1, 2, 1000])) for _ in range(max(1, pick_arity(rng, name)))]
        args[rng.randrange(len(args))] = ('pv', dst)
        return text_of(('call', name, args))

    order = list(range(n - 1))
    mode = rng.choice(['forward', 'reverse', 'reverse', 'random'])
    if mode == 'reverse':
        order.reverse()
    elif mode == 'random':
        rng.shuffle(order)
    ops = [['set', ids[i], link(ids[i], ids[i + 1])] for i in order]
    ops.append(['set', ids[-1], link(ids[-1], ids[0])])                       # closes the ring of n ports: refused
    k = rng.randint(n // 2, n - 1)
    j = rng.randint(0, max(0, k - 17)) if k > 17 and rng.random() < 0.7 else rng.randint(0, k - 1)
    ops.append(['set', ids[k], link(ids[k], ids[j])])                         # closes a ring of k - j + 1 ports: refused
    ops.append(['set', ids[j], 'ADD(%s, $%s)' % ('$' + ids[j + 1], ids[k])])  # shortcut forward: accepted
    m = rng.randint(1, n - 2)
    ops.append(['set', ids[m], ''])                                           # the chain is cut
    ops.append(['set', ids[-1], link(ids[-1], ids[0])])                       # ... so this closes nothing: accepted
    ops.append(['set', ids[m], link(ids[m], ids[m + 1])])                     # ... and now this would: refused
    ops.append(['probe', ids[m], ''])
    return {'ports': ids, 'ops': ops}


def gen_par_history(rng):
    """the concurrent generator used by search(): short histories in which every third operation is a concurrent step"""
    return gen_history(rng, par_rate=0.35, max_len=12, load_rate=0.15)


EXH_PORTS = ['p1', 'p2', 'p3']
EXH_ALPHABET = ['', '$p1', '$p2', '$p3', 'ADD($p2, $p3)', 'MIN($, IF($p1, $p3, 1))']


def exhaustive_histories(max_len):
    steps = [['set', p, t] for p in EXH_PORTS for t in EXH_ALPHABET]
    for n in range(1, max_len + 1):
        for combo in itertools.product(steps, repeat=n):
            yield {'ports': list(EXH_PORTS), 'ops': [list(o) for o in combo]}


# ------------------------------------------------------------------------------------------------------------------
# the implementation

_impl = None


def impl():
    global _impl
    if _impl is None:
        logging.getLogger('qtoggleserver').setLevel(logging.CRITICAL)
        from qtoggleserver.conf import settings
        settings.persist.driver = 'qtoggleserver.drivers.persist.JSONDriver'
        settings.persist.file_path = None       # in-memory store
        settings.core.virtual_ports = 1024
        from qtoggleserver import persist
        from qtoggleserver.core import main  # noqa: F401  (import order: main before ports, as the server does)
        from qtoggleserver.core import ports as core_ports
        from qtoggleserver.core import vports as core_vports
        from qtoggleserver.core import expressions
        from qtoggleserver.core.expressions import exceptions as ex

        class LatencyPort(core_vports.VirtualPort):
            """a virtual port whose driver takes a scripted number of event-loop iterations to enable / disable"""
            c04_latency = 0

            async def handle_enable(self):
                n, self.c04_latency = self.c04_latency, 0
                for _ in range(n):
                    await asyncio.sleep(0)

            async def handle_disable(self):
                n, self.c04_latency = self.c04_latency, 0
                for _ in range(n):
                    await asyncio.sleep(0)

        class Impl:
            pass
        _impl = Impl()
        _impl.LatencyPort = LatencyPort
        _impl.persist, _impl.core_ports, _impl.core_vports, _impl.expressions, _impl.ex = (
            persist, core_ports, core_vports, expressions, ex)
    return _impl


def _edges(I):
    """the "reads the value of" relation of the implementation's state, by the TEXT of the expression each port holds: every
    `$id` occurring anywhere in it (not get_deps(), not any walk of the code under test)"""
    g = {}
    for port in I.core_ports.get_all():
        e = port.get_expression()
        g[port.get_id()] = text_deps(str(e)) if e is not None else set()
    return g


def _reach(g, q):
    seen, todo = {q}, [q]
    while todo:
        x = todo.pop()
        for r in g.get(x, ()):
            if r in g and r not in seen:
                seen.add(r)
                todo.append(r)
    return seen


def _distinct_cycle(g):
    """two distinct existing ports that read each other transitively, or None (iterative DFS, self references ignored)"""
    color = {}
    for root in sorted(g):
        if root in color:
            continue
        color[root] = 1
        stack = [(root, iter(sorted(r for r in g[root] if r in g and r != root)))]
        while stack:
            x, it = stack[-1]
            for r in it:
                c = color.get(r)
                if c == 1:
                    return [r, x]
                if c is None:
                    color[r] = 1
                    stack.append((r, iter(sorted(y for y in g[r] if y in g and y != r))))
                    break
            else:
                color[x] = 2
                stack.pop()
    return None


async def _add_port(I, pid, enabled):
    # core/api/funcs/ports.py:post_ports
    await I.core_vports.add(pid, 'number', None, None, None, None, None)
    port = await I.core_ports.load_one(I.LatencyPort, dict(VPORT_ARGS, id_=pid))
    if enabled:
        await port.enable()
    await asyncio.sleep(0)   # let the port's write/eval tasks start (cancelling a never-started task makes remove() raise)
    return port


async def _remove_port(I, port, persisted_data=True):
    # core/api/funcs/ports.py:delete_port; persisted_data=False: what shutdown / a peripheral port going away do
    # Not C04's subject, but the harness must survive it: BasePort.cleanup() cancels the eval task once and awaits it; when the
    # cancellation lands inside Function.eval_args' asyncio.gather and a sibling argument has already failed, gather reports
    # that failure instead of the cancellation, _eval_and_write swallows it, and remove() waits forever.  So: let a running
    # evaluation finish first, and if remove() still does not return, cancel the eval task again.
    for _ in range(20):
        if not port.has_pending_eval():
            break
        await asyncio.sleep(0)
    task = asyncio.ensure_future(port.remove(persisted_data=persisted_data))
    for i in range(2000):
        if task.done():
            break
        await asyncio.sleep(0)
        if i % 10 == 9 and getattr(port, '_eval_task', None) is not None:
            port._eval_task.cancel()
    await asyncio.wait_for(task, 5)
    if persisted_data:
        await I.core_vports.remove(port.get_id())


VPORT_ARGS = {'type_': 'number', 'min_': None, 'max_': None, 'integer': None, 'step': None, 'choices': None}
SEQ_VALUES, SEQ_DELAYS = [1, 2, 3], [60000, 60000, 60000]      # long delays: the sequence is still running afterwards


async def _start_sequence(I, port):
    """what core/api/funcs/ports.py:patch_port_sequence does after validating (enabled, writable, no expression)"""
    if port.get_expression():
        return 'seq-refused'
    if not port.is_enabled():
        await port.enable()
    await port.set_sequence(list(SEQ_VALUES), list(SEQ_DELAYS), 0)
    await asyncio.sleep(0)
    return 'seq-started'


async def _do_set(I, port, text):
    try:
        await port.set_attr('expression', text)
        return 'accepted'
    except I.core_ports.InvalidAttributeValue as e:
        reason = (e.details or {}).get('reason')
        return 'circular' if reason == 'circular-dependency' else 'parse'
    except I.ex.CircularDependency:
        return 'circular'
    except Exception as e:  # anything else is outside the model's alphabet -> tie failure
        return 'other:%s' % type(e).__name__


async def _do_remove(I, port):
    await _remove_port(I, port)
    return 'accepted' if I.core_ports.get(port.get_id()) is None else 'other:still-registered'


async def _const(x):
    return x


async def _do_able(port, kind):
    try:
        await (port.enable() if kind == 'enable' else port.disable())
        return 'accepted'
    except Exception as e:
        return 'other:%s' % type(e).__name__


def _text(I, pid):
    port = I.core_ports.get(pid)
    e = port.get_expression() if port is not None else None
    return str(e) if e else ''


def _state(I):
    """pid -> (text of the expression the port holds, ids whose value that text reads)"""
    st = {}
    for port in I.core_ports.get_all():
        e = port.get_expression()
        st[port.get_id()] = (str(e), text_deps(str(e))) if e else ('', set())
    return st


def _candidate(I, pid, text):
    """'' (clear) | None (the real parser refuses the text) | (canonical text, value dependencies by the text)"""
    if not text:
        return ''
    try:
        I.expressions.parse(pid, text, I.expressions.ROLE_VALUE)
    except I.ex.ExpressionParseError:
        return None
    t = parse_fragment(text)
    canon = text_of(t) if t is not None else text
    return (canon, text_deps(text))


def _serve(st, kind, pid, cand):
    """the specification of one request on state st (modified in place) -> outcome"""
    if pid not in st:
        return 'noport'
    if kind in ('enable', 'disable'):
        return 'accepted'
    if kind == 'remove':
        del st[pid]
        return 'accepted'
    if cand == '':
        st[pid] = ('', set())
        return 'accepted'
    if cand is None:
        return 'parse'
    g = {k: v[1] for k, v in st.items()}
    if any(q != pid and q in g and pid in _reach(g, q) for q in cand[1]):
        return 'circular'
    st[pid] = cand
    return 'accepted'


def _serializable(before, reqs, outcomes, afters):
    """is there an order in which the requests, served one after the other, give these outcomes and these expressions?"""
    for order in itertools.permutations(range(len(reqs))):
        st = dict(before)
        outs = {}
        for i in order:
            outs[i] = _serve(st, *reqs[i])
        if all(outs[i] == outcomes[i] for i in range(len(reqs))) and \
                all(st.get(reqs[i][1], ('', None))[0] == afters[i] for i in range(len(reqs))):
            return True
    return False


async def run_history(I, h):
    """-> (observations, one per operation: (outcome, text_after) | ('par', [(outcome, text_after)...]) | ('seq-...', ''),
           oracle verdict None | (operation index, kind, detail))"""
    for port in list(I.core_ports.get_all()):
        await _remove_port(I, port)
    await I.core_ports.reset()            # no persisted port data left over from another history
    obs = []
    verdict = None
    touched = []
    persisted = {}                        # the harness's own record of what port.save() wrote: id -> expression text
    try:
        for i, pid in enumerate(h['ports']):
            touched.append(await _add_port(I, pid, i % 2 == 0))
        for k, (kind, pid, text) in enumerate(h['ops']):
            bad = None
            if kind == 'seq':
                port = I.core_ports.get(pid)
                obs.append((await _start_sequence(I, port) if port is not None else 'seq-refused', ''))
                continue
            if kind in ('save', 'unplug', 'probe', 'reset', 'enable', 'disable'):
                port = I.core_ports.get(pid)
                if port is None:
                    obs.append(('noport', ''))
                    continue
                held = _text(I, pid)
                if kind == 'reset':
                    await port.reset()             # PUT /ports (restore) does this to every port before re-assigning attributes
                    if _text(I, pid) != '':
                        verdict = verdict or (k, 'reset-kept-expression', 'port.reset() left the expression %r in place' % _text(I, pid))
                elif kind in ('enable', 'disable'):
                    port.c04_latency = int(text or 0)
                    await (port.enable() if kind == 'enable' else port.disable())
                    if _text(I, pid) != held:
                        verdict = verdict or (k, 'expression-changed', '%s() changed the expression from %r to %r' % (kind, held, _text(I, pid)))
                elif kind == 'save':
                    await port.save()
                    persisted[pid] = _text(I, pid)
                elif kind == 'unplug':
                    await _remove_port(I, port, persisted_data=False)
                obs.append(('accepted', _text(I, pid)))
                continue
            if kind == 'restart':
                # shutdown (core_ports.cleanup: every port removed, persisted data kept) + start-up (core_ports.load)
                idsnow = [x.get_id() for x in I.core_ports.get_all()]
                for x in list(I.core_ports.get_all()):
                    await _remove_port(I, x, persisted_data=False)
                st = {x: ('', set()) for x in idsnow}
                for x in idsnow:                      # what the specification says the load must give
                    if persisted.get(x):
                        _serve(st, 'set', x, _candidate(I, x, persisted[x]))
                touched.extend(await I.core_ports.load([dict(VPORT_ARGS, driver=I.LatencyPort, id_=x) for x in idsnow]))
                await asyncio.sleep(0)
                got = {x: _text(I, x) for x in idsnow}
                if got != {x: st[x][0] for x in idsnow}:
                    bad = ('load-differs', 'after a restart the expressions are %r; loading the persisted ones %r in turn, each '
                           'checked, gives %r' % (got, {x: persisted.get(x, '') for x in idsnow}, {x: st[x][0] for x in idsnow}))
                obs.append(('accepted', ''))
                cyc = _distinct_cycle(_edges(I))
                if cyc is not None:
                    bad = ('cycle-present', 'ports %s and %s read each other after the restart' % tuple(cyc))
                if bad is not None and verdict is None:
                    verdict = (k, bad[0], bad[1])
                continue
            if kind == 'par':
                subs = text
                before = _state(I)
                reqs, coros = [], []
                n_seq = 0
                for skind, spid, stext in subs:
                    port = I.core_ports.get(spid)
                    reqs.append((skind, spid, _candidate(I, spid, stext) if skind == 'set' else None))
                    if port is None:
                        coros.append(_const('noport'))
                    elif skind == 'set':
                        n_seq += 1 if port._sequence else 0
                        coros.append(_do_set(I, port, stext))
                    elif skind in ('enable', 'disable'):
                        port.c04_latency = int(stext or 0)
                        coros.append(_do_able(port, skind))
                    else:
                        coros.append(_do_remove(I, port))
                outcomes = list(await asyncio.gather(*coros))
                afters = [_text(I, spid) for _, spid, _ in subs]
                for (skind, spid, _), out in zip(subs, outcomes):
                    if skind == 'remove' and out == 'accepted':
                        persisted.pop(spid, None)
                if not _serializable(before, reqs, outcomes, afters):
                    bad = ('not-serializable', 'no order of serving the concurrent requests %r one after the other gives the '
                           'outcomes %r and the expressions %r' % (subs, outcomes, afters))
                obs.append(('par', list(zip(outcomes, afters)), n_seq))
            else:
                port = I.core_ports.get(pid)
                if port is None or (kind == 'add' and port is not None):
                    if kind == 'add' and port is None:
                        st = _state(I)
                        st[pid] = ('', set())
                        if persisted.get(pid):
                            _serve(st, 'set', pid, _candidate(I, pid, persisted[pid]))
                        touched.append(await _add_port(I, pid, k % 2 == 0))
                        if _text(I, pid) != st[pid][0]:
                            bad = ('load-differs', 'port %s came back with expression %r; its persisted expression %r, checked '
                                   'like any assignment, gives %r' % (pid, _text(I, pid), persisted[pid], st[pid][0]))
                        obs.append(('accepted', _text(I, pid)))
                    else:
                        obs.append(('noport', ''))
                        continue
                elif kind == 'remove':
                    obs.append((await _do_remove(I, port), ''))
                    persisted.pop(pid, None)
                else:
                    before = _state(I)
                    before_expr = port.get_expression()
                    cand = _candidate(I, pid, text)
                    st = dict(before)
                    want = _serve(st, 'set', pid, cand)
                    outcome = await _do_set(I, port, text)
                    after_expr = port.get_expression()
                    after = str(after_expr) if after_expr else ''
                    if want == 'circular' and outcome != 'circular':
                        bad = ('cycle-accepted', 'assignment closes a cycle but was %s' % outcome)
                    elif want == 'accepted' and outcome == 'circular':
                        bad = ('false-rejection', 'assignment closes no cycle between distinct ports but was rejected')
                    elif outcome == 'accepted' and text and cand is not None and after != cand[0]:
                        bad = ('not-installed', 'accepted but the expression is %r' % after)
                    elif outcome in ('circular', 'parse') and (after != before[pid][0] or after_expr is not before_expr):
                        bad = ('rejected-but-changed', 'rejected (%s) but the expression changed from %r to %r'
                               % (outcome, before[pid][0], after))
                    elif not text and after != '':
                        bad = ('not-cleared', 'empty text did not clear the expression')
                    obs.append((outcome, after))
            cyc = _distinct_cycle(_edges(I))
            if cyc is not None:
                bad = ('cycle-present', 'ports %s and %s read each other' % tuple(cyc))
            if bad is not None and verdict is None:
                verdict = (k, bad[0], bad[1])
    finally:
        for port in touched:
            try:
                await port.set_sequence([], [], 0)
            except Exception:
                pass
        for port in list(I.core_ports.get_all()):
            try:
                await _remove_port(I, port)
            except Exception:
                I.core_ports._ports_by_id.pop(port.get_id(), None)
        await I.core_ports.reset()
    return obs, verdict


class _Stuck(Exception):
    pass


def _alarm(signum, frame):
    raise _Stuck()


async def _run_batch(I, hs):
    """one history after the other; a history during which the event loop is blocked for more than 30 s (an expression
    evaluation of the background tasks that does not end -- not C04's subject) is abandoned and reported as skipped"""
    out = []
    old = signal.signal(signal.SIGALRM, _alarm)
    try:
        for h in hs:
            signal.alarm(30)
            try:
                out.append(await run_history(I, h))
            except _Stuck:
                out.append(([('skipped', '')] * len(h['ops']), None))
                I.core_ports._ports_by_id.clear()
            finally:
                signal.alarm(0)
    finally:
        signal.signal(signal.SIGALRM, old)
    return out


def run_impl(hs):
    I = impl()
    lvl = logging.root.manager.disable
    logging.disable(logging.CRITICAL)
    try:
        return asyncio.run(_run_batch(I, hs))
    finally:
        logging.disable(lvl)


# ------------------------------------------------------------------------------------------------------------------
# Coq side

# string literals are the expensive part of a case file (each character is elaborated to eight booleans): the recurring ones
# (port ids, function names) are defined once and referred to by name
_NAMES = {}
for _s in ['p%d' % _i for _i in range(1, 9)] + DANGLING + sorted(FUNCS):
    _NAMES[_s] = 's_' + _s
HEADER = ('From QT Require Import C04.Run.\nOpen Scope string_scope.\n'
          + ''.join('Definition %s := %s.\n' % (v, coq.string(k)) for k, v in sorted(_NAMES.items())))


def cstr(s):
    return _NAMES.get(s) or coq.string(s)


OUTCOME = {'accepted': 'Accepted', 'circular': 'Circular', 'parse': 'ParseError', 'noport': 'NoPort'}


def coq_op(kind, pid, text):
    if kind == 'add':
        return 'OAdd %s' % cstr(pid)
    if kind == 'remove':
        return 'ORemove %s' % cstr(pid)
    if text == '':
        return 'OSet %s TEmpty' % cstr(pid)
    t = parse_fragment(text)
    if t is None:
        return 'OSet %s TBad' % cstr(pid)
    return 'OSet %s (TExpr %s)' % (cstr(pid), coq_expr(t))


def _coq_obs(kind, pid, text, outcome, after):
    t = parse_fragment(text) if kind == 'set' and text else None
    a = 'ANew' if (t is not None and after == text_of(t)) else 'AText %s' % coq.string(after)
    return '(%s, %s, %s)' % (coq_op(kind, pid, text), OUTCOME[outcome], a)


XOPS = {'save': 'XSave', 'unplug': 'XUnplug', 'add': 'XPlug', 'restart': 'XRestart', 'probe': 'XProbe', 'reset': 'XReset',
        'enable': 'XProbe', 'disable': 'XProbe'}


def emitted(h):
    """for every step of the Coq history, the index of the operation it comes from (starting a value sequence is no step; a
    concurrent step is followed by one probe step per port it enabled / disabled)"""
    rows = []
    for i, o in enumerate(h['ops']):
        if o[0] == 'seq':
            continue
        rows.append(i)
        if o[0] == 'par':
            rows.extend(i for x in o[2] if x[0] in ('enable', 'disable'))
    return rows


def flat_outcomes(obs):
    for o in obs:
        if o[0] == 'par':
            for x in o[1]:
                yield x[0]
        elif not o[0].startswith('seq-'):
            yield o[0]


def coq_hist(h, obs):
    rows = []
    for (kind, pid, text), o in zip(h['ops'], obs):
        if kind == 'seq':
            continue
        if kind in XOPS:
            x = 'XRestart' if kind == 'restart' else '(%s %s)' % (XOPS[kind], cstr(pid))
            rows.append('HX %s %s (AText %s)' % (x, OUTCOME[o[0]], coq.string(o[1])))
        elif kind == 'par':
            pairs = list(zip(text, o[1]))
            rows.append('HPar [%s]' % '; '.join(_coq_obs(sk, sp, st, out, after) for (sk, sp, st), (out, after) in pairs
                                                if sk not in ('enable', 'disable')))
            # enabling / disabling is no operation of the model: the port must hold what the model says it holds
            for (sk, sp, st), (out, after) in pairs:
                if sk in ('enable', 'disable'):
                    rows.append('HX (XProbe %s) %s (AText %s)' % (cstr(sp), OUTCOME[out], coq.string(after)))
        else:
            rows.append('HOne %s' % _coq_obs(kind, pid, text, o[0], o[1]))
    return '(%s, [%s])' % (coq.lst(h['ports'], cstr), ';\n   '.join(rows))


# ------------------------------------------------------------------------------------------------------------------
# shrinking (against the brute-force oracle on the implementation; no Coq in the loop)

def _simpler_trees(t):
    if t[0] == 'call':
        for a in t[2]:
            yield a
        for i, a in enumerate(t[2]):
            for b in _simpler_trees(a):
                yield ('call', t[1], t[2][:i] + [b] + t[2][i + 1:])
        lo, _ = FUNCS[t[1]]
        if len(t[2]) > max(lo, 1):
            for i in range(len(t[2])):
                yield ('call', t[1], t[2][:i] + t[2][i + 1:])
    elif t[0] in ('pv', 'self'):
        yield ('lit', 1)


def _simpler_ops(op):
    kind, pid, text = op
    if kind == 'set' and text:
        t = parse_fragment(text)
        if t is not None:
            for t2 in _simpler_trees(t):
                yield [kind, pid, text_of(t2)]
    elif kind == 'par':
        subs = text
        if len(subs) > 2:
            for i in range(len(subs)):
                yield ['par', '', subs[:i] + subs[i + 1:]]
        for i, sub in enumerate(subs):
            for s2 in _simpler_ops(sub):
                yield ['par', '', subs[:i] + [s2] + subs[i + 1:]]


def _op_ports(o):
    return {x[1] for x in o[2]} if o[0] == 'par' else {o[1]}


def shrink(h, kind):
    def fails(c):
        _, v = run_impl([c])[0]
        return v is not None and v[1] == kind

    cur = {'ports': list(h['ports']), 'ops': [list(o) for o in h['ops']]}
    _, v = run_impl([cur])[0]
    if v is None:
        return cur
    cur['ops'] = cur['ops'][:v[0] + 1]
    changed = True
    budget = 400
    while changed and budget > 0:
        changed = False
        for i in reversed(range(len(cur['ops']))):
            c = {'ports': cur['ports'], 'ops': cur['ops'][:i] + cur['ops'][i + 1:]}
            budget -= 1
            if c['ops'] and fails(c):
                cur, changed = c, True
        for i, o in enumerate(cur['ops']):
            for o2 in _simpler_ops(o):
                c = {'ports': cur['ports'], 'ops': cur['ops'][:i] + [o2] + cur['ops'][i + 1:]}
                budget -= 1
                if fails(c):
                    cur, changed = c, True
                    break
        for pid in list(cur['ports']):
            if len(cur['ports']) > 1 and not any(pid in _op_ports(o) for o in cur['ops']):
                c = {'ports': [q for q in cur['ports'] if q != pid], 'ops': cur['ops']}
                budget -= 1
                if fails(c):
                    cur, changed = c, True
    return cur


# ------------------------------------------------------------------------------------------------------------------

def load_corpus():
    out = []
    for path in sorted(glob.glob(os.path.join(coq.VERIF, 'corpus', ID, '*.json'))):
        with open(path) as f:
            d = json.load(f)
        for h in d.get('histories', [d] if 'ops' in d else []):
            out.append({'ports': list(h['ports']), 'ops': [list(o) for o in h['ops']], 'name': os.path.basename(path)})
    return out


def _nontrivial(h, obs):
    """at least one circular rejection and one accepted assignment of a function call that reads another port"""
    rej = any(o == 'circular' for o in flat_outcomes(obs))
    acc = False
    for (kind, pid, text), o in zip(h['ops'], obs):
        if kind == 'par':
            for (sk, sp, st), (out, _) in zip(text, o[1]):
                t = parse_fragment(st) if sk == 'set' and st else None
                if out == 'accepted' and t is not None and (tree_ports(t) - {sp}):
                    acc = True
        elif kind == 'set' and text and o[0] == 'accepted':
            t = parse_fragment(text)
            if t is not None and t[0] == 'call' and (tree_ports(t) - {pid}):
                acc = True
    return rej and acc


def _violation(h, k, kind, detail, obs, do_shrink=True):
    small = shrink(h, kind) if do_shrink else {'ports': h['ports'], 'ops': h['ops'][:k + 1]}
    sobs, sv = run_impl([small])[0]
    return {
        'key': {'kind': kind},
        'what': '%s: %s (history of %d operations over ports %s; last operation %s)' % (
            kind, (sv or (0, kind, detail))[2], len(small['ops']), ','.join(small['ports']), small['ops'][-1]),
        'case': {'ports': small['ports'], 'ops': small['ops']},
        'observed': [list(o) for o in sobs],
        'expected': 'an assignment is rejected with circular-dependency iff it closes a cycle between distinct ports; '
                    'a rejected assignment leaves the previous expression; the graph stays acyclic; requests issued '
                    'concurrently (a "par" operation, asyncio.gather) end as if served one after the other in some order',
    }


def run_histories(ctx, res, hs, tag, every=False, shard_size=250, count_distinct=None, spec=True):
    t0 = time.time()
    results = run_impl(hs)
    t_impl = time.time() - t0
    d = res['distribution']

    def bump(k, n=1):
        d[k] = d.get(k, 0) + n

    usable = []
    n_viol = 0
    for h, (obs, verdict) in zip(hs, results):
        if obs and obs[0][0] == 'skipped':
            bump('skipped:event-loop-blocked-by-an-evaluation')
            continue
        res['evaluations'] += 1
        bump('histories')
        bump('ports:%d' % len(set(h['ports']) | set().union(*[_op_ports(o) for o in h['ops']]) - {''}))
        bump('length:%s' % ('1-4' if len(h['ops']) <= 4 else '5-10' if len(h['ops']) <= 10 else '11-20' if len(h['ops']) <= 20 else '21-40'))
        for (kind, pid, text), o in zip(h['ops'], obs):
            bump('op:%s' % ('clear' if kind == 'set' and not text else kind))
            if kind == 'seq':
                bump(o[0])
                continue
            if kind == 'par':
                bump('par:%d-requests' % len(text))
                bump('par:%d-of-them-on-a-port-with-a-running-sequence' % o[2])
                if any(x[0] == 'remove' for x in text):
                    bump('par:with-removal')
                if any(x[0] in ('enable', 'disable') for x in text):
                    bump('par:with-enable-or-disable-in-flight')
                for out, _ in o[1]:
                    bump('par-outcome:%s' % out.split(':')[0])
                continue
            bump('outcome:%s' % o[0].split(':')[0])
            if kind == 'set' and text:
                t = parse_fragment(text)
                if t is not None:
                    bump('depth:%d' % tree_depth(t))
        if count_distinct is not None and _nontrivial(h, obs):
            count_distinct.add(json.dumps([h['ports'], h['ops']]))
        if verdict is not None and n_viol < 5:
            n_viol += 1
            res['violations'].append(_violation(h, verdict[0], verdict[1], verdict[2], obs))
        others = [(k, o) for k, o in enumerate(obs)
                  if (o[0] == 'par' and any(x[0] not in OUTCOME for x in o[1]))
                  or (o[0] != 'par' and not o[0].startswith('seq-') and o[0] not in OUTCOME)]
        if others:
            k, o = others[0]
            res['tie_failures'].append({'ports': h['ports'], 'ops': h['ops'][:k + 1], 'implementation': list(o),
                                        'note': 'outcome outside the model alphabet'})
            continue
        usable.append((h, obs))
    res['extra']['impl_wall_s'] = round(res['extra'].get('impl_wall_s', 0) + t_impl, 2)
    if not ctx.model_ok:
        res['tie_failures'].append('model not built; cases not evaluated')
        return results
    shards, meta = [], []
    for i in range(0, len(usable), shard_size):
        part = usable[i:i + shard_size]
        shards.append('Definition cases : list hist := Eval vm_compute in [\n %s].\n' % ';\n '.join(coq_hist(h, o) for h, o in part))
        meta.append(part)
    t0 = time.time()
    outs = coq.eval_shards(ctx.workdir, 'c04' + tag, HEADER, shards,
                           ['bad_model cases', ('bad_spec %s cases' % ('true' if every else 'false')) if spec else '@nil N'])
    res['extra']['coq_wall_s'] = round(res['extra'].get('coq_wall_s', 0) + time.time() - t0, 2)
    for (rc, lists, err), part in zip(outs, meta):
        if rc != 0 or len(lists) != 2:
            res['tie_failures'].append('coqc failed on a case shard: %s' % err[-600:])
            continue
        bad_model, bad_spec = lists
        for code in bad_model[:5]:
            h, obs = part[code // 1000]
            k = emitted(h)[code % 1000]
            res['tie_failures'].append({'ports': h['ports'], 'ops': h['ops'][:k + 1],
                                        'implementation': [list(o) for o in obs[:k + 1]][-3:],
                                        'note': 'model differs from implementation at step %d' % k})
        for code in bad_spec[:5]:
            h, obs = part[code // 1000]
            em = emitted(h)
            k = em[min(code % 1000, len(em) - 1)]
            if any(v['case']['ops'] == h['ops'][:len(v['case']['ops'])] for v in res['violations']):
                continue
            v = _violation(h, k, 'coq-spec', 'the observation at operation %d contradicts Spec.spec_step / par_allowed / acyclic_b' % k, obs,
                           do_shrink=False)
            res['violations'].append(v)
    return results


def check(ctx, res):
    res['rule'] = (
        'histories of 1..40 operations over 2..8 virtual ports (some absent at the start): ~66% assignments of random trees '
        '(depth 0..3 over ADD MUL MIN MAX IF NOT ABS AND OR SUB, leaves $id / $ / dangling ids / literals), 7% clears, 3% '
        'unparsable texts, 7% removals, <=10% re-additions, 2% value sequences started (long delays), 6% concurrent steps: 2-3 '
        'requests through asyncio.gather (half of them expressions that close a cycle only together, a fifth with a concurrent '
        'port removal), on ports with a running sequence (all / some / none); the load path: port.save(), removal keeping the '
        'persisted data, re-creation + load(), restart (all ports removed with data kept, core_ports.load of all), probes, and '
        'scenario blocks (hot-unplug with the graph changed meanwhile; crash between an unsaved clear and a saved assignment); '
        'port.reset() (+ restore of a configuration with the reverse dependency direction), enable()/disable() with a scripted '
        'driver latency, sequential and in flight during concurrent assignments; '
        'every step through the real set_attr/remove/load_one/load/save/set_sequence. Expressions over the whole function '
        'registry of the tree (time-processing and date functions with port arguments at any depth); the reads relation of '
        'the implementation side is taken from the expression TEXT (every $id), not from get_deps(). Plus: for every function '
        'and argument position a two-port cycle attempt through it; chains/rings of 17, 24, 40, 64, 200 ports. '
        'distinct = distinct histories; non-trivial = contains a circular-dependency rejection and an accepted assignment of a '
        'function call reading another port')
    I = impl()
    if ctx.replay:
        with open(ctx.replay) as f:
            d = json.load(f)
        case = d.get('case', d)
        run_histories(ctx, res, [{'ports': case['ports'], 'ops': case['ops']}], 'replay', every=True)
        return
    corpus = load_corpus()
    if corpus:
        run_histories(ctx, res, corpus, 'corpus', every=True)
        res['distribution']['corpus'] = len(corpus)
    distinct = set()
    n = ctx.n(2000, 100000)
    done = 0
    while done < n:
        m = min(4000, n - done)
        hs = [gen_history(ctx.rng) for _ in range(m)]
        results = run_histories(ctx, res, hs, 'r%d' % done, every=False, count_distinct=distinct)
        if done == 0:
            for h, (obs, _) in list(zip(hs, results))[:4]:
                res['samples'].append({'ports': h['ports'],
                                       'steps': [{'op': o, 'outcome': ob[0], 'expression_after': ob[1]}
                                                 for o, ob in zip(h['ops'][:12], obs[:12])]})
        done += m
        if len(res['violations']) >= 5:
            break
    res['distinct_nontrivial'] = len(distinct)
    sweep = wrapper_sweep_histories()
    run_histories(ctx, res, sweep, 'sweep', every=False)
    res['distribution']['wrapper-sweep:functions'] = len(sweep)
    # long chains and rings: the theorem is about every graph, the correspondence must not stop at 8 ports
    long_hs = [gen_long_history(ctx.rng, n) for n in LONG_LENGTHS[:-1] for _ in range(ctx.n(3, 20))]
    long_hs += [gen_long_history(ctx.rng, LONG_LENGTHS[-1]) for _ in range(ctx.n(1, 5))]
    # the saturation of the Coq oracle re-expands the whole reached set every round (cubic in the length of a chain: 0.7 s per
    # history at 24 ports, 22 s at 64): histories over more than 24 ports go through the model only (0.02 - 0.15 s; Props/C04.v
    # proves it equal to the specification for every graph) and through the text-based oracle of this file
    short = [h for h in long_hs if len(h['ports']) <= 24]
    results = run_histories(ctx, res, short, 'long', every=False, shard_size=8)
    results += run_histories(ctx, res, [h for h in long_hs if len(h['ports']) > 24], 'xlong', shard_size=8, spec=False)
    for h, (obs, _) in zip(long_hs, results):
        k = 'long:%d-ports' % len(h['ports'])
        res['distribution'][k] = res['distribution'].get(k, 0) + 1
        res['distribution']['long:refused-closing-assignments'] = (res['distribution'].get('long:refused-closing-assignments', 0)
                                                                   + sum(1 for o in obs if o[0] == 'circular'))
    if ctx.tier == 'thorough':
        batch = []
        total = 0
        for h in exhaustive_histories(4):
            batch.append(h)
            if len(batch) == 8000:
                run_histories(ctx, res, batch, 'e%d' % total, every=False, shard_size=1000)
                total += len(batch)
                batch = []
        if batch:
            run_histories(ctx, res, batch, 'e%d' % total, every=False, shard_size=1000)
            total += len(batch)
        res['distribution']['exhaustive_histories'] = total
        res['extra']['exhaustive_scope'] = ('all %d histories of <= 4 assignments over ports %s with the texts %r'
                                            % (total, EXH_PORTS, EXH_ALPHABET))
    del I


def search(ctx, res):
    """the proof or the tie broke: look harder for a concrete failing input (spec oracles vs implementation)"""
    n = ctx.n(20000, 200000)
    done = 0
    while done < n and not res['violations']:
        # half of them from the concurrent generator (every third operation a concurrent step)
        hs = [(gen_par_history if i % 2 else gen_history)(ctx.rng) for i in range(4000)]
        run_histories(ctx, res, hs, 's%d' % done, every=True)
        done += len(hs)
    if not res['violations']:
        run_histories(ctx, res, [gen_long_history(ctx.rng, n) for n in LONG_LENGTHS for _ in range(3)], 'slong', every=False,
                      shard_size=4, spec=False)
    if not res['violations']:
        hs = list(itertools.islice(exhaustive_histories(3), 6200))
        run_histories(ctx, res, hs, 'sx', every=True, shard_size=1000)


REPLAY_HELP = ('bin/check C04 --replay <this file>; or in /repo: create the virtual ports of case.ports '
               '(core_vports.add + core_ports.load_one), then for each [kind, port, text] of case.ops: '
               'set -> await port.set_attr("expression", text); remove -> await port.remove(); add -> load_one again; '
               'seq -> enable the port and await port.set_sequence([1, 2, 3], [60000, 60000, 60000], 0); '
               'par (text = list of operations) -> await asyncio.gather(...) of those operations')

LEVEL_TEXT = (
    'Coq theorems over a Gallina model of check_loops (the recursive walk with the shared seen_ports set, level counter, '
    'dangling ids, $ = the owner, descent through function arguments; structural recursion on fuel = ports + 1, proved '
    'sufficient), attr_set_expression and port add/remove: for EVERY graph (acyclic or not), port and expression the check '
    'raises CircularDependency iff the assignment would make the port read a different port that already reads it '
    '(soundness by induction on the run, completeness by the closed-set argument over the threaded seen set); hence for every '
    'sequence of assignments, clears, additions and removals from an acyclic graph the graph stays acyclic between distinct '
    'ports; a rejected assignment keeps the previous expression; an assignment that closes no cycle (self references '
    'included) is never rejected. Concurrent requests: an event-loop model in which a request may be suspended any number '
    'of times before its check and after its store but not in between (the number of suspension points in between is '
    'regenerated from the source on every run and proved to be 0) -- every schedule is a serialization, so no interleaving '
    'creates a cycle. Persisted data and the load path (save, removal keeping the data, re-creation + load, restart) are '
    'sequences of checked base operations on the registry, so the invariant covers them; that the check_loops call is under no '
    'condition is regenerated from the source and proved on every run. The model is compared step by step with the real set_attr("expression") path on generated '
    'histories, and the real outcomes are compared with the Coq specification oracle (proved equivalent to the declarative '
    'definitions) and with a brute-force reachability test over the implementation\'s own get_deps().'
)
LEVEL_NOTE = (
    'Trusted: Coq kernel incl. vm_compute; the correspondence harness (generator, text<->tree mapping of the generated '
    'fragment, checked through str(expression) at every step); translator exprstore.py; the parser is not modelled (C03); port '
    'identity = id equality. Atomicity of check+store is read from the source (await count) and tested with concurrent steps, '
    'asyncio itself is not modelled beyond "a coroutine runs until its next await". Ids are not re-mapped while referenced. No axioms (Print Assumptions: closed '
    'under the global context).'
)
TECHNIQUE = 'Coq proof (induction on fuel and expression structure; closed-set invariant for the DFS) + vm_compute correspondence on generated histories'
