"""C14 worker: runs schedules against the REAL port I/O code on the virtual-clock loop and logs one event per step.

    python -m harness.props.c14_worker IN.json OUT.json

IN  = {"schedules": [{"id": n, "cap": 4|1024, "ports": {...template...}, "cmds": [[name, args...], ...]}, ...]}
OUT = {"runs": [{"id": n, "events": {port: [[name, args...], ...]}, "glog": [[seq, vtime_ms, port, name, args...]...],
                 "final": {...}, "anomalies": [...], "api": [...]}, ...]}

Runs in its own process: `vloop` replaces time.time globally.  Nothing in /repo is modified: the port driver is a subclass of
core_ports.Port defined here, the two methods of the port's own asyncio.Queue instance (`put_nowait`, `get_nowait`) and the
module attribute `main.update` are wrapped from outside.

Ports of a schedule (template `ports`): name -> {"writable": bool, "expr": str|None, "rlat": ms|None, "wlat": ms|None,
"late": bool, "plain": bool}.  `plain` = read_value/write_value are plain methods returning a scheduled future.  `rlat`/`wlat` None = the driver call stays suspended until a CompleteRead/CompleteWrite command; a number =
it completes by itself after that many virtual ms.  A `late` port does not exist until the `Load` command, which creates it
through the real `core_ports.load` with persisted data {"enabled": true, "value": v} (persist.get is faked).

Commands: ["Tick"], ["Advance", ms], ["SetSource", p, v], ["CompleteRead", p, "val"|"skip"|"err"],
["CompleteWrite", p, "ok"|"exc"|"timeout"] (exc = PortError, timeout = PortTimeout), ["ApiWrite", p, v], ["SetSequence", p, values, delays, repeat], ["SetAttr", p, n] (display_name := "n<n>"; runs a polling pass), ["Reset", p],
["CancelWaitingReader", p] (cancels one reset() task that waits in p's read guard, if any),
["Remove", p] (port.remove(): cleanup() cancels the write loop and the eval loop; afterwards p is not observed by Snap and is
not expected to answer its pending tickets - notes/C14.md finding 2), ["Disable", p] / ["Enable", p] (PATCH /ports/p {"enabled": ...} through the real patch_port), ["SetExpr", p, text],
["Load", p, v].

Events (per port; see coq/theories/C14/Model.v):
  ["ReadRequest", src] ["ReadStart", src] ["ReadEnd", src, outcome]            src = "pass" | "load"
  ["WriteSubmit", v, t, dropped|null] ["WriteTake", v, t] ["WriteStart", v] ["WriteEnd", "ok"|"exc"] ["LoopResume"]
  ["Deliver", t, "ok"|"exc"|"qf"] ["DirectStart", v] ["DirectEnd", "ok"|"exc"] ["Snap", reading, writing, qlen]
  ["ReadCancel", src]                                  a caller cancelled while waiting in the read guard
  ["Told", t, "ok"|"exc"|"qf", "api"|"expr"|"seq"]     transform_and_write_value returned / raised to that submitter
  ["ApiTold", t, bool]                                 patch_port_value answered 204/202 (true) or an error (false)
  ["Disable"] ["Enable"]                               disable()/enable() changed _enabled
  ["ApiUnqueued", v]                                   patch_port_value answered 204/202 without submitting the value
  ["Discard", t]                                       an entry left the queue neither by the write loop nor by the overflow rule
"""
import asyncio
import json
import logging
import sys

from harness.common import vloop

logging.getLogger('qtoggleserver').setLevel(logging.CRITICAL + 1)
logging.disable(logging.CRITICAL)


class Env:
    """imports of the implementation + the patches that are installed once per process"""

    def __init__(self):
        from qtoggleserver.conf import settings
        settings.persist.driver = 'qtoggleserver.drivers.persist.JSONDriver'
        settings.persist.file_path = None
        from qtoggleserver import persist
        from qtoggleserver.core import expressions  # noqa: F401  (import order as in the repo's conftest)
        from qtoggleserver.core import api as core_api
        from qtoggleserver.core import main as core_main
        from qtoggleserver.core import ports as core_ports
        from qtoggleserver.core.api.funcs import ports as api_ports
        from qtoggleserver.utils import timedset
        self.settings, self.persist, self.core_api, self.core_main = settings, persist, core_api, core_main
        self.core_ports, self.api_ports, self.timedset = core_ports, api_ports, timedset
        self.run = None          # the Run in progress

        env = self
        self.persisted = {}

        async def fake_get(collection, id_):
            return env.persisted.get((collection, id_))

        async def fake_noop(*a, **k):
            return 0

        async def fake_query(*a, **k):
            return []

        persist.get = fake_get
        for name in ('replace', 'remove', 'insert', 'update', 'set_value', 'ensure_index'):
            if hasattr(persist, name):
                setattr(persist, name, fake_noop)
        if hasattr(persist, 'query'):
            persist.query = fake_query

        orig_update = core_main.update

        async def update():
            run = env.run
            task = asyncio.current_task()
            if run is None:
                return await orig_update()
            run.update_depth[task] = run.update_depth.get(task, 0) + 1
            try:
                return await orig_update()
            finally:
                run.update_depth[task] -= 1
                if not run.update_depth[task]:
                    del run.update_depth[task]
                for port in run.ports.values():
                    if task is getattr(port, '_write_value_task', None):
                        run.log(port.get_id(), 'LoopResume')

        self.orig_update = orig_update
        core_main.update = update

        class HPort(core_ports.Port):
            TYPE = 'number'
            WRITABLE = False
            PERSISTED = False
            INTEGER = True
            RLAT = None
            WLAT = None

            def __init__(self, port_id):
                super().__init__(port_id)
                self.src_value = 0
                self.echo = 0
                self.pending_reads = []
                self.pending_writes = []
                self.futs = {}
                self.next_ticket = 0
                self.cur_ticket = None
                self.cur_value = UNSET
                self.pending_drop = None
                self.waiting = {}        # task -> src: callers inside read_transformed_value, before the driver call
                self.tw = {}             # task -> record of the transform_and_write_value call in progress
                self.api_ticket = {}     # task -> ticket submitted by the API call running in that task
                self.hremoved = False    # a Remove command was issued: no more Snap, the port is not expected to drain
                env.run.ports[port_id] = self
                self._wrap_queue()

            # ---- instrumentation of the port's own queue object (instance attributes; asyncio.Queue.get() calls
            # self.get_nowait(), so the loop's take goes through the wrapper too)
            def _wrap_queue(self):
                q = self._write_value_queue
                orig_put, orig_get = q.put_nowait, q.get_nowait
                port = self

                def split(item):
                    # (value, future, ...): tolerate extra fields added by a refactoring
                    futs = [x for x in item[1:] if isinstance(x, asyncio.Future)]
                    return item[0], (futs[0] if futs else None)

                def put_nowait(item):
                    orig_put(item)
                    value, fut = split(item)
                    if id(fut) in port.futs and port.cur_ticket is None:
                        # an entry that was already dequeued is queued again: not a step of the model; the trace shows it
                        # as a second WriteTake / WriteStart of the same ticket
                        env.run.anomaly(port.get_id(), 'ticket %s queued again' % port.futs[id(fut)][0])
                        return
                    t = port.cur_ticket
                    port.cur_ticket = None
                    if t is None:
                        env.run.anomaly(port.get_id(), 'put_nowait outside _write_value_queued')
                        t = -1
                    port.futs[id(fut)] = (t, fut)
                    # the value logged is the one the submitter handed to _write_value_queued (what must reach the driver for
                    # this ticket), not the one found in the queued entry; WriteTake logs what the write loop dequeues
                    asked = port.cur_value if port.cur_value is not UNSET else value
                    port.cur_value = UNSET
                    env.run.log(port.get_id(), 'WriteSubmit', num(asked), t, port.pending_drop)
                    port.pending_drop = None

                def get_nowait():
                    item = orig_get()
                    value, fut = split(item)
                    t = port.futs.get(id(fut), (-1, None))[0]
                    if asyncio.current_task() is port._write_value_task:
                        env.run.log(port.get_id(), 'WriteTake', num(value), t)
                    elif port.cur_ticket is not None:
                        # inside _write_value_queued, after put_nowait raised QueueFull: the overflow rule
                        if port.pending_drop is not None:
                            env.run.anomaly(port.get_id(), 'two entries dequeued by one submission')
                        port.pending_drop = t
                    else:
                        # anybody else taking entries out of the queue
                        env.run.log(port.get_id(), 'Discard', t)
                    return item

                q.put_nowait = put_nowait
                q.get_nowait = get_nowait

            async def enable(self):
                was = self.is_enabled()
                try:
                    return await super().enable()
                finally:
                    if self.is_enabled() != was:
                        env.run.log(self.get_id(), 'Enable' if self.is_enabled() else 'Disable')

            async def disable(self):
                was = self.is_enabled()
                try:
                    return await super().disable()
                finally:
                    if self.is_enabled() != was:
                        env.run.log(self.get_id(), 'Enable' if self.is_enabled() else 'Disable')

            def _src(self):
                return 'pass' if asyncio.current_task() in env.run.update_depth else 'load'

            async def read_transformed_value(self):
                src = self._src()
                task = asyncio.current_task()
                env.run.log(self.get_id(), 'ReadRequest', src)
                self.waiting[task] = src
                try:
                    return await super().read_transformed_value()
                except asyncio.CancelledError:
                    if task in self.waiting:      # cancelled while waiting in the guard
                        env.run.log(self.get_id(), 'ReadCancel', src)
                    raise
                finally:
                    self.waiting.pop(task, None)

            # Two kinds of driver: `async def read_value/write_value` (a coroutine the hub awaits) and plain methods that
            # return an already scheduled future (the shape of `loop.run_in_executor(...)` around blocking I/O).  Either way
            # the call is logged as started when the hub calls the method and as ended when the scheduled work finishes,
            # whether or not anybody waits for it.
            async def read_value(self):
                return await self._read_finish(*self._read_begin())

            def read_value_plain(self):
                return asyncio.ensure_future(self._read_finish(*self._read_begin()))

            def _read_begin(self):
                src = self._src()
                self.waiting.pop(asyncio.current_task(), None)
                env.run.log(self.get_id(), 'ReadStart', src)
                loop = asyncio.get_running_loop()
                fut = loop.create_future()
                self.pending_reads.append(fut)
                if self.RLAT is not None:
                    loop.call_later(self.RLAT / 1000.0, self.complete_read, 'val', fut)
                return src, fut

            async def _read_finish(self, src, fut):
                try:
                    outcome = await fut
                except asyncio.CancelledError:
                    if not env.run.finished:
                        env.run.log(self.get_id(), 'ReadEnd', src, 'err')
                    raise
                finally:
                    if fut in self.pending_reads:
                        self.pending_reads.remove(fut)
                if outcome == 'skip':
                    env.run.log(self.get_id(), 'ReadEnd', src, 'skip')
                    raise core_ports.SkipRead()
                if outcome == 'err':
                    env.run.log(self.get_id(), 'ReadEnd', src, 'err')
                    raise core_ports.PortReadError('harness read error')
                env.run.log(self.get_id(), 'ReadEnd', src, 'val')
                return self.echo if self.WRITABLE else self.src_value

            def complete_read(self, outcome, fut=None):
                if fut is None:
                    if not self.pending_reads:
                        return False
                    fut = self.pending_reads[0]
                if fut.done():
                    return False
                self.pending_reads.remove(fut)
                fut.set_result(outcome)
                return True

            async def write_value(self, value):
                return await self._write_finish(*self._write_begin(value))

            def write_value_plain(self, value):
                return asyncio.ensure_future(self._write_finish(*self._write_begin(value)))

            def _write_begin(self, value):
                in_loop = asyncio.current_task() is self._write_value_task
                env.run.log(self.get_id(), 'WriteStart' if in_loop else 'DirectStart', num(value))
                loop = asyncio.get_running_loop()
                fut = loop.create_future()
                self.pending_writes.append(fut)
                if self.WLAT is not None:
                    loop.call_later(self.WLAT / 1000.0, self.complete_write, 'ok', fut)
                return in_loop, fut, value

            async def _write_finish(self, in_loop, fut, value):
                try:
                    outcome = await fut
                except asyncio.CancelledError:
                    # the caller was cancelled (cleanup() cancels the write loop): this driver call is over
                    if not env.run.finished:
                        env.run.log(self.get_id(), 'WriteEnd' if in_loop else 'DirectEnd', 'exc')
                    raise
                finally:
                    if fut in self.pending_writes:
                        self.pending_writes.remove(fut)
                if outcome == 'exc':
                    env.run.log(self.get_id(), 'WriteEnd' if in_loop else 'DirectEnd', 'exc')
                    raise core_ports.PortError('harness write error')
                if outcome == 'timeout':
                    env.run.log(self.get_id(), 'WriteEnd' if in_loop else 'DirectEnd', 'exc')
                    raise core_ports.PortTimeout('harness write timeout')
                self.echo = value
                env.run.log(self.get_id(), 'WriteEnd' if in_loop else 'DirectEnd', 'ok')

            def complete_write(self, outcome, fut=None):
                if fut is None:
                    if not self.pending_writes:
                        return False
                    fut = self.pending_writes[0]
                if fut.done():
                    return False
                self.pending_writes.remove(fut)
                fut.set_result(outcome)
                return True

            async def transform_and_write_value(self, value):
                # the level every submitter sees: patch_port_value, _eval_and_write and the sequence callback await this
                task = asyncio.current_task()
                rec = {'t': None}
                self.tw[task] = rec
                kind = 'expr' if task is self._eval_task else ('api' if task in env.run.api_tasks else 'seq')
                outcome = None
                try:
                    r = await super().transform_and_write_value(value)
                    outcome = 'ok'
                    return r
                except asyncio.QueueFull:
                    outcome = 'qf'
                    raise
                except asyncio.CancelledError:
                    raise
                except Exception:
                    outcome = 'exc'
                    raise
                finally:
                    if self.tw.get(task) is rec:
                        del self.tw[task]
                    if outcome is not None and rec['t'] is not None:
                        env.run.log(self.get_id(), 'Told', rec['t'], outcome, kind)

            async def _write_value_queued(self, value):
                t = self.next_ticket
                self.next_ticket += 1
                self.cur_ticket = t
                self.cur_value = value
                task = asyncio.current_task()
                if task in self.tw:
                    self.tw[task]['t'] = t
                    if task in env.run.api_tasks:
                        self.api_ticket[task] = t
                env.run.submitted.setdefault(self.get_id(), []).append(t)
                try:
                    r = await super()._write_value_queued(value)
                except asyncio.QueueFull:
                    env.run.log(self.get_id(), 'Deliver', t, 'qf')
                    raise
                except asyncio.CancelledError:
                    raise
                except Exception:
                    env.run.log(self.get_id(), 'Deliver', t, 'exc')
                    raise
                env.run.log(self.get_id(), 'Deliver', t, 'ok')
                return r

        self.HPort = HPort

    def handler(self, method, path, body):
        from unittest import mock
        from qtoggleserver.web.handlers import APIHandler
        h = APIHandler(application=mock.MagicMock(),
                       request=mock.MagicMock(headers={'Content-Type': 'application/json'}, method=method, path=path,
                                              query={}, body=body))
        h.access_level = self.core_api.ACCESS_LEVEL_ADMIN
        return h


UNSET = object()


def num(v):
    """values cross to Coq as integers; None (an expression evaluated to "unavailable") is encoded as -1: every value a
    schedule or an expression over schedule values produces is >= 0"""
    if v is None:
        return -1
    if isinstance(v, bool):
        return {'odd': repr(v)}
    if isinstance(v, (int, float)) and float(v).is_integer():
        return int(v)
    return {'odd': repr(v)}


class Run:
    def __init__(self, env, sched):
        self.env = env
        self.sched = sched
        self.ports = {}
        self.events = {}
        self.glog = []
        self.anomalies = []
        self.api = []
        self.update_depth = {}
        self.submitted = {}
        self.tick_task = None
        self.finished = False
        self.tasks = []
        self.api_tasks = {}       # task -> port id, for ApiWrite commands
        self.seq = 0

    def log(self, pid, name, *args):
        self.seq += 1
        self.events.setdefault(pid, []).append([name] + list(args))
        self.glog.append([self.seq, vloop.vtime_ms(), pid, name] + list(args))

    def anomaly(self, pid, what):
        self.anomalies.append({'port': pid, 'what': what, 'at': self.seq})

    def spawn(self, coro, label, api_port=None, api_value=None):
        async def runner():
            ok = True
            try:
                await coro
                self.api.append([label, 'ok'])
            except asyncio.CancelledError:
                self.api.append([label, 'cancelled'])
                raise
            except Exception as e:  # noqa: BLE001
                code = getattr(e, 'code', None)
                status = getattr(e, 'status', None)
                self.api.append([label, type(e).__name__ + (':%s' % code if code else '')])
                ok = type(e).__name__ == 'APIAccepted' or status in (202, 204)
            if api_port is not None:
                port = self.ports.get(api_port)
                t = port.api_ticket.pop(asyncio.current_task(), None) if port is not None else None
                if t is not None:       # the request got as far as submitting a value
                    self.log(api_port, 'ApiTold', t, ok)
                elif ok and port is not None:
                    # answered 204/202 although nothing was handed to the write queue
                    self.log(api_port, 'ApiUnqueued', num(api_value))
        t = asyncio.get_running_loop().create_task(runner())
        if api_port is not None:
            self.api_tasks[t] = api_port
        self.tasks.append(t)
        return t

    async def settle(self):
        loop = asyncio.get_running_loop()
        quiet = 0
        for _ in range(10000):
            await asyncio.sleep(0)
            if len(loop._ready) == 0:
                quiet += 1
                if quiet >= 2:
                    return
            else:
                quiet = 0
        self.anomaly('-', 'loop never became quiet')

    def snap(self):
        for pid, port in self.ports.items():
            tr = self.events.get(pid)
            if port.hremoved:
                continue        # cleanup() leaves _writing and the queue as they were; the model stops at the cancellation
            if tr and tr[-1][0] == 'Snap':
                continue        # nothing happened on this port since its last observation
            r, w = getattr(port, '_reading', None), getattr(port, '_writing', None)
            q = getattr(port, '_write_value_queue', None)
            try:
                n = q.qsize()
            except Exception:  # noqa: BLE001
                n = -1
            self.log(pid, 'Snap', r if isinstance(r, bool) else None, w if isinstance(w, bool) else None, n)

    async def make_port(self, name, spec):
        env = self.env
        attrs = {'WRITABLE': bool(spec.get('writable')), 'RLAT': spec.get('rlat'), 'WLAT': spec.get('wlat'),
                 'PERSISTED': bool(spec.get('late')), 'WRITE_VALUE_QUEUE_SIZE': self.sched['cap']}
        if spec.get('plain'):
            attrs['read_value'] = env.HPort.read_value_plain
            attrs['write_value'] = env.HPort.write_value_plain
        cls = type('HPort_' + name, (env.HPort,), attrs)
        return cls

    async def main(self):
        env = self.env
        cm, cp = env.core_main, env.core_ports
        # fresh globals of core.main / core.ports for this run (the loop is new: locks are bound to their loop)
        cm._update_lock = None
        cm._last_time = 0
        cm._updating_enabled = True
        cm._force_eval_expression_ports.clear()
        cm._force_eval_all_expressions = False
        cm._ports_with_read_error = env.timedset.TimedSet(cm._PORT_READ_ERROR_RETRY_INTERVAL)
        cp._ports_by_id.clear()
        env.persisted.clear()

        self.classes = {}
        for name, spec in self.sched['ports'].items():
            cls = await self.make_port(name, spec)
            self.classes[name] = cls
            if spec.get('late'):
                continue
            port = (await cp.load([{'driver': cls, 'port_id': name}], trigger_add=False))[0]
            await port.enable()
        for name, spec in self.sched['ports'].items():
            if spec.get('expr') and not spec.get('late'):
                # set_attr on a loaded port runs a polling pass (`await main.update()`), which may stay suspended in a
                # manual driver read: do not wait for it
                self.spawn(self.ports[name].set_attr('expression', spec['expr']), 'SetExpr %s' % name)
        # the set-up is part of each port's trace (the model starts from `init` = a freshly constructed port)
        await self.settle()
        self.snap()

        for cmd in self.sched['cmds']:
            self.glog.append([self.seq, vloop.vtime_ms(), '-', 'CMD'] + list(cmd))
            await self.do(cmd)
            await self.settle()
            self.snap()

        # drain: let every suspended call finish, then check that nothing is left behind
        self.glog.append([self.seq, vloop.vtime_ms(), '-', 'CMD', 'Drain'])
        any_removed = any(p.hremoved for p in self.ports.values())
        for _ in range(6 if any_removed else 400):
            busy = False
            for port in self.ports.values():
                while port.complete_read('val'):
                    busy = True
                while port.complete_write('ok'):
                    busy = True
            await self.settle()
            pending = any(p.pending_reads or p.pending_writes or p._write_value_queue.qsize() or p._reading or p._writing
                          or p._sequence is not None for p in self.ports.values() if not p.hremoved)
            unfinished = any(not t.done() for t in self.tasks) or (self.tick_task is not None and not self.tick_task.done())
            if not busy and not pending and not unfinished:
                break
            await asyncio.sleep(1.1)
            await self.settle()
        self.snap()
        final = {}
        for pid, port in self.ports.items():
            delivered = [e[1] for e in self.events.get(pid, []) if e[0] == 'Deliver']
            final[pid] = {
                'undelivered': [t for t in self.submitted.get(pid, []) if t not in delivered],
                'qsize': port._write_value_queue.qsize(),
                'pending_reads': len(port.pending_reads), 'pending_writes': len(port.pending_writes),
                'removed': port.hremoved,
            }
        self.final = final
        self.finished = True

    async def do(self, cmd):
        env = self.env
        name = cmd[0]
        if name == 'Tick':
            if self.tick_task is None or self.tick_task.done():
                self.tick_task = asyncio.get_running_loop().create_task(env.core_main.update())
        elif name == 'Advance':
            await asyncio.sleep(cmd[1] / 1000.0)
        elif name == 'SetSource':
            p = self.ports.get(cmd[1])
            if p is not None:
                p.src_value = cmd[2]
        elif name == 'CompleteRead':
            p = self.ports.get(cmd[1])
            if p is not None:
                p.complete_read(cmd[2])
        elif name == 'CompleteWrite':
            p = self.ports.get(cmd[1])
            if p is not None:
                p.complete_write(cmd[2])
        elif name == 'ApiWrite':
            pid, v = cmd[1], cmd[2]
            h = env.handler('PATCH', '/api/ports/%s/value' % pid, json.dumps(v).encode())
            self.spawn(env.api_ports.patch_port_value(h, pid, v), 'ApiWrite %s %s' % (pid, v), api_port=pid, api_value=v)
        elif name == 'SetSequence':
            pid, values, delays, repeat = cmd[1:5]
            params = {'values': values, 'delays': delays, 'repeat': repeat}
            h = env.handler('PATCH', '/api/ports/%s/sequence' % pid, json.dumps(params).encode())
            self.spawn(env.api_ports.patch_port_sequence(h, pid, params), 'SetSequence %s' % pid)
        elif name == 'SetAttr':
            p = self.ports.get(cmd[1])
            if p is not None:
                self.spawn(p.set_attr('display_name', 'n%s' % cmd[2]), 'SetAttr %s' % cmd[1])
        elif name in ('Disable', 'Enable'):
            pid = cmd[1]
            if pid in self.ports:
                params = {'enabled': name == 'Enable'}
                h = env.handler('PATCH', '/api/ports/%s' % pid, json.dumps(params).encode())
                self.spawn(env.api_ports.patch_port(h, pid, params), '%s %s' % (name, pid))
        elif name == 'SetExpr':
            p = self.ports.get(cmd[1])
            if p is not None:
                self.spawn(p.set_attr('expression', cmd[2]), 'SetExpr %s' % cmd[1])
        elif name == 'Reset':
            p = self.ports.get(cmd[1])
            if p is not None:
                self.spawn(p.reset(), 'Reset %s' % cmd[1])
        elif name == 'CancelWaitingReader':
            # abort a reset()/restore request that is waiting behind a read in flight (client gone / timeout)
            p = self.ports.get(cmd[1])
            if p is not None:
                for task, src in list(p.waiting.items()):
                    if src == 'load' and not task.done():
                        task.cancel()
                        break
        elif name == 'Remove':
            # the port is removed (DELETE /ports/p, peripheral removal, shutdown): cleanup() cancels its tasks
            p = self.ports.get(cmd[1])
            if p is not None and not p.hremoved:
                p.hremoved = True
                self.spawn(p.remove(persisted_data=False), 'Remove %s' % cmd[1])
        elif name == 'Load':
            pid, v = cmd[1], cmd[2]
            if pid in self.ports or pid not in self.classes:
                return
            env.persisted[('ports', pid)] = {'id': pid, 'enabled': True, 'value': v}
            self.spawn(env.core_ports.load([{'driver': self.classes[pid], 'port_id': pid}], trigger_add=False),
                       'Load %s' % pid)
        else:
            raise ValueError('unknown command %r' % (cmd,))


def run_schedule(env, sched):
    run = Run(env, sched)
    env.run = run
    out = {'id': sched.get('id')}
    try:
        vloop.run(run.main())
        out['status'] = 'ok'
    except vloop.Stalled as e:
        out['status'] = 'stalled: %s' % e
    except Exception as e:  # noqa: BLE001
        import traceback
        out['status'] = 'error: %s: %s' % (type(e).__name__, e)
        out['traceback'] = traceback.format_exc()[-1500:]
    finally:
        env.run = None
    out['events'] = run.events
    out['glog'] = run.glog if sched.get('want_glog') else []
    out['final'] = getattr(run, 'final', None)
    out['anomalies'] = run.anomalies
    out['api'] = run.api
    return out


def main(argv):
    with open(argv[1]) as f:
        inp = json.load(f)
    env = Env()
    runs = [run_schedule(env, s) for s in inp['schedules']]
    with open(argv[2], 'w') as f:
        json.dump({'runs': runs}, f)


if __name__ == '__main__':
    main(sys.argv)
