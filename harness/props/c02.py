"""C02 — expression evaluation matches the reference semantics of the language.

Theorems: coq/theories/Props/C02.v.  Tie: (T) Gen/FuncTable.v regenerated from core/expressions/*.py (registry: arities, deps,
eager/lazy shape, SGN shape) + (C) random expression trees / contexts evaluated by the real `expressions.parse(...).eval(ctx)`
and by the Coq model (vm_compute); the real results are also compared with the Coq reference semantics `sem` (spec oracle).
"""
import asyncio
import math
import time

from harness.common import coq, pyvals
from harness.translate import functable

ID = 'C02'
PROPS = 'theories/Props/C02.v'
MODEL_TARGETS = ['theories/C02/Run.vo']
TRANSLATORS = [functable.translate]
TIE = 'translator (function registry, SGN shape) + correspondence by vm_compute on generated expression trees'
ALLOWED_AXIOMS = []
TRUSTED_BASE = [
    'harness/translate/functable.py (reads the function registry and the shape of SGN from core/expressions/*.py)',
    'correspondence harness harness/props/c02.py (fake port registry installed over core.ports.get)',
    'modelled, not verified: CPython 3.12 numeric semantics (Base/PyNum.v: int/float arithmetic on SpecFloat, builtin sum with '
    'Neumaier compensation, round via exact decimal, exact int/float comparison), asyncio.gather',
]
ASSUMPTIONS = [
    'float ** (libm pow, complex results) is outside the model: such cases are counted as unspecified, not compared',
    'when several eager arguments fail with different kinds, which one surfaces is unspecified (gather timing)',
    'MIN/MAX with NaN arguments and LUT/LUTLI with NaN abscissae are unspecified (generator avoids NaN abscissae)',
    'the headline theorem is about contexts and literals that are canonical binary64 data: every generated case is tested for '
    'it inside Coq (noncanonical_cases must be empty; harness/common/pyvals.py encodes Python floats canonically)',
]

STATELESS = ['ADD', 'SUB', 'MUL', 'DIV', 'MOD', 'POW', 'IF', 'EQ', 'GT', 'GTE', 'LT', 'LTE', 'AND', 'OR', 'NOT', 'XOR',
             'BITAND', 'BITOR', 'BITNOT', 'BITXOR', 'SHL', 'SHR', 'FLOOR', 'CEIL', 'ROUND', 'ABS', 'SGN', 'MIN', 'MAX', 'AVG',
             'AVAILABLE', 'DEFAULT', 'ONOFFAUTO', 'LUT', 'LUTLI', 'TIME', 'TIMEMS']

FLOAT_POOL = [0.0, -0.0, 1.0, -1.0, 0.5, -0.5, 0.1, 0.2, 0.3, 2.5, -2.5, 3.5, 1.5, 0.49999999999999994, 1e16, -1e16,
              9007199254740992.0, 9007199254740993.0, 1e308, -1e308, 5e-324, 2.2250738585072014e-308, 1e-7, 123.456, 2.675,
              1e22, 1e23, 0.30000000000000004, float('inf'), float('-inf'), float('nan'), 7.0, 10.0, 100.0, 3.0, 2.0, -3.0]
INT_POOL = [0, 1, -1, 2, 3, -3, 5, 7, 10, 15, 25, 100, 255, 1000, 2 ** 31, 2 ** 53, 2 ** 53 + 1, -(2 ** 53) - 1, 2 ** 63, 2 ** 64,
            2 ** 70, -(2 ** 70), 10 ** 22, 10 ** 23]


class FakePort:
    def __init__(self, pid, enabled, last):
        self._id, self._enabled, self._last = pid, enabled, last

    def get_id(self):
        return self._id

    def is_enabled(self):
        return self._enabled

    def get_last_read_value(self):
        return self._last

    def get_expression(self):
        return None


def rand_value(rng, kind=None):
    r = rng.random()
    if kind == 'small':
        return rng.choice([0, 1, 2, 3, -1, -2, 0.5, 1.5, 2.5, 1.0, 2.0, True, False])
    if r < 0.45:
        return rng.choice(FLOAT_POOL) if rng.random() < 0.7 else round(rng.uniform(-50, 50), rng.randint(0, 3))
    if r < 0.8:
        return rng.choice(INT_POOL) if rng.random() < 0.6 else rng.randint(-20, 20)
    return rng.random() < 0.5


def lit_text(rng, v=None):
    """-> (text, parsed value as the LiteralValue holds it: int / float / None)"""
    if v is None:
        r = rng.random()
        if r < 0.04:
            return 'unavailable', None
        if r < 0.08:
            return rng.choice([('true', 1), ('false', 0)])
        v = rand_value(rng)
        if isinstance(v, bool):
            v = int(v)
    if isinstance(v, int):
        return str(v), v
    if v != v:
        return 'nan', v
    if math.isinf(v):
        return ('inf' if v > 0 else '-inf'), v
    t = repr(v)
    return t, float(t)


class Gen:
    def __init__(self, rng, table):
        self.rng = rng
        self.table = {e['name']: e for e in table if e['name'] in STATELESS}

    def context(self):
        rng = self.rng
        ports = {}
        values = {}
        for i in range(1, 7):
            pid = 'p%d' % i
            r = rng.random()
            if r < 0.04:
                continue                                    # unknown port
            enabled = r >= 0.08
            v = None if rng.random() < 0.15 else rand_value(rng)
            ports[pid] = (enabled, v)
            if rng.random() < 0.93:
                values[pid] = v if rng.random() < 0.95 else None   # the snapshot may differ from the live value
        self_id = rng.choice([None, 'p1', 'p2', 'p7'])
        if self_id in ports and rng.random() < 0.5:
            # the own port changed between the scheduling of the evaluation (snapshot) and the evaluation (live value);
            # falsy live values (0, false, unavailable) next to a different snapshot are the interesting corner
            enabled, _ = ports[self_id]
            live = rng.choice([0, 0.0, False, None, rand_value(rng)])
            ports[self_id] = (enabled, live)
            values[self_id] = rand_value(rng)
        now_ms = rng.choice([0, 999, 1000, 1552559696654, 1700000000123, rng.randint(0, 2 ** 42), 2 ** 53 + 1])
        transform = rng.random() < 0.3
        return {'ports': ports, 'values': values, 'self_id': self_id, 'now_ms': now_ms, 'transform': transform}

    def leaf(self):
        rng = self.rng
        r = rng.random()
        if r < 0.55:
            t, v = lit_text(rng)
            return ('lit', t, v)
        if r < 0.92:
            return ('pv', 'p%d' % rng.randint(1, 7))
        return ('self',)

    def tree(self, depth):
        rng = self.rng
        if depth <= 0 or rng.random() < 0.22:
            return self.leaf()
        name = rng.choice(STATELESS)
        fi = self.table[name]
        lo = fi['MIN_ARGS'] or 0
        hi = fi['MAX_ARGS'] if fi['MAX_ARGS'] is not None else lo + rng.choice([0, 0, 1, 2, 3])
        n = rng.randint(lo, hi)
        if name in ('LUT', 'LUTLI'):
            n = rng.choice([5, 5, 6, 7, 7, 9])
            x = self.tree(depth - 1) if rng.random() < 0.3 else ('lit',) + lit_text(rng, rng.choice([0, 1, 2, 3, 4, 1.5, 2.5, -1, 10, 2.0]))
            args = [x]
            for j in range(n - 1):
                if j % 2 == 0:   # abscissa: small grid so that ties / equal x occur; never NaN
                    args.append(('lit',) + lit_text(rng, rng.choice([0, 1, 2, 3, 4, 1.0, 2.0, 3.0, 2.5])))
                else:
                    args.append(('lit',) + lit_text(rng, rand_value(rng, 'small') + 0) if rng.random() < 0.8 else self.tree(depth - 1))
            return ('call', name, args)
        if name == 'POW':
            return ('call', name, [('lit',) + lit_text(rng, rng.choice([0, 1, 2, 3, -2, 10, 0.5, 2.0])),
                                   ('lit',) + lit_text(rng, rng.choice([0, 1, 2, 3, 5, -1, 0.5]))])
        if name in ('SHL', 'SHR'):
            return ('call', name, [self.tree(depth - 1), ('lit',) + lit_text(rng, rng.choice([0, 1, 2, 5, 31, 64, 80, -1, 1.5]))])
        if name == 'ROUND' and n == 2:
            return ('call', name, [self.tree(depth - 1), ('lit',) + lit_text(rng, rng.choice([0, 1, 2, 3, -1, -2, 15, 17, 330, -310, 1.5]))])
        if name in ('EQ', 'GT', 'GTE', 'LT', 'LTE') and rng.random() < 0.25:
            x, y = rng.choice(NEAR_PAIRS)
            if rng.random() < 0.5:
                x, y = y, x
            return ('call', name, [('lit',) + lit_text(rng, x + 0 if isinstance(x, bool) else x),
                                   ('lit',) + lit_text(rng, y + 0 if isinstance(y, bool) else y)])
        return ('call', name, [self.tree(depth - 1) for _ in range(n)])


def text_of(t):
    if t[0] == 'lit':
        return t[1]
    if t[0] == 'pv':
        return '$' + t[1]
    if t[0] == 'self':
        return '$'
    return '%s(%s)' % (t[1], ', '.join(text_of(a) for a in t[2]))


def coq_expr(t):
    if t[0] == 'lit':
        return '(Lit %s)' % pyvals.opt_pyval(t[2])
    if t[0] == 'pv':
        return '(PortVal %s)' % coq.string(t[1])
    if t[0] == 'self':
        return 'SelfVal'
    return '(Call %s %s)' % (coq.string(t[1]), coq.lst([coq_expr(a) for a in t[2]]))


def coq_ctx(c):
    pv = coq.lst(['(%s, %s)' % (coq.string(k), pyvals.opt_pyval(v)) for k, v in sorted(c['values'].items())])
    ports = coq.lst(['(%s, %s)' % (coq.string(k), coq.boolean(v[0])) for k, v in sorted(c['ports'].items())])
    sid = c['self_id']
    self_last = c['ports'].get(sid, (False, None))[1] if sid else None
    return ('{| port_values := %s; ports := %s; now_ms := %s; self_id := %s; self_last := %s; transform_role := %s |}' % (
        pv, ports, coq.z(c['now_ms']), coq.option(sid, coq.string), pyvals.opt_pyval(self_last), coq.boolean(c['transform'])))


def n_funcs(t):
    return 0 if t[0] != 'call' else 1 + sum(n_funcs(a) for a in t[2])


def reads_port(t):
    return t[0] in ('pv', 'self') or (t[0] == 'call' and any(reads_port(a) for a in t[2]))


def depth_of(t):
    return 0 if t[0] != 'call' else 1 + max([depth_of(a) for a in t[2]] + [0])


KIND = {'unavail': 'KUnavail', 'skipped': 'KSkipped', 'err': 'KErr', 'ZeroDivisionError': 'KPy ZeroDiv',
        'OverflowError': 'KPy Overflow', 'ValueError': 'KPy ValueErr', 'TypeError': 'KPy TypeErr'}


async def eval_impl(cases):
    from qtoggleserver.core import expressions
    from qtoggleserver.core import ports as core_ports
    from qtoggleserver.core.expressions import EvalContext, ROLE_VALUE, ROLE_TRANSFORM_WRITE
    from qtoggleserver.core.expressions import exceptions as ex

    registry = {}
    orig_get = core_ports.get
    core_ports.get = lambda pid: registry.get(pid)
    out = []
    deps_seen = []
    prev_key, prev_expr = None, None
    try:
        for c, t in cases:
            registry.clear()
            for pid, (enabled, last) in c['ports'].items():
                registry[pid] = FakePort(pid, enabled, last)
            role = ROLE_TRANSFORM_WRITE if c['transform'] else ROLE_VALUE
            try:
                key = (text_of(t), c['self_id'], role)
                if key == prev_key:
                    e = prev_expr                     # one expression object evaluated repeatedly
                else:
                    e = expressions.parse(c['self_id'], text_of(t), role)
                    prev_key, prev_expr = key, e
            except Exception as exn:
                out.append(('parse-error', '%s: %s' % (type(exn).__name__, exn)))
                deps_seen.append(None)
                continue
            deps_seen.append(sorted(e.get_deps()))
            # what the hub does when a port is enabled again or restarted: the expression is parsed again from its own text;
            # evaluated on the same context it must give the same outcome
            try:
                e2 = expressions.parse(c['self_id'], str(e), role)
                o1 = await _outcome(e, EvalContext(dict(c['values']), c['now_ms']), FakePort, ex)
                o2 = await _outcome(e2, EvalContext(dict(c['values']), c['now_ms']), FakePort, ex)
                if repr(o1) != repr(o2):
                    REPARSE_DIFFS.append((text_of(t), str(e), _ctx_json(c), o1, o2))
            except Exception as exn:  # noqa: BLE001
                REPARSE_DIFFS.append((text_of(t), str(e), _ctx_json(c), 'reparse failed', '%s: %s' % (type(exn).__name__, exn)))
            try:
                v = await e.eval(EvalContext(dict(c['values']), c['now_ms']))
                if isinstance(v, (bool, int, float)):
                    out.append(('val', v))
                elif isinstance(v, FakePort):
                    out.append(('ref', v.get_id()))
                else:
                    out.append(('other', repr(v)))
            except ex.ValueUnavailable:
                out.append(('fail', 'unavail'))
            except ex.EvalSkipped:
                out.append(('fail', 'skipped'))
            except ex.ExpressionEvalError:
                out.append(('fail', 'err'))
            except Exception as exn:
                out.append(('fail', type(exn).__name__))
    finally:
        core_ports.get = orig_get
    return out, deps_seen


REPARSE_DIFFS = []


async def _outcome(e, context, FakePort, ex):
    try:
        v = await e.eval(context)
        if isinstance(v, float) and v != v:
            return ('val', 'nan')
        return ('ref', v.get_id()) if isinstance(v, FakePort) else ('val', type(v).__name__, repr(v))
    except ex.ValueUnavailable:
        return ('fail', 'unavail')
    except ex.EvalSkipped:
        return ('fail', 'skipped')
    except ex.ExpressionEvalError:
        return ('fail', 'err')
    except Exception as exn:  # noqa: BLE001
        return ('fail', type(exn).__name__)


def coq_outcome(o):
    if o[0] == 'val':
        return '(Val %s)' % pyvals.pyval(o[1])
    if o[0] == 'ref':
        return '(Ref %s)' % coq.string(o[1])
    if o[0] == 'fail' and o[1] in KIND:
        return '(Fail [%s])' % KIND[o[1]]
    if o[0] == 'other':
        return '(Fail [KPy Unmodelled])'   # e.g. a complex number: only acceptable where the model is unspecified too
    return None


HEADER = 'From QT Require Import C02.Run.\nOpen Scope Z_scope.\n'


def describe_outcome(o):
    return [o[0], pyvals.describe(o[1])] if o[0] == 'val' else list(o)


def top_function(t):
    return t[1] if t[0] == 'call' else t[0]


def funcs_in(t, acc=None):
    acc = set() if acc is None else acc
    if t[0] == 'call':
        acc.add(t[1])
        for a in t[2]:
            funcs_in(a, acc)
    return acc


def run_batch(ctx, res, cases, tag):
    t0 = time.time()
    results, deps_seen = asyncio.run(eval_impl(cases))
    t_impl = time.time() - t0
    while REPARSE_DIFFS:
        text, printed, cj, o1, o2 = REPARSE_DIFFS.pop()
        res['violations'].append({
            'key': {'kind': 'reparse-changes-evaluation'},
            'what': 'expression %s prints as %r; parsed again from that text it evaluates to %r instead of %r on the same context'
                    % (text, printed, o2, o1),
            'case': {'expression': text, 'context': cj}, 'observed': [o1, o2]})
    rows, meta = [], []
    drows, dmeta = [], []
    for (c, t), d in zip(cases, deps_seen):
        if d is not None:
            drows.append('(%s, %s, %s)' % (coq.string(str(c['self_id'])), coq_expr(t), coq.lst(d, coq.string)))
            dmeta.append((c, t, d))
    for (c, t), o in zip(cases, results):
        co = coq_outcome(o)
        if co is None:
            res['tie_failures'].append({'expression': text_of(t), 'implementation': list(o), 'note': 'outcome outside the model alphabet'})
            continue
        rows.append('(%s, %s, %s)' % (coq_ctx(c), coq_expr(t), co))
        meta.append((c, t, o))
    shards, smeta = [], []
    for i in range(0, len(rows), 500):
        shards.append('Definition cases : list (ctx * expr * outcome) := [\n %s].\n' % ';\n '.join(rows[i:i + 500]))
        smeta.append(meta[i:i + 500])
    if not ctx.model_ok:
        res['tie_failures'].append('model not built; cases not evaluated')
        return
    douts = coq.eval_shards(ctx.workdir, 'c02deps' + tag, HEADER,
                            ['Definition dcases : list (string * expr * list string) := [\n %s].\n' % ';\n '.join(drows)],
                            ['bad_deps dcases'])
    for rc, lists, err in douts:
        if rc != 0 or len(lists) != 1:
            res['tie_failures'].append('coqc failed on the dependency cases: %s' % err[-600:])
            continue
        for i in lists[0]:
            c, t, d = dmeta[i]
            res['tie_failures'].append({'expression': text_of(t), 'get_deps': d, 'note': 'dependency set differs from the model'})
    outs = coq.eval_shards(ctx.workdir, 'c02' + tag, HEADER, shards,
                           ['bad_model cases', 'bad_spec cases', 'unspecified_cases cases', 'noncanonical_cases cases'])
    unspec = 0
    for (rc, lists, err), m in zip(outs, smeta):
        if rc != 0 or len(lists) != 4:
            res['tie_failures'].append('coqc failed on a case shard: %s' % err[-600:])
            continue
        bad_model, bad_spec, un, noncanon = lists
        for i in noncanon:
            c, t, o = m[i]
            res['tie_failures'].append({'expression': text_of(t), 'context': _ctx_json(c),
                                        'note': 'input outside the canonicity premise of the theorem (encoding error in the harness)'})
        unspec += len(un)
        for i in bad_model:
            c, t, o = m[i]
            res['tie_failures'].append({'expression': text_of(t), 'context': _ctx_json(c), 'implementation': describe_outcome(o),
                                        'note': 'model differs from implementation'})
        for i in bad_spec:
            c, t, o = m[i]
            res['violations'].append({
                'key': {'functions': sorted(funcs_in(t))[:6], 'top': top_function(t)},
                'what': 'expression %s evaluates to %r, which contradicts the reference semantics' % (text_of(t), describe_outcome(o)),
                'case': {'expression': text_of(t), 'context': _ctx_json(c)},
                'observed': describe_outcome(o),
            })
    res['evaluations'] += len(cases)
    d = res['distribution']
    for (c, t), o in zip(cases, results):
        d['depth:%d' % depth_of(t)] = d.get('depth:%d' % depth_of(t), 0) + 1
        k = 'outcome:' + (o[0] if o[0] != 'fail' else 'fail:' + o[1])
        d[k] = d.get(k, 0) + 1
        for f in funcs_in(t):
            d['fn:' + f] = d.get('fn:' + f, 0) + 1
    d['unspecified'] = d.get('unspecified', 0) + unspec
    res['extra']['impl_wall_s'] = round(res['extra'].get('impl_wall_s', 0) + t_impl, 2)
    return results


def _ctx_json(c):
    return {'ports': {k: [v[0], pyvals.describe(v[1]) if v[1] is not None else None] for k, v in c['ports'].items()},
            'values': {k: (pyvals.describe(v) if v is not None else None) for k, v in c['values'].items()},
            'self_id': c['self_id'], 'now_ms': c['now_ms'], 'transform': c['transform']}


def regression_cases():
    """minimized cases that once disagreed (model vs implementation); run first on every check"""
    c = {'ports': {'p1': (True, 0), 'p2': (True, -5), 'p3': (True, False), 'p4': (True, -1)},
         'values': {'p1': 0, 'p2': -5, 'p3': False, 'p4': -1}, 'self_id': None, 'now_ms': 1000, 'transform': False}

    def pv(i):
        return ('pv', 'p%d' % i)
    return [
        (c, ('call', 'DIV', [pv(1), pv(2)])),                       # 0 / -5 is -0.0 (sign of a zero quotient)
        (c, ('call', 'DIV', [pv(3), pv(4)])),                       # False / -1
        (c, ('call', 'LUT', [('lit', '1', 1), ('lit', '2', 2), ('lit', '10', 10), ('lit', '2', 2), ('lit', '20', 20),
                             ('lit', '0', 0), ('lit', '5', 5)])),   # equal abscissae: stable sort
        (c, ('call', 'SGN', [('lit', '0.3', 0.3)])),
        (c, ('call', 'SGN', [('lit', '-0.5', -0.5)])),
    ] + near_pairs(c)


NEAR_PAIRS = [(0.1 + 0.2, 0.3), (1700000000000, 1700000000500), (1e16, 1e16 + 2), (2 ** 53, 2 ** 53 + 1), (1.0, 1.0000000000000002),
              (1e9, 1e9 + 0.5), (123456789.123, 123456789.124), (-1e12, -1e12 - 1), (0.0, -0.0), (0.0, 5e-324), (1, 1.0), (3, 3.0000000001),
              (1e300, 1.0000000001e300), (True, 1.0000000001), (255, 255.00000001)]


def near_pairs(c, fns=('EQ', 'GT', 'GTE', 'LT', 'LTE', 'MIN', 'MAX', 'SUB', 'MOD')):
    """comparisons (and what is built on them) of operands that are different but relatively very close"""
    out = []
    for a, b in NEAR_PAIRS:
        for f in fns:
            for x, y in ((a, b), (b, a)):
                ta, va = lit_text(None, x + 0 if isinstance(x, bool) else x)
                tb, vb = lit_text(None, y + 0 if isinstance(y, bool) else y)
                out.append((c, ('call', f, [('lit', ta, va), ('lit', tb, vb)])))
    return out


def gen_cases(ctx, n, table):
    g = Gen(ctx.rng, table)
    cases = regression_cases()
    while len(cases) < n:
        t = g.tree(ctx.rng.choice([1, 2, 2, 3, 3, 4]))
        c = g.context()
        cases.append((c, t))
        # the same expression (one object, as a port keeps it) under further contexts: stateless functions must not remember
        for _ in range(ctx.rng.choice([0, 0, 1, 2])):
            c2 = g.context()
            c2['self_id'], c2['transform'] = c['self_id'], c['transform']
            cases.append((c2, t))
    return cases


def dep_tree(rng, table, depth):
    """tree over EVERY enabled function of the registry (date/time and time-processing ones included): only parsed and asked
    for its dependencies, never evaluated"""
    if depth <= 0 or rng.random() < 0.35:
        r = rng.random()
        if r < 0.5:
            return ('pv', 'p%d' % rng.randint(1, 7))
        if r < 0.6:
            return ('self',)
        return ('lit',) + lit_text(None, rng.choice([0, 1, 2, 5, 100, 1000, 0.5]))
    e = rng.choice([e for e in table if e['ENABLED'] is True and not e['ARG_KINDS']])
    lo = e['MIN_ARGS'] or 0
    hi = e['MAX_ARGS'] if e['MAX_ARGS'] is not None else lo + rng.choice([0, 1, 2])
    return ('call', e['name'], [dep_tree(rng, table, depth - 1) for _ in range(rng.randint(lo, hi))])


def expected_deps(t, self_id, table):
    by = {e['name']: e for e in table}
    if t[0] == 'pv':
        return {'$' + t[1]}
    if t[0] == 'self':
        return {'$' + str(self_id)}
    if t[0] == 'call':
        d = set(by[t[1]]['DEPS'])
        for a in t[2]:
            d |= expected_deps(a, self_id, table)
        return d
    return set()


def run_deps(ctx, res, n, table, tag):
    """Expression.get_deps() = the `$id` of every port value read + the DEPS of every function called, for expressions parsed
    one after the other in the same process (what one expression is asked must not change what the next one answers)"""
    from qtoggleserver.core import expressions
    from qtoggleserver.core.expressions import ROLE_VALUE
    rng = ctx.rng
    rows, meta = [], []
    for _ in range(n):
        t = dep_tree(rng, table, rng.choice([1, 1, 2, 3]))
        if t[0] != 'call':
            continue
        self_id = rng.choice(['p1', 'p2', 'p9'])
        for _ in range(rng.choice([1, 1, 2])):          # a second, fresh parse of the same text must answer the same
            try:
                e = expressions.parse(self_id, text_of(t), ROLE_VALUE)
                d = sorted(e.get_deps())
            except Exception as exn:  # noqa: BLE001
                res['tie_failures'].append({'expression': text_of(t), 'note': 'dependency stream: %s: %s' % (type(exn).__name__, exn)})
                break
            rows.append('(%s, %s, %s)' % (coq.string(self_id), coq_expr(t), coq.lst(d, coq.string)))
            meta.append((self_id, t, d))
    res['evaluations'] += len(rows)
    res['distribution']['dependency_stream'] = res['distribution'].get('dependency_stream', 0) + len(rows)
    if not ctx.model_ok or not rows:
        return
    outs = coq.eval_shards(ctx.workdir, 'c02alldeps' + tag, HEADER,
                           ['Definition dcases : list (string * expr * list string) := [\n %s].\n' % ';\n '.join(rows[i:i + 1500])
                            for i in range(0, len(rows), 1500)], ['bad_deps dcases'])
    for k, (rc, lists, err) in enumerate(outs):
        if rc != 0 or len(lists) != 1:
            res['tie_failures'].append('coqc failed on the dependency stream: %s' % err[-600:])
            continue
        for i in lists[0]:
            self_id, t, d = meta[k * 1500 + i]
            want = sorted(expected_deps(t, self_id, table))
            res['violations'].append({
                'key': {'kind': 'dependencies', 'top': top_function(t)},
                'what': 'get_deps() of "%s" (own port %s) is %r; the ports it reads and the DEPS of the functions it calls are %r'
                        % (text_of(t), self_id, d, want),
                'case': {'expression': text_of(t), 'self_id': self_id, 'note': 'parsed after the other expressions of this run, in one process'},
                'observed': d})


def boundary_product(table):
    """every function at its minimal arity applied to every tuple of a small boundary pool (thorough tier)"""
    pool = [0, 1, -1, 0.5, -0.5, 2.5, float('inf'), float('nan'), 2 ** 53 + 1]
    import itertools
    cases = []
    c0 = {'ports': {}, 'values': {}, 'self_id': None, 'now_ms': 1700000000123, 'transform': False}
    for e in table:
        if e['name'] not in STATELESS or e['name'] in ('LUT', 'LUTLI', 'POW'):
            continue
        n = e['MIN_ARGS'] or 0
        if n > 3:
            continue
        for tup in itertools.product(pool, repeat=n):
            if e['name'] in ('SHL', 'SHR') and isinstance(tup[1], int) and abs(tup[1]) > 10000:
                continue                      # a shift by 2^53 bits is a MemoryError in CPython: outside the model
            args = []
            for v in tup:
                t, pv = lit_text(None, v)
                args.append(('lit', t, pv))
            cases.append((c0, ('call', e['name'], args)))
    return cases


def check(ctx, res):
    table, _ = functable.read_table()
    res['rule'] = (
        'random trees over the 37 stateless functions (depth <= 4, variadic arity <= min+3), literals/port values from a '
        'boundary-biased pool (+-0.0, inf, nan, 2^53+-1, 2^63.., halves, decimal fractions, bools), contexts mixing present / '
        'None / disabled / unknown ports and value/transform roles; distinct = distinct (expression text, context); '
        'non-trivial = at least 2 function nodes and at least one port read. Dependency stream: trees over every enabled '
        'function of the registry (date/time and time-processing functions included), parsed one after the other in one '
        'process and asked for get_deps(), compared with model_deps (ports read + DEPS of the functions called)')
    cases = gen_cases(ctx, ctx.n(3000, 30000), table)
    if ctx.tier == 'thorough':
        cases += boundary_product(table)
    seen = set()
    for i in range(0, len(cases), 4000):
        batch = cases[i:i + 4000]
        run_batch(ctx, res, batch, 'b%d' % i)
    run_deps(ctx, res, ctx.n(1500, 12000), table, 'd')
    for c, t in cases:
        if n_funcs(t) >= 2 and reads_port(t):
            seen.add((text_of(t), repr(sorted(c['values'].items(), key=str)), repr(sorted(c['ports'].items(), key=str)), c['self_id']))
    res['distinct_nontrivial'] = len(seen)
    for c, t in cases[:6]:
        res['samples'].append({'expression': text_of(t), 'context': _ctx_json(c)})


def search(ctx, res):
    table, _ = functable.read_table()
    cases = gen_cases(ctx, ctx.n(12000, 30000), table) + boundary_product(table)
    for i in range(0, len(cases), 4000):
        run_batch(ctx, res, cases[i:i + 4000], 's%d' % i)
    run_deps(ctx, res, ctx.n(6000, 12000), table, 'sd')


REPLAY_HELP = 'in /repo: expressions.parse(self_id, "<expression>", ROLE_VALUE).eval(EvalContext(values, now_ms)) with the ports of the case registered'

LEVEL_TEXT = (
    'Coq theorems over a Gallina model of expression evaluation (all 37 stateless functions, literals, $id, $, @id, the '
    'error taxonomy): for every expression tree and context the code-shaped evaluator (gather-eager functions, short-circuit '
    'loops, MIN/MAX/LUT scans, exception catching) equals the denotational reference semantics (induction on the tree; MIN/MAX '
    'via a generic "scan keeps the first unbeaten element of a strict weak order" theorem, the order laws of Python\'s exact '
    'mixed int/float/bool comparison being proved for all non-NaN canonical binary64 values, and canonicity proved to be '
    'preserved by every arithmetic operation of the model); laziness of IF/AND/OR/DEFAULT; '
    'eager functions have no value when an argument has none; domain errors (DIV/MOD by zero, non-finite FLOOR/CEIL/BIT*/SH*, '
    'negative shifts) never yield a value; port classification; evaluation depends only on the reported dependencies. '
    'The function registry (arity, DEPS, eager/lazy shape, SGN shape) is regenerated from the source on every run and the '
    'registry lemmas re-proved; model and reference are both compared with the real parse()+eval() on thousands of generated '
    'trees, bit-exactly for floats.'
)
LEVEL_NOTE = (
    'Trusted: Coq kernel incl. vm_compute; translator functable.py; the correspondence harness/generator; CPython numeric '
    'semantics are modelled (Base/PyNum.v, pure SpecFloat arithmetic, no float axioms) and tied only by the correspondence. '
    'Premises of the main theorem (all decidable, about the inputs): port values and literals are canonical binary64 data '
    '(tested on every case inside Coq), no NaN reaches MIN/MAX/SGN. Unspecified: float pow, mixed failure kinds under gather. No axioms (Print Assumptions: closed).'
)
TECHNIQUE = 'Coq proof by structural induction over expression trees; registry regenerated by translator; vm_compute correspondence'
