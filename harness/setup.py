"""bin/setup: regenerate every Gen/*.v from /repo, then build the whole development (full .vo build)."""
import importlib
import pkgutil
import sys

from harness.common import coq
from harness import props
from harness.run import Ctx


def main():
    for m in pkgutil.iter_modules(props.__path__):
        mod = importlib.import_module('harness.props.' + m.name)
        ctx = Ctx(getattr(mod, 'ID', m.name.upper()), 'quick', 0)
        try:
            for tr in getattr(mod, 'TRANSLATORS', []):
                try:
                    info = tr(ctx)
                    print('translator', tr.__name__, info.get('status'))
                except Exception as e:
                    print('translator', tr.__name__, 'FAILED', e)
        finally:
            ctx.cleanup()
    ok, log, wall, cmd = coq.build(None)
    print(log[-3000:])
    print('build ok=%s wall=%.1fs' % (ok, wall))
    sys.exit(0 if ok else 1)


if __name__ == '__main__':
    main()
