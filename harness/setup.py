"""bin/setup: regenerate every Gen/*.v of the claimed properties from /repo, then build their cones (full .vo build)."""
import importlib
import os
import sys

from harness.common import coq
from harness.manifest import CLAIMED
from harness.run import Ctx


def main():
    targets = []
    for pid in CLAIMED:
        mod = importlib.import_module('harness.props.' + pid.lower())
        ctx = Ctx(pid, 'quick', 0)
        try:
            for tr in getattr(mod, 'TRANSLATORS', []):
                try:
                    info = tr(ctx)
                    print('translator', pid, tr.__name__, info.get('status'))
                except Exception as e:
                    print('translator', pid, tr.__name__, 'FAILED', e)
        finally:
            ctx.cleanup()
        targets += [t[:-2] + '.vo' if t.endswith('.v') else t for t in getattr(mod, 'MODEL_TARGETS', [])]
        targets.append(mod.PROPS[:-2] + '.vo')
        old = 'theories/History/%sOld.v' % pid
        if os.path.exists(os.path.join(coq.COQ, old)):
            targets.append(old[:-2] + '.vo')
    targets = sorted(set(targets))
    ok, log, wall, cmd = coq.build(targets)
    print(log[-3000:])
    print('build ok=%s wall=%.1fs targets=%d' % (ok, wall, len(targets)))
    sys.exit(0 if ok else 1)


if __name__ == '__main__':
    main()
