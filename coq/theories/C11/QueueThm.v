(* C11 — the incremental queue of Session.push (remove duplicates, drop the oldest at capacity, insert in front) holds,
   after any sequence of pushes, the closed form of the specification: the newest [cap] of the events that no later event
   supersedes. *)
From QT Require Import C11.Model C11.Spec C11.ListenForm.
Open Scope Z_scope.

Lemma filter_rev {A} (f : A -> bool) l : filter f (rev l) = rev (filter f l).
Proof.
  induction l; cbn; auto. rewrite filter_app, IHl. cbn. destruct (f a); cbn; auto. rewrite app_nil_r; auto.
Qed.

Lemma count0_Forall {A} (g : A -> bool) l : List.length (filter g l) = 0%nat -> Forall (fun x => g x = false) l.
Proof. induction l; cbn; auto. destruct (g a) eqn:E; cbn; [discriminate|]. auto. Qed.

(* removing at most one element commutes with truncation, one shorter *)
Lemma firstn_filter_one {A} (f : A -> bool) : forall R n,
  (List.length (filter (fun x => negb (f x)) R) <= 1)%nat ->
  firstn n (filter f (firstn (S n) R)) = firstn n (filter f R).
Proof.
  induction R as [|x R IH]; intros n H.
  - reflexivity.
  - destruct n as [|n]; [reflexivity|].
    change (firstn (S (S n)) (x :: R)) with (x :: firstn (S n) R). cbn [filter] in *.
    destruct (f x) eqn:E; cbn [negb] in H.
    + cbn [firstn]. f_equal. apply IH. exact H.
    + cbn [List.length] in H. assert (H0 : List.length (filter (fun x => negb (f x)) R) = 0%nat) by lia.
      apply count0_Forall in H0.
      assert (HF : Forall (fun x => f x = true) R).
      { eapply Forall_impl; [|exact H0]. cbn. intros a Ha. destruct (f a); auto. }
      rewrite (filter_all_true f R HF). rewrite (filter_all_true f (firstn (S n) R)) by (apply Forall_firstn; exact HF).
      rewrite firstn_firstn, Nat.min_id. reflexivity.
  Qed.

Lemma firstn_filter_one' {A} (f : A -> bool) R c :
  (1 <= c)%nat -> (List.length (filter (fun x => negb (f x)) R) <= 1)%nat ->
  firstn (c - 1) (filter f (firstn c R)) = firstn (c - 1) (filter f R).
Proof.
  intros Hc H. destruct c as [|n]; [lia|]. replace (S n - 1)%nat with n by lia. apply firstn_filter_one; auto.
Qed.

Lemma firstn_cons_pos {A} c (e : A) l : (1 <= c)%nat -> firstn c (e :: l) = e :: firstn (c - 1) l.
Proof. intros Hc. destruct c as [|n]; [lia|]. replace (S n - 1)%nat with n by lia. reflexivity. Qed.

Section Queue.
  Variable table : list evclass.
  Variable cap : nat.
  Hypothesis cap_pos : (1 <= cap)%nat.
  (* the is_duplicate shapes of the code are the supersession rule of the specification *)
  Hypothesis shapes_ok : forall c, ec_dup (class_of table c) = spec_shape (ec_type (class_of table c)).

  Notation sup := (supersedes table).
  Notation ds := (drop_superseded table).

  Lemma is_dup_supersedes n o : is_dup table n o = sup n o.
  Proof. unfold is_dup, supersedes. rewrite shapes_ok. reflexivity. Qed.

  Lemma ds_snoc w e : ds (w ++ [e]) = filter (fun o => negb (sup e o)) (ds w) ++ [e].
  Proof.
    induction w as [|o r IH]; cbn; [reflexivity|].
    rewrite existsb_app. cbn [existsb]. rewrite orb_false_r.
    destruct (existsb (fun n => sup n o) r); cbn [orb].
    - exact IH.
    - cbn [filter]. destruct (sup e o); cbn [negb]; rewrite IH; reflexivity.
  Qed.

  Lemma ds_incl w x : In x (ds w) -> In x w.
  Proof.
    induction w as [|o r IH]; cbn; auto. destruct (existsb (fun n => sup n o) r); cbn; intuition.
  Qed.

  Lemma ds_pairwise w : ForallOrdPairs (fun o n => sup n o = false) (ds w).
  Proof.
    induction w as [|o r IH]; cbn; [constructor|].
    destruct (existsb (fun n => sup n o) r) eqn:E; auto.
    constructor; auto. apply Forall_forall. intros n Hn. apply ds_incl in Hn.
    destruct (sup n o) eqn:S; auto. assert (existsb (fun n => sup n o) r = true) by (apply existsb_exists; eauto). congruence.
  Qed.

  Lemma sup_euclid e a b : sup e a = true -> sup e b = true -> sup b a = true.
  Proof.
    unfold supersedes. destruct (spec_shape (ec_type (class_of table (e_cls e)))) eqn:S; try discriminate.
    - intros Ha Hb. apply Nat.eqb_eq in Ha, Hb. rewrite Hb, S. apply Nat.eqb_eq. congruence.
    - intros Ha Hb. apply andb_true_iff in Ha, Hb. destruct Ha as [Ha1 Ha2], Hb as [Hb1 Hb2].
      apply Nat.eqb_eq in Ha1, Hb1. apply Z.eqb_eq in Ha2, Hb2. rewrite Hb1, S.
      apply andb_true_iff; split; [apply Nat.eqb_eq | apply Z.eqb_eq]; congruence.
  Qed.

  Lemma at_most_one e l :
    ForallOrdPairs (fun o n => sup n o = false) l -> (List.length (filter (fun o => sup e o) l) <= 1)%nat.
  Proof.
    induction 1 as [|a l Ha Hl IH]; cbn; [lia|].
    destruct (sup e a) eqn:E; [|exact IH]. cbn.
    assert (filter (fun o => sup e o) l = []) as ->; [|cbn; lia].
    assert (Forall (fun b => sup e b = false) l) as HF.
    { rewrite Forall_forall in *. intros b Hb. destruct (sup e b) eqn:Eb; auto.
      specialize (Ha b Hb). cbn in Ha. rewrite (sup_euclid e a b E Eb) in Ha. discriminate. }
    clear - HF. induction HF; cbn; auto. rewrite H. auto.
  Qed.

  Lemma rev_newest l : rev (newest cap l) = firstn cap (rev l).
  Proof. unfold newest. rewrite firstn_rev. reflexivity. Qed.

  (* the closed form is preserved by Session.push *)
  Theorem push_closed_form w e :
    push table cap e (rev (newest cap (ds w))) = rev (newest cap (ds (w ++ [e]))).
  Proof.
    rewrite !rev_newest, ds_snoc, rev_app_distr. cbn [rev app].
    rewrite firstn_cons_pos by exact cap_pos. unfold push. f_equal.
    rewrite <- filter_rev.
    rewrite (filter_ext (fun o => negb (is_dup table e o)) (fun o => negb (sup e o)))
      by (intro; rewrite is_dup_supersedes; reflexivity).
    apply firstn_filter_one'; [exact cap_pos|].
    rewrite (filter_ext _ (fun o => sup e o)) by (intros; apply negb_involutive).
    rewrite filter_rev, rev_length. apply at_most_one, ds_pairwise.
  Qed.
End Queue.
