(* C11 — dispatch used by the generated case files: the model instantiated with the regenerated table / reset_and_wait
   program / constants, compared with what the implementation did (answers and final state). *)
From QT Require Export C11.Model C11.SpecRun.
From QT Require Import Gen.C11Gen.
Open Scope Z_scope.

Definition run_gen (cap : nat) (tr : list event) : state * list output :=
  let '(x, o) := grun event_table reset_prog session_expiry_factor cap tr in (snd x, o).

Definition obs_sess_of (x : Z * session) : obs_sess :=
  let '(k, s) := x in (k, map e_id (s_queue s), s_level s, s_future s, s_accessed s, s_timeout s).

Definition obs_sess_eqb (a b : obs_sess) : bool :=
  let '(k1, q1, l1, f1, a1, t1) := a in let '(k2, q2, l2, f2, a2, t2) := b in
  (k1 =? k2) && list_eqb Nat.eqb q1 q2 && (l1 =? l2) && option_eqb Nat.eqb f1 f2 && (a1 =? a2) && (t1 =? t2).

Definition model_ok (c : case) : bool :=
  let '(cap, tr, outs, fin) := c in
  let '(st, o) := run_gen cap tr in
  list_eqb obs_eqb (map obs_of o) outs && list_eqb obs_sess_eqb (map obs_sess_of st) fin.

Definition bad_model (cases : list case) : list nat := mismatches model_ok cases 0.

(* the regenerated table, for the cross-check against the table introspected at run time *)
Definition evclass_eqb (a b : evclass) : bool :=
  String.eqb (ec_type a) (ec_type b) && (ec_req a =? ec_req b) && dup_shape_eqb (ec_dup a) (ec_dup b).
Definition table_matches (t : list evclass) : list nat :=
  if list_eqb evclass_eqb event_table t then [] else [0%nat].
