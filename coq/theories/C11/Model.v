(* C11 — model of qtoggleserver/core/sessions.py (Session, SessionsEventHandler.handle_event, get, update) and of the
   synchronous dispatch in core/events/handlers.py:trigger, as an executable labelled transition system.
   Definitions only (no proofs), total and computable.

   Parameters: the event table and the statement list of Session.reset_and_wait (both regenerated from the source into
   Gen/C11Gen.v), SESSION_EXPIRY_FACTOR, and settings.core.event_queue_size (cap). *)
From QT Require Export C11.Types.
Open Scope Z_scope.

Record session := mk_session {
  s_queue : list ev;          (* Session.queue: newest first (push inserts at index 0) *)
  s_level : Z;                (* Session.access_level *)
  s_future : option nat;      (* Session.future: the pending listen call, named by the position of its Listen *)
  s_accessed : Z;             (* Session.accessed *)
  s_timeout : Z               (* Session.timeout *)
}.

Definition new_session : session := mk_session [] 0 None 0 0.       (* Session.__init__ *)

Definition set_queue (s : session) q := mk_session q (s_level s) (s_future s) (s_accessed s) (s_timeout s).
Definition set_level (s : session) l := mk_session (s_queue s) l (s_future s) (s_accessed s) (s_timeout s).
Definition set_future (s : session) f := mk_session (s_queue s) (s_level s) f (s_accessed s) (s_timeout s).
Definition set_accessed (s : session) a := mk_session (s_queue s) (s_level s) (s_future s) a (s_timeout s).
Definition set_timeout (s : session) t := mk_session (s_queue s) (s_level s) (s_future s) (s_accessed s) t.

Definition is_active (s : session) : bool := match s_future s with Some _ => true | None => false end.
Definition is_empty (s : session) : bool := match s_queue s with [] => true | _ => false end.

(* the sessions dict: insertion ordered, keys unique *)
Definition state := list (Z * session).

Fixpoint lookup (k : Z) (st : state) : option session :=
  match st with
  | [] => None
  | (k', s) :: r => if k' =? k then Some s else lookup k r
  end.

Fixpoint replace (k : Z) (s : session) (st : state) : state :=
  match st with
  | [] => []
  | (k', s') :: r => if k' =? k then (k', s) :: r else (k', s') :: replace k s r
  end.

Section Model.
  Variable table : list evclass.
  Variable prog : list rstmt.       (* body of Session.reset_and_wait *)
  Variable factor : Z.              (* SESSION_EXPIRY_FACTOR *)
  Variable cap : nat.               (* settings.core.event_queue_size *)

  (* n.is_duplicate(o) *)
  Definition is_dup (n o : ev) : bool :=
    match ec_dup (class_of table (e_cls n)) with
    | DupNever => false
    | DupSameClass => Nat.eqb (e_cls o) (e_cls n)
    | DupSameClassObj => Nat.eqb (e_cls o) (e_cls n) && (e_obj o =? e_obj n)
    end.

  (* Session.push: remove the queued duplicates of e, pop the oldest while len >= cap, insert e at the front *)
  Definition push (e : ev) (q : list ev) : list ev :=
    e :: firstn (cap - 1) (filter (fun o => negb (is_dup e o)) q).

  (* Session.respond at step i: the queue is emptied in any case; the pending call, if any, gets reversed(queue) *)
  Definition respond (i : nat) (s : session) : session * list output :=
    (set_future (set_queue s []) None,
     match s_future s with Some r => [mk_out i r (rev (s_queue s))] | None => [] end).

  (* one statement of reset_and_wait; loc is the local variable `future` *)
  Definition exec_stmt (i : nat) (level timeout now : Z) (x : session * option nat * list output) (st : rstmt)
    : session * option nat * list output :=
    let '(s, loc, outs) := x in
    match st with
    | RIfFutureRespond =>
        if is_active s then let '(s', o) := respond i s in (s', loc, outs ++ o) else x
    | RNewFuture => (s, Some i, outs)
    | RSetAccessed => (set_accessed s now, loc, outs)
    | RSetTimeout => (set_timeout s timeout, loc, outs)
    | RSetLevel => (set_level s level, loc, outs)
    | RSetFuture => (set_future s loc, loc, outs)
    | RFilterQueue => (set_queue s (filter (permitted table level) (s_queue s)), loc, outs)
    | RIfQueueRespond =>
        if is_empty s then x else let '(s', o) := respond i s in (s', loc, outs ++ o)
    end.

  (* Session.reset_and_wait(timeout, level) called at step i with time.time() = now *)
  Definition sess_listen (i : nat) (level timeout now : Z) (s : session) : session * list output :=
    let '(s', _, outs) := fold_left (exec_stmt i level timeout now) prog (s, None, []) in (s', outs).

  (* SessionsEventHandler.handle_event, for one session *)
  Definition sess_trigger (e : ev) (s : session) : session :=
    if s_level s <? req_of table e then s else set_queue s (push e (s_queue s)).

  (* sessions.update(), for one session: None = the session is removed *)
  Definition sess_tick (i : nat) (now : Z) (s : session) : option session * list output :=
    if negb (is_empty s) && is_active s then
      let '(s', o) := respond i s in (Some s', o)
    else if (now - s_accessed s >? s_timeout s) && is_active s then
      let '(s', o) := respond i s in (Some s', o)
    else if (now - s_accessed s >? s_timeout s * factor) && negb (is_active s) then (None, [])
    else (Some s, []).

  Definition trigger_all (e : ev) (st : state) : state := map (fun '(k, s) => (k, sess_trigger e s)) st.

  Fixpoint tick_all (i : nat) (now : Z) (st : state) : state * list output :=
    match st with
    | [] => ([], [])
    | (k, s) :: r =>
        let '(os, o1) := sess_tick i now s in
        let '(r', o2) := tick_all i now r in
        (match os with Some s' => (k, s') :: r' | None => r' end, o1 ++ o2)
    end.

  (* sessions.get(sid) followed by reset_and_wait *)
  Definition listen (i : nat) (sid level timeout now : Z) (st : state) : state * list output :=
    match lookup sid st with
    | Some s => let '(s', o) := sess_listen i level timeout now s in (replace sid s' st, o)
    | None => let '(s', o) := sess_listen i level timeout now new_session in (st ++ [(sid, s')], o)
    end.

  (* step number i of the trace *)
  Definition step (i : nat) (st : state) (e : event) : state * list output :=
    match e with
    | Trigger cls obj => (trigger_all (mk_ev i cls obj) st, [])
    | Listen sid level timeout now => listen i sid level timeout now st
    | Tick now => tick_all i now st
    | Disable | Enable => (st, [])          (* the flag lives in gstep below; the sessions are not touched *)
    end.

  Fixpoint run_from (i : nat) (st : state) (tr : list event) : state * list output :=
    match tr with
    | [] => (st, [])
    | e :: r =>
        let '(st1, o1) := step i st e in
        let '(st2, o2) := run_from (S i) st1 r in
        (st2, o1 ++ o2)
    end.

  Definition run (tr : list event) : state * list output := run_from 0%nat [] tr.

  (* with core/events/handlers.py:_enabled: trigger() does nothing while it is False *)
  Definition gstep (i : nat) (x : bool * state) (e : event) : (bool * state) * list output :=
    let '(en, st) := x in
    match e with
    | Disable => ((false, st), [])
    | Enable => ((true, st), [])
    | Trigger _ _ => if en then let '(st', o) := step i st e in ((en, st'), o) else ((en, st), [])
    | _ => let '(st', o) := step i st e in ((en, st'), o)
    end.

  Fixpoint grun_from (i : nat) (x : bool * state) (tr : list event) : (bool * state) * list output :=
    match tr with
    | [] => (x, [])
    | e :: r =>
        let '(x1, o1) := gstep i x e in
        let '(x2, o2) := grun_from (S i) x1 r in
        (x2, o1 ++ o2)
    end.

  Definition grun (tr : list event) : (bool * state) * list output := grun_from 0%nat (true, []) tr.
End Model.

(* the program of the repaired reset_and_wait (fixes/C11-*.diff) and of the code before the repair *)
Definition reset_fixed : list rstmt :=
  [RIfFutureRespond; RNewFuture; RSetAccessed; RSetTimeout; RSetLevel; RSetFuture; RFilterQueue; RIfQueueRespond].
Definition reset_old : list rstmt :=
  [RIfFutureRespond; RNewFuture; RSetAccessed; RSetTimeout; RSetLevel; RSetFuture; RIfQueueRespond].
