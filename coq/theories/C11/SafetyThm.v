(* C11 — level safety of the model with the repaired reset_and_wait, for every trace: invariant
   "every queued event is permitted for the session's level, and the waiting call has the session's level". *)
From QT Require Import C11.Model C11.Spec C11.ListenForm.
Open Scope Z_scope.

Section Safety.
  Variable table : list evclass.
  Variable factor : Z.
  Variable cap : nat.

  Definition lvl_ok (l : Z) (e : ev) : Prop := req_of table e <= l.

  Definition sess_ok (tr : list event) (s : session) : Prop :=
    Forall (lvl_ok (s_level s)) (s_queue s) /\
    (forall r, s_future s = Some r -> rid_level tr r = Some (s_level s)).

  Definition st_ok (tr : list event) (st : state) : Prop := Forall (fun x => sess_ok tr (snd x)) st.

  Definition out_ok (tr : list event) (o : output) : Prop :=
    exists l, rid_level tr (o_rid o) = Some l /\ Forall (lvl_ok l) (o_evs o).

  Lemma sess_ok_app tr x s : sess_ok tr s -> sess_ok (tr ++ x) s.
  Proof. intros [H1 H2]; split; auto. intros r Hr. apply rid_level_app; auto. Qed.

  Lemma st_ok_app tr x st : st_ok tr st -> st_ok (tr ++ x) st.
  Proof. unfold st_ok. intro H. eapply Forall_impl; [|exact H]. intros a. apply sess_ok_app. Qed.

  Lemma out_ok_app tr x o : out_ok tr o -> out_ok (tr ++ x) o.
  Proof. intros [l [H1 H2]]. exists l; split; auto. apply rid_level_app; auto. Qed.

  Lemma respond_ok tr i s s' o :
    sess_ok tr s -> respond i s = (s', o) -> sess_ok tr s' /\ Forall (out_ok tr) o.
  Proof.
    intros [Hq Hf] H. unfold respond in H. inversion H; subst; clear H. split.
    - split; cbn; [constructor | discriminate].
    - destruct (s_future s) as [r|] eqn:E; [|constructor].
      constructor; [|constructor]. exists (s_level s). cbn. split; auto.
      apply Forall_rev. exact Hq.
  Qed.

  Lemma sess_trigger_ok tr e s : sess_ok tr s -> sess_ok tr (sess_trigger table cap e s).
  Proof.
    intros [Hq Hf]. unfold sess_trigger. destruct (s_level s <? req_of table e) eqn:E; [split; auto|].
    apply Z.ltb_ge in E. split; cbn; auto.
    unfold push. constructor; [exact E|]. apply Forall_firstn, Forall_filter. exact Hq.
  Qed.

  Lemma sess_tick_ok tr i now s os o :
    sess_ok tr s -> sess_tick factor i now s = (os, o) ->
    (forall s', os = Some s' -> sess_ok tr s') /\ Forall (out_ok tr) o.
  Proof.
    intros Hs H. unfold sess_tick in H.
    destruct (negb (is_empty s) && is_active s).
    { destruct (respond i s) as [s1 o1] eqn:R. inversion H; subst. destruct (respond_ok _ _ _ _ _ Hs R).
      split; auto. intros ? [= <-]; auto. }
    destruct ((now - s_accessed s >? s_timeout s) && is_active s).
    { destruct (respond i s) as [s1 o1] eqn:R. inversion H; subst. destruct (respond_ok _ _ _ _ _ Hs R).
      split; auto. intros ? [= <-]; auto. }
    destruct ((now - s_accessed s >? s_timeout s * factor) && negb (is_active s)); inversion H; subst.
    - split; [discriminate | constructor].
    - split; [intros ? [= <-]; auto | constructor].
  Qed.

  (* the Listen is the event at position length tr *)
  Lemma listen_form_ok tr sid level timeout now s s' o :
    sess_ok tr s ->
    listen_form table (List.length tr) level timeout now s = (s', o) ->
    let tr' := tr ++ [Listen sid level timeout now] in
    sess_ok tr' s' /\ Forall (out_ok tr') o.
  Proof.
    intros [Hq Hf] H tr'. unfold listen_form in H.
    assert (Ho1 : Forall (out_ok tr')
                    match s_future s with Some r => [mk_out (List.length tr) r (rev (s_queue s))] | None => [] end).
    { destruct (s_future s) as [r|]; [|constructor]. constructor; [|constructor].
      exists (s_level s). cbn. split; [apply rid_level_app; auto | apply Forall_rev; auto]. }
    assert (Hhere : rid_level tr' (List.length tr) = Some level) by apply rid_level_here.
    destruct (match s_future s with Some _ => [] | None => filter (permitted table level) (s_queue s) end) as [|x q] eqn:Q;
      inversion H; subst; clear H.
    - split; auto. split; cbn; [constructor|]. intros r [= <-]. exact Hhere.
    - split.
      + split; cbn; [constructor | discriminate].
      + apply Forall_app; split; auto. constructor; [|constructor].
        exists level. cbn [o_rid o_evs]. split; auto. change (Forall (lvl_ok level) (rev (x :: q))). apply Forall_rev.
        destruct (s_future s); [discriminate|]. rewrite <- Q.
        eapply Forall_impl; [|apply Forall_filter_true]. intros a Ha. unfold permitted in Ha. apply Z.leb_le in Ha. exact Ha.
  Qed.

  Lemma lookup_ok tr k st s : st_ok tr st -> lookup k st = Some s -> sess_ok tr s.
  Proof.
    induction 1 as [|[k' s'] r]; cbn; [discriminate|]. destruct (k' =? k); auto. intros [= <-]. auto.
  Qed.

  Lemma replace_ok tr k s st : st_ok tr st -> sess_ok tr s -> st_ok tr (replace k s st).
  Proof.
    intros H Hs. induction H as [|[k' s'] r]; cbn; [constructor|]. destruct (k' =? k); constructor; auto.
  Qed.

  Lemma tick_all_ok tr i now st st' o :
    st_ok tr st -> tick_all factor i now st = (st', o) -> st_ok tr st' /\ Forall (out_ok tr) o.
  Proof.
    intros H; revert st' o. induction H as [|[k s] r Hs Hr IH]; cbn; intros st' o E.
    - inversion E; subst. split; constructor.
    - destruct (sess_tick factor i now s) as [os o1] eqn:T.
      destruct (tick_all factor i now r) as [r' o2] eqn:R. inversion E; subst; clear E.
      destruct (sess_tick_ok _ _ _ _ _ _ Hs T) as [A B]. destruct (IH _ _ eq_refl) as [C D].
      split; [|apply Forall_app; auto]. destruct os as [s1|]; auto. constructor; auto; try (apply A; auto).
  Qed.

  Lemma step_ok tr e st st' o :
    st_ok tr st -> step table reset_fixed factor cap (List.length tr) st e = (st', o) ->
    st_ok (tr ++ [e]) st' /\ Forall (out_ok (tr ++ [e])) o.
  Proof.
    intros H E. destruct e as [cls obj | sid level timeout now | now | |]; cbn in E.
    - inversion E; subst; clear E. split; [|constructor]. apply st_ok_app.
      unfold st_ok, trigger_all. rewrite Forall_map. eapply Forall_impl; [|exact H].
      intros [k s] Hs. cbn. apply sess_trigger_ok. exact Hs.
    - unfold listen in E. destruct (lookup sid st) as [s|] eqn:L; rewrite sess_listen_fixed in E.
      + destruct (listen_form table (List.length tr) level timeout now s) as [s' o'] eqn:F. inversion E; subst; clear E.
        destruct (listen_form_ok tr sid _ _ _ _ _ _ (lookup_ok _ _ _ _ H L) F) as [A B]. split; auto.
        apply replace_ok; auto. apply st_ok_app; auto.
      + destruct (listen_form table (List.length tr) level timeout now new_session) as [s' o'] eqn:F.
        inversion E; subst; clear E.
        assert (N : sess_ok tr new_session) by (split; cbn; [constructor | discriminate]).
        destruct (listen_form_ok tr sid _ _ _ _ _ _ N F) as [A B]. split; auto.
        apply Forall_app; split; [apply st_ok_app; auto | constructor; auto].
    - destruct (tick_all_ok _ _ _ _ _ _ H E) as [A B]. split; [apply st_ok_app; auto|].
      eapply Forall_impl; [|exact B]. intros a. apply out_ok_app.
    - inversion E; subst. split; [apply st_ok_app; auto | constructor].
    - inversion E; subst. split; [apply st_ok_app; auto | constructor].
  Qed.

  Lemma run_from_ok : forall suf pre st st' o,
    st_ok pre st -> run_from table reset_fixed factor cap (List.length pre) st suf = (st', o) ->
    st_ok (pre ++ suf) st' /\ Forall (out_ok (pre ++ suf)) o.
  Proof.
    induction suf as [|e r IH]; intros pre st st' o H E; cbn in E.
    - inversion E; subst. rewrite app_nil_r. split; auto.
    - destruct (step table reset_fixed factor cap (List.length pre) st e) as [st1 o1] eqn:S1.
      destruct (run_from table reset_fixed factor cap (S (List.length pre)) st1 r) as [st2 o2] eqn:R.
      inversion E; subst; clear E.
      destruct (step_ok _ _ _ _ _ H S1) as [A B].
      replace (S (List.length pre)) with (List.length (pre ++ [e])) in R by (rewrite app_length; cbn; lia).
      destruct (IH _ _ _ _ A R) as [C D]. rewrite <- app_assoc in C, D. cbn in C, D.
      split; auto. apply Forall_app; split; auto.
      eapply Forall_impl; [|exact B]. intros a Ha. replace (pre ++ e :: r) with ((pre ++ [e]) ++ r)
        by (rewrite <- app_assoc; reflexivity). apply out_ok_app; auto.
  Qed.

  Theorem level_safety_fixed : forall tr, level_safe table tr (snd (run table reset_fixed factor cap tr)).
  Proof.
    intros tr o e Ho He. unfold run in Ho.
    destruct (run_from table reset_fixed factor cap 0 [] tr) as [st' outs] eqn:R.
    destruct (run_from_ok tr [] [] st' outs (Forall_nil _) R) as [_ B]. cbn in B, Ho.
    rewrite Forall_forall in B. destruct (B o Ho) as [l [Hl Hq]]. exists l; split; auto.
    rewrite Forall_forall in Hq. apply Hq; auto.
  Qed.
End Safety.
