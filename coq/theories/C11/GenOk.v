(* C11 — what the theorems need from the regenerated definitions (Gen/C11Gen.v); re-proved on every run:
   reset_and_wait behaves like the repaired program, the is_duplicate shapes are the supersession rule of the
   specification, SESSION_EXPIRY_FACTOR = 10, the default queue size is at least 1. *)
From QT Require Import C11.Model C11.Spec Gen.C11Gen.
Open Scope Z_scope.

Lemma reset_prog_ok : forall table i level timeout now s,
  sess_listen table reset_prog i level timeout now s = sess_listen table reset_fixed i level timeout now s.
Proof.
  intros table i level timeout now [q l [r|] a t]; unfold sess_listen; cbn; [reflexivity|].
  destruct (filter (permitted table level) q); reflexivity.
Qed.

Lemma factor_ok : session_expiry_factor = 10.
Proof. reflexivity. Qed.

Lemma shapes_ok : forall c, ec_dup (class_of event_table c) = spec_shape (ec_type (class_of event_table c)).
Proof.
  intro c. unfold class_of.
  assert (F : forallb (fun x => dup_shape_eqb (ec_dup x) (spec_shape (ec_type x))) event_table = true)
    by (vm_compute; reflexivity).
  destruct (nth_in_or_default c event_table no_class) as [H | ->]; [|reflexivity].
  rewrite forallb_forall in F. specialize (F _ H).
  destruct (ec_dup (nth c event_table no_class)), (spec_shape (ec_type (nth c event_table no_class))); auto; discriminate.
Qed.

Lemma default_cap_ok : (1 <= Z.to_nat default_event_queue_size)%nat.
Proof. apply Nat.leb_le. vm_compute. reflexivity. Qed.
