(* C11 — the specified delivery log of a session (all answers concatenated) is strictly increasing in trigger position:
   every event at most once, in trigger order.  With C11_exactly_once_in_order this holds for the model's answers. *)
From QT Require Import C11.Types C11.Spec.
From Coq Require Import Sorted.
Open Scope Z_scope.

(* l has strictly increasing ids, all within [lo, hi) *)
Fixpoint SB (lo : nat) (l : list ev) (hi : nat) : Prop :=
  match l with
  | [] => (lo <= hi)%nat
  | e :: r => (lo <= e_id e)%nat /\ SB (S (e_id e)) r hi
  end.

Lemma SB_le lo l hi : SB lo l hi -> (lo <= hi)%nat.
Proof. revert lo; induction l as [|e r IH]; cbn; intros lo H; auto. destruct H as [A B]. apply IH in B. lia. Qed.

Lemma SB_lo lo lo' l hi : (lo' <= lo)%nat -> SB lo l hi -> SB lo' l hi.
Proof. destruct l; cbn; intros; [lia | intuition lia]. Qed.

Lemma SB_hi lo l hi hi' : (hi <= hi')%nat -> SB lo l hi -> SB lo l hi'.
Proof. revert lo; induction l as [|e r IH]; cbn; intros lo L H; [lia|]. destruct H; split; auto. Qed.

Lemma SB_app lo a mid b hi : SB lo a mid -> SB mid b hi -> SB lo (a ++ b) hi.
Proof.
  revert lo; induction a as [|e r IH]; cbn; intros lo A B.
  - eapply SB_lo; eauto.
  - destruct A; split; auto.
Qed.

Lemma SB_filter f lo l hi : SB lo l hi -> SB lo (filter f l) hi.
Proof.
  revert lo; induction l as [|e r IH]; cbn; intros lo H; auto. destruct H as [A B].
  destruct (f e); cbn; [split; auto|]. eapply SB_lo; [|apply IH; exact B]. lia.
Qed.

Lemma SB_skipn n lo l hi : SB lo l hi -> SB lo (skipn n l) hi.
Proof.
  revert lo l; induction n as [|n IH]; intros lo l H; [exact H|]. destruct l as [|e r]; [exact H|].
  cbn. destruct H as [A B]. eapply SB_lo; [|apply IH; exact B]. lia.
Qed.

Section Order.
  Variable table : list evclass.
  Variable cap : nat.
  Variable sid : Z.

  Lemma SB_ds lo w hi : SB lo w hi -> SB lo (drop_superseded table w) hi.
  Proof.
    revert lo; induction w as [|e r IH]; cbn; intros lo H; auto. destruct H as [A B].
    destruct (existsb (fun n => supersedes table n e) r); cbn; [|split; auto].
    eapply SB_lo; [|apply IH; exact B]. lia.
  Qed.

  Lemma SB_content level lo w hi : SB lo w hi -> SB lo (content table cap level w) hi.
  Proof. intro H. unfold content, newest. apply SB_filter, SB_skipn, SB_ds, H. Qed.

  Lemma content_nil level : content table cap level [] = [].
  Proof. unfold content, newest. cbn [drop_superseded List.length]. destruct (0 - cap)%nat; reflexivity. Qed.

  Definition win (st : option sspec) : list ev := match st with Some s => sp_window s | None => [] end.
  Definition log (outs : list output) : list ev := List.concat (map o_evs outs).

  Lemma step_order lo i st e st1 o1 :
    SB lo (win st) i -> spec_step table cap sid i st e = (st1, o1) ->
    exists mid, SB lo (log o1) mid /\ SB mid (win st1) (S i).
  Proof.
    intros H E.
    assert (Hle : (lo <= i)%nat) by (eapply SB_le; eauto).
    assert (Keep : SB lo (win st) (S i)) by (eapply SB_hi; [|exact H]; lia).
    destruct e as [cls obj | sid' level timeout now | now | |]; cbn [spec_step] in E.
    - destruct st as [s|]; [|inversion E; subst; exists lo; split; cbn; lia].
      destruct (permitted table (sp_level s) (mk_ev i cls obj)); inversion E; subst; exists lo; (split; [cbn; lia|]); auto.
      cbn [win sp_window]. eapply SB_app; [exact H|]. cbn. lia.
    - destruct (sid' =? sid); [|inversion E; subst; exists lo; split; [cbn; lia | auto]].
      destruct st as [s|]; [destruct (sp_req s) as [r|]|].
      + rewrite content_nil in E. cbn [nonempty] in E. inversion E; subst. exists i. split; [|cbn; lia].
        unfold log. cbn. rewrite app_nil_r. apply SB_content. exact H.
      + destruct (nonempty (content table cap level (sp_window s))); inversion E; subst.
        * exists i. split; [|cbn; lia]. unfold log. cbn. rewrite app_nil_r. apply SB_content. exact H.
        * exists lo. split; cbn; lia.
      + rewrite content_nil in E. cbn [nonempty] in E. inversion E; subst. exists lo. split; cbn; lia.
    - destruct st as [s|]; [|inversion E; subst; exists lo; split; cbn; lia].
      destruct (sp_req s) as [r|].
      + destruct (nonempty (content table cap (sp_level s) (sp_window s)) || (now - sp_accessed s >? sp_timeout s));
          inversion E; subst; [|exists lo; split; [cbn; lia | auto]].
        exists i. split; [|cbn; lia]. unfold log. cbn. rewrite app_nil_r. apply SB_content. exact H.
      + destruct (now - sp_accessed s >? 10 * sp_timeout s); inversion E; subst; exists lo; (split; [cbn; lia|]); auto.
        cbn. lia.
    - inversion E; subst. exists lo. split; [cbn; lia | auto].
    - inversion E; subst. exists lo. split; [cbn; lia | auto].
  Qed.

  Lemma run_order : forall tr lo i st st' outs,
    SB lo (win st) i -> spec_from table cap sid i st tr = (st', outs) -> exists hi, SB lo (log outs) hi.
  Proof.
    induction tr as [|e r IH]; intros lo i st st' outs H E; cbn in E.
    - inversion E; subst. exists i. cbn. eapply SB_le; eauto.
    - destruct (spec_step table cap sid i st e) as [st1 o1] eqn:S1.
      destruct (spec_from table cap sid (S i) st1 r) as [st2 o2] eqn:S2. inversion E; subst; clear E.
      destruct (step_order _ _ _ _ _ _ H S1) as [mid [A B]].
      destruct (IH _ _ _ _ _ B S2) as [hi C]. exists hi.
      unfold log in *. rewrite map_app, concat_app. eapply SB_app; eauto.
  Qed.

  Lemma SB_sorted lo l hi : SB lo l hi -> StronglySorted lt (map e_id l) /\ Forall (fun x => (lo <= x)%nat) (map e_id l).
  Proof.
    revert lo; induction l as [|e r IH]; cbn; intros lo H; [split; constructor|].
    destruct H as [A B]. destruct (IH _ B) as [C D]. split.
    - constructor; auto.
    - constructor; auto. eapply Forall_impl; [|exact D]. cbn. intros; lia.
  Qed.

  Theorem spec_trigger_order : forall tr,
    StronglySorted lt (map e_id (List.concat (map o_evs (spec_delivery table cap sid tr)))).
  Proof.
    intro tr. unfold spec_delivery. destruct (spec_from table cap sid 0 None tr) as [st' outs] eqn:E.
    destruct (run_order tr 0%nat 0%nat None st' outs) as [hi H]; [cbn; lia | exact E |].
    apply (SB_sorted _ _ _ H).
  Qed.
End Order.
