(* C11 — specification, written per listening session and over the history of that session only (no sessions dict, no
   incremental queue): what each listen call must be answered with, and at which step.

   For one session id:
   * the session exists from its first Listen until a Tick that finds it idle (no waiting call) for more than 10 timeouts;
   * an event triggered while it exists is *pending* for it when the level of the session's latest caller permits it;
   * a waiting call is answered at the first Tick at which something deliverable is pending or its timeout has passed, or
     when the next Listen of the session arrives; a Listen that finds deliverable pending events is answered at once;
   * the answer is  content level pending  =  the pending events, minus those superseded by a newer pending update event
     for the same object, minus all but the newest [cap] of them, minus those the *answered request's* level does not
     permit, in trigger order; pending events that a new caller may not see are discarded, not kept for a later caller.

   Which events supersede is fixed here by TYPE (it is part of the property, not read from the code):
   port-update / slave-device-update by a newer one for the same port / slave; device-update and full-update by a newer one. *)
From QT Require Export C11.Types.
Open Scope Z_scope.

Definition spec_shape (t : string) : dup_shape :=
  if String.eqb t "port-update" || String.eqb t "slave-device-update" then DupSameClassObj
  else if String.eqb t "device-update" || String.eqb t "full-update" then DupSameClass
  else DupNever.

Record sspec := mk_sspec {
  sp_window : list ev;       (* pending events, in trigger order (oldest first); never trimmed until answered *)
  sp_level : Z;              (* level of the latest caller *)
  sp_req : option nat;       (* the waiting listen call *)
  sp_accessed : Z;
  sp_timeout : Z
}.

Section Spec.
  Variable table : list evclass.
  Variable cap : nat.

  (* the newer event n supersedes the older event o *)
  Definition supersedes (n o : ev) : bool :=
    match spec_shape (ec_type (class_of table (e_cls n))) with
    | DupNever => false
    | DupSameClass => Nat.eqb (e_cls o) (e_cls n)
    | DupSameClassObj => Nat.eqb (e_cls o) (e_cls n) && (e_obj o =? e_obj n)
    end.

  (* w is in trigger order: an event stays unless some later one supersedes it *)
  Fixpoint drop_superseded (w : list ev) : list ev :=
    match w with
    | [] => []
    | o :: r => if existsb (fun n => supersedes n o) r then drop_superseded r else o :: drop_superseded r
    end.

  Definition newest (l : list ev) : list ev := skipn (List.length l - cap) l.

  Definition content (level : Z) (w : list ev) : list ev :=
    filter (permitted table level) (newest (drop_superseded w)).

  Definition nonempty (l : list ev) : bool := match l with [] => false | _ => true end.

  Definition spec_step (sid : Z) (i : nat) (st : option sspec) (e : event) : option sspec * list output :=
    match e with
    | Trigger cls obj =>
        match st with
        | Some s =>
            let x := mk_ev i cls obj in
            if permitted table (sp_level s) x
            then (Some (mk_sspec (sp_window s ++ [x]) (sp_level s) (sp_req s) (sp_accessed s) (sp_timeout s)), [])
            else (st, [])
        | None => (None, [])
        end
    | Listen sid' level timeout now =>
        if sid' =? sid then
          (* a call still waiting is answered first, with whatever is pending for it (possibly nothing) *)
          let '(o1, w) :=
            match st with
            | Some s =>
                match sp_req s with
                | Some r => ([mk_out i r (content (sp_level s) (sp_window s))], [])
                | None => ([], sp_window s)
                end
            | None => ([], [])
            end in
          let c := content level w in
          if nonempty c
          then (Some (mk_sspec [] level None now timeout), o1 ++ [mk_out i i c])
          else (Some (mk_sspec [] level (Some i) now timeout), o1)
        else (st, [])
    | Tick now =>
        match st with
        | Some s =>
            match sp_req s with
            | Some r =>
                let c := content (sp_level s) (sp_window s) in
                if nonempty c || (now - sp_accessed s >? sp_timeout s)
                then (Some (mk_sspec [] (sp_level s) None (sp_accessed s) (sp_timeout s)), [mk_out i r c])
                else (st, [])
            | None =>
                if now - sp_accessed s >? 10 * sp_timeout s then (None, []) else (st, [])
            end
        | None => (None, [])
        end
    | Disable | Enable => (st, [])
    end.

  Fixpoint spec_from (sid : Z) (i : nat) (st : option sspec) (tr : list event) : option sspec * list output :=
    match tr with
    | [] => (st, [])
    | e :: r =>
        let '(st1, o1) := spec_step sid i st e in
        let '(st2, o2) := spec_from sid (S i) st1 r in
        (st2, o1 ++ o2)
    end.

  (* the answers owed to the listen calls of session sid, in order *)
  Definition spec_delivery (sid : Z) (tr : list event) : list output := snd (spec_from sid 0%nat None tr).

  (* with Disable / Enable in the history: an event triggered while event handling is disabled is dropped for every session
     (it is not pending for anyone, ever); everything else, and every event triggered after Enable, is owed as above.
     Event handling is enabled at the start. *)
  Definition gspec_delivery (sid : Z) (tr : list event) : list output := spec_delivery sid (erase true tr).
End Spec.

(* the answers (of any run) that belong to session sid: the answered request is a Listen of sid in the trace *)
Definition belongs (tr : list event) (sid : Z) (rid : nat) : bool :=
  match rid_sid tr rid with Some s => s =? sid | None => false end.
Definition outputs_of (tr : list event) (sid : Z) (outs : list output) : list output :=
  filter (fun o => belongs tr sid (o_rid o)) outs.

(* level safety of a list of answers, stated on the trace alone *)
Definition level_safe (table : list evclass) (tr : list event) (outs : list output) : Prop :=
  forall o e, In o outs -> In e (o_evs o) ->
    exists level, rid_level tr (o_rid o) = Some level /\ req_of table e <= level.
