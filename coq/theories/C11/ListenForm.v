(* C11 — the repaired reset_and_wait program in closed form, and small list facts used by the proofs. *)
From QT Require Import C11.Model.
Open Scope Z_scope.

Section ListenForm.
  Variable table : list evclass.

  Definition listen_form (i : nat) (level timeout now : Z) (s : session) : session * list output :=
    let o1 := match s_future s with Some r => [mk_out i r (rev (s_queue s))] | None => [] end in
    let q := match s_future s with Some _ => [] | None => filter (permitted table level) (s_queue s) end in
    match q with
    | [] => (mk_session [] level (Some i) now timeout, o1)
    | _ => (mk_session [] level None now timeout, o1 ++ [mk_out i i (rev q)])
    end.

  Lemma sess_listen_fixed : forall i level timeout now s,
    sess_listen table reset_fixed i level timeout now s = listen_form i level timeout now s.
  Proof.
    intros i level timeout now [q l [r|] a t]; unfold sess_listen, listen_form, reset_fixed; cbn.
    - reflexivity.
    - destruct (filter (permitted table level) q); reflexivity.
  Qed.
End ListenForm.

Lemma Forall_firstn {A} (P : A -> Prop) n l : Forall P l -> Forall P (firstn n l).
Proof. revert n; induction l; intros [|n] H; cbn; auto. inversion H; subst; constructor; auto. Qed.

Lemma Forall_filter {A} (P : A -> Prop) f l : Forall P l -> Forall P (filter f l).
Proof. induction 1; cbn; auto. destruct (f x); auto. Qed.

Lemma Forall_filter_true {A} (f : A -> bool) l : Forall (fun x => f x = true) (filter f l).
Proof. induction l; cbn; auto. destruct (f a) eqn:E; auto. Qed.

Lemma filter_all_true {A} (f : A -> bool) l : Forall (fun x => f x = true) l -> filter f l = l.
Proof. induction 1; cbn; auto. rewrite H. f_equal; auto. Qed.

Lemma rid_level_app tr x r l : rid_level tr r = Some l -> rid_level (tr ++ x) r = Some l.
Proof.
  unfold rid_level. destruct (nth_error tr r) eqn:E; try discriminate.
  rewrite nth_error_app1; [rewrite E; auto|]. apply nth_error_Some. congruence.
Qed.

Lemma rid_sid_app tr x r k : rid_sid tr r = Some k -> rid_sid (tr ++ x) r = Some k.
Proof.
  unfold rid_sid. destruct (nth_error tr r) eqn:E; try discriminate.
  rewrite nth_error_app1; [rewrite E; auto|]. apply nth_error_Some. congruence.
Qed.

Lemma rid_level_here tr sid level timeout now x :
  rid_level (tr ++ Listen sid level timeout now :: x) (List.length tr) = Some level.
Proof. unfold rid_level. rewrite nth_error_app2, Nat.sub_diag by lia. reflexivity. Qed.

Lemma rid_sid_here tr sid level timeout now x :
  rid_sid (tr ++ Listen sid level timeout now :: x) (List.length tr) = Some sid.
Proof. unfold rid_sid. rewrite nth_error_app2, Nat.sub_diag by lia. reflexivity. Qed.
