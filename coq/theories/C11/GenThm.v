(* C11 — the theorems, for the model instantiated with the regenerated table / reset_and_wait program / constants. *)
From QT Require Import C11.Model C11.Spec C11.ListenForm C11.SafetyThm C11.SimThm C11.PromptThm C11.OrderThm C11.EraseThm C11.GenOk Gen.C11Gen.
From Coq Require Import Sorted.
Open Scope Z_scope.

Lemma run_from_ext table p1 p2 factor cap :
  (forall i l t n s, sess_listen table p1 i l t n s = sess_listen table p2 i l t n s) ->
  forall tr i st, run_from table p1 factor cap i st tr = run_from table p2 factor cap i st tr.
Proof.
  intros H. induction tr as [|e r IH]; intros i st; cbn; [reflexivity|].
  assert (E : step table p1 factor cap i st e = step table p2 factor cap i st e).
  { destruct e; cbn; auto. unfold listen. destruct (lookup sid st); rewrite H; reflexivity. }
  rewrite E. destruct (step table p2 factor cap i st e). rewrite IH. reflexivity.
Qed.

Lemma run_gen_fixed cap tr :
  run event_table reset_prog session_expiry_factor cap tr = run event_table reset_fixed 10 cap tr.
Proof. unfold run. rewrite factor_ok. apply run_from_ext. apply reset_prog_ok. Qed.

Lemma level_safety_gen : forall cap tr,
  level_safe event_table tr (snd (run event_table reset_prog session_expiry_factor cap tr)).
Proof. intros. rewrite run_gen_fixed. apply level_safety_fixed. Qed.

Lemma exactly_once_gen : forall cap sid tr, (1 <= cap)%nat ->
  outputs_of tr sid (snd (run event_table reset_prog session_expiry_factor cap tr)) = spec_delivery event_table cap sid tr.
Proof. intros. rewrite run_gen_fixed. apply exactly_once_fixed; auto. exact shapes_ok. Qed.

Lemma prompt_tick_gen : forall cap tr now st o,
  run event_table reset_prog session_expiry_factor cap (tr ++ [Tick now]) = (st, o) ->
  Forall (fun x => settled now (snd x)) st.
Proof. intros cap tr now st o. apply prompt_after_tick. Qed.

Lemma prompt_listen_gen : forall cap tr sid level timeout now st o,
  run event_table reset_prog session_expiry_factor cap (tr ++ [Listen sid level timeout now]) = (st, o) ->
  exists s, lookup sid st = Some s /\ s_queue s = [] /\ s_level s = level.
Proof. intros cap tr sid level timeout now st o. rewrite run_gen_fixed. apply prompt_after_listen. Qed.

(* every event at most once and in trigger order, over all answers of a session *)
Lemma trigger_order_gen : forall cap sid tr, (1 <= cap)%nat ->
  StronglySorted lt (map e_id (List.concat (map o_evs
    (outputs_of tr sid (snd (run event_table reset_prog session_expiry_factor cap tr)))))).
Proof. intros. rewrite exactly_once_gen by assumption. apply spec_trigger_order. Qed.

(* ---- with event handling switched off and on (Disable / Enable in the history): the model carrying the _enabled flag *)
Notation grun_gen cap tr := (grun event_table reset_prog session_expiry_factor cap tr).

Lemma glevel_safety_gen : forall cap tr, level_safe event_table tr (snd (grun_gen cap tr)).
Proof.
  intros cap tr o e Ho He. destruct (grun_erase event_table reset_prog session_expiry_factor cap tr) as [E _].
  rewrite E in Ho. destruct (level_safety_gen cap (erase true tr) o e Ho He) as [l [Hl Hle]].
  exists l. split; auto. rewrite rid_level_erase in Hl. exact Hl.
Qed.

Lemma gexactly_once_gen : forall cap sid tr, (1 <= cap)%nat ->
  outputs_of tr sid (snd (grun_gen cap tr)) = gspec_delivery event_table cap sid tr.
Proof.
  intros cap sid tr H. destruct (grun_erase event_table reset_prog session_expiry_factor cap tr) as [E _].
  rewrite E, <- (outputs_of_erase tr true). apply exactly_once_gen. exact H.
Qed.

Lemma gtrigger_order_gen : forall cap sid tr, (1 <= cap)%nat ->
  StronglySorted lt (map e_id (List.concat (map o_evs (outputs_of tr sid (snd (grun_gen cap tr)))))).
Proof. intros. rewrite gexactly_once_gen by assumption. apply spec_trigger_order. Qed.

Lemma gprompt_tick_gen : forall cap tr now x o,
  grun_gen cap (tr ++ [Tick now]) = (x, o) -> Forall (fun y => settled now (snd y)) (snd x).
Proof.
  intros cap tr now x o H. destruct (grun_erase event_table reset_prog session_expiry_factor cap (tr ++ [Tick now])) as [_ E].
  rewrite H in E. cbn [fst snd] in E. rewrite E, erase_snoc_tick.
  destruct (run event_table reset_prog session_expiry_factor cap (erase true tr ++ [Tick now])) as [st o'] eqn:R.
  cbn [fst]. eapply prompt_tick_gen. exact R.
Qed.

Lemma gprompt_listen_gen : forall cap tr sid level timeout now x o,
  grun_gen cap (tr ++ [Listen sid level timeout now]) = (x, o) ->
  exists s, lookup sid (snd x) = Some s /\ s_queue s = [] /\ s_level s = level.
Proof.
  intros cap tr sid level timeout now x o H.
  destruct (grun_erase event_table reset_prog session_expiry_factor cap (tr ++ [Listen sid level timeout now])) as [_ E].
  rewrite H in E. cbn [fst snd] in E. rewrite E, erase_snoc_listen.
  destruct (run event_table reset_prog session_expiry_factor cap (erase true tr ++ [Listen sid level timeout now])) as [st o'] eqn:R.
  cbn [fst]. eapply prompt_listen_gen. exact R.
Qed.

(* an event triggered while event handling is disabled is delivered to nobody *)
Lemma suppressed_never_delivered : forall cap tr o e,
  In o (snd (grun_gen cap tr)) -> In e (o_evs o) ->
  forall cls obj, nth_error (erase true tr) (e_id e) = Some (Trigger cls obj) -> nth_error tr (e_id e) = Some (Trigger cls obj).
Proof.
  intros cap tr o e _ _ cls obj. generalize (e_id e) as n. generalize true as en. revert tr.
  induction tr as [|x r IH]; intros en n H; [destruct n; discriminate|].
  destruct n as [|n].
  - destruct x; cbn in *; try destruct en; try discriminate; auto.
  - destruct x; cbn in *; eapply IH; eauto.
Qed.
