(* C11 — event handling switched off and on (core.events.disable / enable): the model with the _enabled flag behaves on a
   history like the flag-free core on the history with the suppressed triggers erased; Listen calls keep their positions. *)
From QT Require Import C11.Model C11.Spec.
Open Scope Z_scope.

Section Erase.
  Variable table : list evclass.
  Variable prog : list rstmt.
  Variable factor : Z.
  Variable cap : nat.

  Lemma grun_from_erase : forall tr i en st,
    grun_from table prog factor cap i (en, st) tr =
      ((enabled_after en tr, fst (run_from table prog factor cap i st (erase en tr))),
       snd (run_from table prog factor cap i st (erase en tr))).
  Proof.
    induction tr as [|e r IH]; intros i en st; [reflexivity|].
    destruct e as [cls obj | sid level timeout now | now | |]; cbn [grun_from gstep erase enabled_after run_from].
    - destruct en.
      + destruct (step table prog factor cap i st (Trigger cls obj)) as [st1 o1]. rewrite IH.
        destruct (run_from table prog factor cap (S i) st1 (erase true r)); reflexivity.
      + cbn [step]. rewrite IH. destruct (run_from table prog factor cap (S i) st (erase false r)); reflexivity.
    - destruct (step table prog factor cap i st (Listen sid level timeout now)) as [st1 o1]. rewrite IH.
      destruct (run_from table prog factor cap (S i) st1 (erase en r)); reflexivity.
    - destruct (step table prog factor cap i st (Tick now)) as [st1 o1]. rewrite IH.
      destruct (run_from table prog factor cap (S i) st1 (erase en r)); reflexivity.
    - cbn [step]. rewrite IH. destruct (run_from table prog factor cap (S i) st (erase false r)); reflexivity.
    - cbn [step]. rewrite IH. destruct (run_from table prog factor cap (S i) st (erase true r)); reflexivity.
  Qed.

  Lemma grun_erase tr :
    snd (grun table prog factor cap tr) = snd (run table prog factor cap (erase true tr)) /\
    snd (fst (grun table prog factor cap tr)) = fst (run table prog factor cap (erase true tr)).
  Proof. unfold grun, run. rewrite grun_from_erase. split; reflexivity. Qed.
End Erase.

Lemma nth_error_erase_listen : forall tr en r sid level timeout now,
  nth_error (erase en tr) r = Some (Listen sid level timeout now) <-> nth_error tr r = Some (Listen sid level timeout now).
Proof.
  induction tr as [|e t IH]; intros en r sid level timeout now; [reflexivity|].
  destruct r as [|r].
  - destruct e; cbn; try destruct en; split; intro H; try discriminate; auto.
  - destruct e; cbn; apply IH.
Qed.

Lemma rid_level_erase tr en r : rid_level (erase en tr) r = rid_level tr r.
Proof.
  unfold rid_level.
  destruct (nth_error tr r) as [[| sid level timeout now | | |]|] eqn:E.
  2: { apply (nth_error_erase_listen tr en) in E. rewrite E. reflexivity. }
  all: destruct (nth_error (erase en tr) r) as [[| sid' level' timeout' now' | | |]|] eqn:E'; auto;
    apply nth_error_erase_listen in E'; congruence.
Qed.

Lemma rid_sid_erase tr en r : rid_sid (erase en tr) r = rid_sid tr r.
Proof.
  unfold rid_sid.
  destruct (nth_error tr r) as [[| sid level timeout now | | |]|] eqn:E.
  2: { apply (nth_error_erase_listen tr en) in E. rewrite E. reflexivity. }
  all: destruct (nth_error (erase en tr) r) as [[| sid' level' timeout' now' | | |]|] eqn:E'; auto;
    apply nth_error_erase_listen in E'; congruence.
Qed.

Lemma outputs_of_erase tr en sid o : outputs_of (erase en tr) sid o = outputs_of tr sid o.
Proof. unfold outputs_of. apply filter_ext. intro a. unfold belongs. rewrite rid_sid_erase. reflexivity. Qed.

Lemma erase_snoc_tick : forall tr en now, erase en (tr ++ [Tick now]) = erase en tr ++ [Tick now].
Proof. induction tr as [|e r IH]; intros en now; [reflexivity|]. destruct e; cbn; rewrite IH; reflexivity. Qed.

Lemma erase_snoc_listen : forall tr en sid level timeout now,
  erase en (tr ++ [Listen sid level timeout now]) = erase en tr ++ [Listen sid level timeout now].
Proof. induction tr as [|e r IH]; intros; [reflexivity|]. destruct e; cbn; rewrite IH; reflexivity. Qed.
