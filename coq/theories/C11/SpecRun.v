(* C11 — specification oracle used by the generated case files.  Does not depend on Gen/C11Gen.v: the event table of a
   case file is the one introspected from the imported classes at run time. *)
From QT Require Export C11.Spec.
Open Scope Z_scope.

(* what the harness observed: (step, answered request, ids of the delivered events in the order returned) *)
Definition obs := (nat * nat * list nat)%type.

Definition obs_eqb (a b : obs) : bool :=
  let '(s1, r1, l1) := a in let '(s2, r2, l2) := b in
  Nat.eqb s1 s2 && Nat.eqb r1 r2 && list_eqb Nat.eqb l1 l2.

Definition obs_of (o : output) : obs := (o_step o, o_rid o, map e_id (o_evs o)).

Fixpoint sids_of (tr : list event) (seen : list Z) : list Z :=
  match tr with
  | [] => rev seen
  | Listen sid _ _ _ :: r => if existsb (Z.eqb sid) seen then sids_of r seen else sids_of r (sid :: seen)
  | _ :: r => sids_of r seen
  end.

(* level safety, directly on what the implementation returned *)
Definition obs_level_safe (table : list evclass) (tr : list event) (outs : list obs) : bool :=
  forallb (fun '(_, rid, ids) =>
    match rid_level tr rid with
    | Some l =>
        forallb (fun id => match nth_error tr id with
                           | Some (Trigger cls _) => ec_req (class_of table cls) <=? l
                           | _ => false
                           end) ids
    | None => false
    end) outs.

(* per session: the answers are exactly the specified ones (content, order, step) *)
Definition obs_delivery_ok (table : list evclass) (cap : nat) (tr : list event) (outs : list obs) : bool :=
  forallb (fun sid =>
    list_eqb obs_eqb (filter (fun '(_, rid, _) => belongs tr sid rid) outs)
                     (map obs_of (gspec_delivery table cap sid tr))) (sids_of tr []).

Definition spec_ok (table : list evclass) (cap : nat) (tr : list event) (outs : list obs) : bool :=
  obs_level_safe table tr outs && obs_delivery_ok table cap tr outs.

(* observed final state of a session: (sid, queue ids newest first, level, pending request, accessed, timeout) *)
Definition obs_sess := (Z * list nat * Z * option nat * Z * Z)%type.
Definition case := (nat * list event * list obs * list obs_sess)%type.

Definition bad_spec (table : list evclass) (cases : list case) : list nat :=
  mismatches (fun '(cap, tr, outs, _) => spec_ok table cap tr outs) cases 0.
(* finer: 1 = level safety contradicted, 2 = delivery (content / order / step) contradicted, 0 = fine *)
Definition spec_kinds (table : list evclass) (cases : list case) : list nat :=
  map (fun '(cap, tr, outs, _) =>
    if negb (obs_level_safe table tr outs) then 1%nat
    else if negb (obs_delivery_ok table cap tr outs) then 2%nat else 0%nat) cases.

(* constructors for the generated case files (numbers are written as Z literals there) *)
Definition ids (l : list Z) : list nat := map Z.to_nat l.
Definition O (step rid : Z) (l : list Z) : obs := (Z.to_nat step, Z.to_nat rid, ids l).
Definition S (k : Z) (q : list Z) (level : Z) (f : option Z) (a t : Z) : obs_sess :=
  (k, ids q, level, option_map Z.to_nat f, a, t).
Definition C (cap : Z) (tr : list event) (outs : list obs) (fin : list obs_sess) : case := (Z.to_nat cap, tr, outs, fin).
Definition T (cls obj : Z) : event := Trigger (Z.to_nat cls) obj.
Definition expected (table : list evclass) (c : case) : list (Z * list obs) :=
  let '(cap, tr, _, _) := c in map (fun sid => (sid, map obs_of (spec_delivery table cap sid tr))) (sids_of tr []).
