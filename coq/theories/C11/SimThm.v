(* C11 — for every session id the answers of the model (repaired reset_and_wait, SESSION_EXPIRY_FACTOR = 10) are the
   specified ones: simulation between the sessions dict with incremental queues and the per-session specification. *)
From QT Require Import C11.Model C11.Spec C11.ListenForm C11.QueueThm.
Open Scope Z_scope.

Lemma Forall_skipn {A} (P : A -> Prop) n l : Forall P l -> Forall P (skipn n l).
Proof. revert n; induction l; intros [|n] H; cbn; auto. inversion H; auto. Qed.

Lemma is_nil_rev {A} (l : list A) : match rev l with [] => true | _ => false end = match l with [] => true | _ => false end.
Proof. destruct l; cbn; auto. destruct (rev l); reflexivity. Qed.

Lemma NoDup_snoc {A} (l : list A) x : NoDup l -> ~ In x l -> NoDup (l ++ [x]).
Proof.
  induction 1; cbn; intro N; [constructor; auto; constructor|].
  constructor; [|apply IHNoDup; tauto]. rewrite in_app_iff. cbn. intros [?|[?|[]]]; [tauto | subst; tauto].
Qed.

Section Sim.
  Variable table : list evclass.
  Variable cap : nat.
  Hypothesis cap_pos : (1 <= cap)%nat.
  Hypothesis shapes_ok : forall c, ec_dup (class_of table c) = spec_shape (ec_type (class_of table c)).
  Variable sid : Z.

  Notation ds := (drop_superseded table).
  Notation perm l := (fun e => permitted table l e = true).

  (* global invariant: keys unique, waiting calls belong to their session *)
  Definition fut_ok (tr : list event) (x : Z * session) : Prop :=
    forall r, s_future (snd x) = Some r -> rid_sid tr r = Some (fst x).
  Definition G (tr : list event) (st : state) : Prop := NoDup (map fst st) /\ Forall (fut_ok tr) st.

  Definition R (os : option session) (osp : option sspec) : Prop :=
    match os, osp with
    | None, None => True
    | Some s, Some sp =>
        s_level s = sp_level sp /\ s_future s = sp_req sp /\ s_accessed s = sp_accessed sp /\
        s_timeout s = sp_timeout sp /\ s_queue s = rev (newest cap (ds (sp_window sp))) /\
        Forall (perm (sp_level sp)) (sp_window sp)
    | _, _ => False
    end.

  Lemma fut_ok_app tr x a : fut_ok tr a -> fut_ok (tr ++ x) a.
  Proof. intros H r Hr. apply rid_sid_app; auto. Qed.

  Lemma G_app tr x st : G tr st -> G (tr ++ x) st.
  Proof. intros [A B]; split; auto. eapply Forall_impl; [|exact B]. intro. apply fut_ok_app. Qed.

  Lemma content_all l w : Forall (perm l) w -> content table cap l w = newest cap (ds w).
  Proof.
    intro H. unfold content. apply filter_all_true. unfold newest. apply Forall_skipn.
    rewrite Forall_forall in *. intros x Hx. apply H. eapply ds_incl; eauto.
  Qed.

  (* ---------------------------------------------------------------- lookup facts *)
  Lemma lookup_none_notin k (st : state) : lookup k st = None -> ~ In k (map fst st).
  Proof.
    induction st as [|[k' s] r IH]; cbn; auto. destruct (k' =? k) eqn:E; [discriminate|].
    intros H [Hk|Hk]; [apply Z.eqb_neq in E; auto | apply IH; auto].
  Qed.

  Lemma lookup_notin_none k (st : state) : ~ In k (map fst st) -> lookup k st = None.
  Proof.
    induction st as [|[k' s] r IH]; cbn; auto. intros H. destruct (k' =? k) eqn:E.
    - apply Z.eqb_eq in E. tauto.
    - apply IH. tauto.
  Qed.

  Lemma lookup_replace_same k s (st : state) s0 : lookup k st = Some s0 -> lookup k (replace k s st) = Some s.
  Proof.
    induction st as [|[k' s'] r IH]; cbn; [discriminate|]. destruct (k' =? k) eqn:E; cbn; rewrite E; auto.
  Qed.

  Lemma lookup_replace_other k k' s (st : state) : k' <> k -> lookup k (replace k' s st) = lookup k st.
  Proof.
    intro N. induction st as [|[k0 s0] r IH]; cbn; auto. destruct (k0 =? k') eqn:E; cbn.
    - apply Z.eqb_eq in E. subst. destruct (k' =? k) eqn:E2; [apply Z.eqb_eq in E2; contradiction | reflexivity].
    - rewrite IH. reflexivity.
  Qed.

  Lemma lookup_app k (st : state) k' s :
    lookup k (st ++ [(k', s)]) = match lookup k st with Some x => Some x | None => if k' =? k then Some s else None end.
  Proof. induction st as [|[k0 s0] r IH]; cbn; auto. destruct (k0 =? k); auto. Qed.

  Lemma replace_keys k s (st : state) : map fst (replace k s st) = map fst st.
  Proof. induction st as [|[k0 s0] r IH]; cbn; auto. destruct (k0 =? k); cbn; congruence. Qed.

  Lemma lookup_In k (st : state) s : lookup k st = Some s -> In (k, s) st.
  Proof.
    induction st as [|[k0 s0] r IH]; cbn; [discriminate|]. destruct (k0 =? k) eqn:E; auto.
    intros [= <-]. apply Z.eqb_eq in E. subst. auto.
  Qed.

  Lemma replace_Forall (P : Z * session -> Prop) k s (st : state) :
    Forall P st -> P (k, s) -> Forall P (replace k s st).
  Proof.
    intros H Hs. induction H as [|[k0 s0] r]; cbn; auto. destruct (k0 =? k) eqn:E; constructor; auto.
    apply Z.eqb_eq in E. subst. auto.
  Qed.

  (* ---------------------------------------------------------------- Trigger *)
  Lemma lookup_trigger_all e (st : state) :
    lookup sid (trigger_all table cap e st) = option_map (sess_trigger table cap e) (lookup sid st).
  Proof. induction st as [|[k s] r IH]; cbn; auto. destruct (k =? sid); auto. Qed.

  Lemma sess_trigger_future e s : s_future (sess_trigger table cap e s) = s_future s.
  Proof. unfold sess_trigger. destruct (s_level s <? req_of table e); reflexivity. Qed.

  Lemma G_trigger tr e st : G tr st -> G tr (trigger_all table cap e st).
  Proof.
    intros [A B]. split.
    - unfold trigger_all. rewrite map_map. erewrite map_ext; [exact A|]. intros [k s]; reflexivity.
    - unfold trigger_all. rewrite Forall_map. eapply Forall_impl; [|exact B].
      intros [k s] H r. cbn. rewrite sess_trigger_future. apply H.
  Qed.

  Lemma R_trigger i cls obj os sp :
    R os sp ->
    R (option_map (sess_trigger table cap (mk_ev i cls obj)) os) (fst (spec_step table cap sid i sp (Trigger cls obj)))
    /\ snd (spec_step table cap sid i sp (Trigger cls obj)) = [].
  Proof.
    destruct os as [s|], sp as [p|]; cbn; try tauto.
    intros (H1 & H2 & H3 & H4 & H5 & H6).
    unfold sess_trigger. rewrite Z.ltb_antisym, H1.
    change (req_of table (mk_ev i cls obj) <=? sp_level p) with (permitted table (sp_level p) (mk_ev i cls obj)).
    destruct (permitted table (sp_level p) (mk_ev i cls obj)) eqn:P; cbn; split; auto.
    - repeat split; auto.
      + cbn. rewrite H5. apply push_closed_form; auto.
      + cbn. apply Forall_app; split; auto.
    - repeat split; auto.
  Qed.

  (* ---------------------------------------------------------------- Tick *)
  Lemma sess_tick_shape i now s os o :
    sess_tick 10 i now s = (os, o) ->
    (o = [] \/ exists r, s_future s = Some r /\ o = [mk_out i r (rev (s_queue s))]) /\
    (forall s', os = Some s' -> forall r, s_future s' = Some r -> s_future s = Some r).
  Proof.
    unfold sess_tick, respond. intro H.
    destruct (negb (is_empty s) && is_active s);
      [|destruct ((now - s_accessed s >? s_timeout s) && is_active s);
        [|destruct ((now - s_accessed s >? s_timeout s * 10) && negb (is_active s))]]; inversion H; subst; clear H.
    1,2: split; [destruct (s_future s) as [r|]; [right; eauto | left; auto] | intros s' [= <-] r; cbn; discriminate].
    - split; [left; auto | discriminate].
    - split; [left; auto | intros s' [= <-]; auto].
  Qed.

  Lemma tick_keys i now (st : state) k : In k (map fst (fst (tick_all 10 i now st))) -> In k (map fst st).
  Proof.
    induction st as [|[k0 s0] r IH]; cbn; auto.
    destruct (sess_tick 10 i now s0) as [os o1]. destruct (tick_all 10 i now r) as [r' o2]. cbn in *.
    destruct os; cbn; intuition.
  Qed.

  Lemma G_tick tr i now st : G tr st -> G tr (fst (tick_all 10 i now st)).
  Proof.
    intros [A B]. induction st as [|[k0 s0] r IH]; cbn; [split; constructor|].
    destruct (sess_tick 10 i now s0) as [os o1] eqn:T. destruct (tick_all 10 i now r) as [r' o2] eqn:Q. cbn in *.
    inversion A; subst. inversion B; subst. destruct (IH H2 H4) as [C D].
    destruct os as [s1|]; [|split; auto]. split; cbn.
    - constructor; auto. intro Hk. apply H1. pose proof (tick_keys i now r k0) as K. rewrite Q in K. auto.
    - constructor; auto. intros r0 Hr. apply H3. cbn in *. destruct (sess_tick_shape _ _ _ _ _ T) as [_ F]. eapply F; eauto.
  Qed.

  Lemma tick_other full i now (st : state) :
    ~ In sid (map fst st) -> Forall (fut_ok full) st ->
    outputs_of full sid (snd (tick_all 10 i now st)) = [] /\ lookup sid (fst (tick_all 10 i now st)) = None.
  Proof.
    induction st as [|[k0 s0] r IH]; cbn; [auto|]. intros N F.
    destruct (sess_tick 10 i now s0) as [os o1] eqn:T. destruct (tick_all 10 i now r) as [r' o2] eqn:Q. cbn in *.
    inversion F; subst. destruct IH as [I1 I2]; auto.
    assert (K : k0 =? sid = false) by (apply Z.eqb_neq; tauto).
    split.
    - unfold outputs_of in *. rewrite filter_app, I1, app_nil_r.
      destruct (sess_tick_shape _ _ _ _ _ T) as [[-> | [rf [Hf ->]]] _]; auto. cbn.
      unfold belongs. rewrite (H1 rf Hf). cbn. rewrite K. reflexivity.
    - destruct os; cbn; auto. rewrite K. auto.
  Qed.

  Lemma tick_proj full i now (st : state) :
    NoDup (map fst st) -> Forall (fut_ok full) st ->
    lookup sid (fst (tick_all 10 i now st)) =
      match lookup sid st with Some s => fst (sess_tick 10 i now s) | None => None end /\
    outputs_of full sid (snd (tick_all 10 i now st)) =
      match lookup sid st with Some s => snd (sess_tick 10 i now s) | None => [] end.
  Proof.
    induction st as [|[k0 s0] r IH]; cbn; [auto|]. intros N F.
    destruct (sess_tick 10 i now s0) as [os o1] eqn:T. destruct (tick_all 10 i now r) as [r' o2] eqn:Q. cbn in *.
    inversion N; subst. inversion F; subst.
    destruct (k0 =? sid) eqn:K.
    - apply Z.eqb_eq in K. subst k0. destruct (tick_other full i now r H1 H4) as [O1 O2]. rewrite Q in O1, O2. cbn in *.
      split.
      + rewrite T. destruct os; cbn; [rewrite Z.eqb_refl; auto | auto].
      + rewrite T. cbn [snd]. unfold outputs_of in *. rewrite filter_app, O1, app_nil_r.
        destruct (sess_tick_shape _ _ _ _ _ T) as [[-> | [rf [Hf ->]]] _]; auto. cbn.
        unfold belongs. rewrite (H3 rf Hf). cbn. rewrite Z.eqb_refl. reflexivity.
    - destruct (IH H2 H4) as [I1 I2]. split.
      + destruct os; cbn; [rewrite K|]; auto.
      + unfold outputs_of in *. rewrite filter_app, I2.
        destruct (sess_tick_shape _ _ _ _ _ T) as [[-> | [rf [Hf ->]]] _]; auto. cbn.
        unfold belongs. rewrite (H3 rf Hf). cbn. rewrite K. reflexivity.
  Qed.

  Lemma R_tick i now os sp :
    R os sp ->
    R (match os with Some s => fst (sess_tick 10 i now s) | None => None end) (fst (spec_step table cap sid i sp (Tick now)))
    /\ match os with Some s => snd (sess_tick 10 i now s) | None => [] end = snd (spec_step table cap sid i sp (Tick now)).
  Proof.
    destruct os as [s|], sp as [p|]; cbn [R spec_step fst snd]; try tauto.
    intros (H1 & H2 & H3 & H4 & H5 & H6).
    unfold sess_tick, respond, is_active, is_empty. rewrite H2, H3, H4, H5, is_nil_rev, rev_involutive.
    rewrite (content_all _ _ H6).
    destruct (sp_req p) as [r|] eqn:Q; cbn [negb andb].
    - rewrite !andb_true_r.
      destruct (newest cap (ds (sp_window p))) as [|x q] eqn:N; cbn [negb nonempty orb].
      + rewrite andb_false_r.
        destruct (now - sp_accessed p >? sp_timeout p); cbn; split; auto; repeat split; auto; try (rewrite N; auto); try congruence.
      + cbn. split; auto. repeat split; auto.
    - rewrite !andb_false_r, !andb_true_r. rewrite (Z.mul_comm (sp_timeout p) 10).
      destruct (now - sp_accessed p >? 10 * sp_timeout p); cbn; split; auto. repeat split; auto; try congruence.
  Qed.

  (* ---------------------------------------------------------------- Listen *)
  Definition sess_or_new (os : option session) : session := match os with Some s => s | None => new_session end.

  Lemma listen_form_shape i level timeout now s s' o :
    listen_form table i level timeout now s = (s', o) ->
    Forall (fun x => o_rid x = i \/ s_future s = Some (o_rid x)) o /\
    (forall r, s_future s' = Some r -> r = i).
  Proof.
    unfold listen_form. intro H.
    assert (A : Forall (fun x => o_rid x = i \/ s_future s = Some (o_rid x))
                  match s_future s with Some r => [mk_out i r (rev (s_queue s))] | None => [] end).
    { destruct (s_future s); constructor; cbn; auto. }
    destruct (match s_future s with Some _ => [] | None => filter (permitted table level) (s_queue s) end);
      inversion H; subst; clear H; split; auto.
    - intros r [= <-]; auto.
    - apply Forall_app; split; auto.
    - cbn. discriminate.
  Qed.

  Lemma R_listen i level timeout now os sp :
    R os sp ->
    let '(s', o) := listen_form table i level timeout now (sess_or_new os) in
    R (Some s') (fst (spec_step table cap sid i sp (Listen sid level timeout now))) /\
    o = snd (spec_step table cap sid i sp (Listen sid level timeout now)).
  Proof.
    unfold spec_step. rewrite Z.eqb_refl.
    destruct os as [s|], sp as [p|]; cbn [R sess_or_new]; try tauto.
    - intros (H1 & H2 & H3 & H4 & H5 & H6). unfold listen_form. rewrite H2, H5.
      destruct (sp_req p) as [r|].
      + rewrite rev_involutive, (content_all _ _ H6). cbn. repeat split; auto.
      + rewrite filter_rev. fold (content table cap level (sp_window p)).
        destruct (content table cap level (sp_window p)) as [|x q] eqn:C.
        * cbn. repeat split; auto.
        * assert (E : rev (x :: q) <> []) by (cbn; intro Z0; apply app_eq_nil in Z0; destruct Z0; discriminate).
          destruct (rev (x :: q)) as [|y q'] eqn:V; [congruence|]. rewrite <- V, rev_involutive.
          cbn. repeat split; auto.
    - intros _. cbn. repeat split; auto.
  Qed.

  Lemma outputs_of_all full o :
    Forall (fun x => belongs full sid (o_rid x) = true) o -> outputs_of full sid o = o.
  Proof. intro H. unfold outputs_of. apply filter_all_true. exact H. Qed.

  Lemma outputs_of_none full o :
    Forall (fun x => belongs full sid (o_rid x) = false) o -> outputs_of full sid o = [].
  Proof. unfold outputs_of. induction 1; cbn; auto. rewrite H. auto. Qed.

  (* ---------------------------------------------------------------- one step *)
  Lemma step_sim pre e suf st st' o sp :
    G pre st -> R (lookup sid st) sp ->
    step table reset_fixed 10 cap (List.length pre) st e = (st', o) ->
    G (pre ++ [e]) st' /\ R (lookup sid st') (fst (spec_step table cap sid (List.length pre) sp e)) /\
    outputs_of (pre ++ e :: suf) sid o = snd (spec_step table cap sid (List.length pre) sp e).
  Proof.
    intros HG HR E. set (i := List.length pre) in *.
    destruct e as [cls obj | sid' level timeout now | now | |].
    - (* Trigger *) cbn [step] in E. inversion E; subst; clear E.
      destruct (R_trigger i cls obj _ _ HR) as [A B].
      split; [apply G_app, G_trigger; auto|]. split; [rewrite lookup_trigger_all; exact A | rewrite B; reflexivity].
    - (* Listen *) cbn [step] in E. unfold listen in E.
      assert (Hhere : rid_sid (pre ++ Listen sid' level timeout now :: suf) i = Some sid') by apply rid_sid_here.
      assert (Hhere1 : rid_sid (pre ++ [Listen sid' level timeout now]) i = Some sid') by apply rid_sid_here.
      destruct HG as [HN HF].
      assert (Eq : exists s' o', listen_form table i level timeout now (sess_or_new (lookup sid' st)) = (s', o') /\ o = o' /\
                   st' = match lookup sid' st with Some _ => replace sid' s' st | None => st ++ [(sid', s')] end).
      { destruct (lookup sid' st) as [s0|] eqn:L; rewrite sess_listen_fixed in E; cbn [sess_or_new];
          destruct (listen_form table i level timeout now _) as [s' o'] eqn:F; inversion E; subst; eauto. }
      destruct Eq as (s' & o' & F & -> & ->). clear E.
      destruct (listen_form_shape _ _ _ _ _ _ _ F) as [Sh1 Sh2].
      assert (Hfut : fut_ok (pre ++ [Listen sid' level timeout now]) (sid', s')).
      { intros r Hr. cbn in *. rewrite (Sh2 r Hr). exact Hhere1. }
      assert (Hown : Forall (fun x => rid_sid (pre ++ Listen sid' level timeout now :: suf) (o_rid x) = Some sid') o').
      { eapply Forall_impl; [|exact Sh1]. intros x [-> | Hx]; auto.
        destruct (lookup sid' st) as [s0|] eqn:L; cbn in Hx; [|discriminate].
        apply rid_sid_app. apply lookup_In in L. rewrite Forall_forall in HF. apply (HF _ L). exact Hx. }
      assert (HG' : G (pre ++ [Listen sid' level timeout now])
                      match lookup sid' st with Some _ => replace sid' s' st | None => st ++ [(sid', s')] end).
      { destruct (lookup sid' st) as [s0|] eqn:L; split.
        - rewrite replace_keys; auto.
        - apply replace_Forall; auto. eapply Forall_impl; [|exact HF]. intro. apply fut_ok_app.
        - rewrite map_app. cbn. apply NoDup_snoc; auto. apply lookup_none_notin; auto.
        - apply Forall_app; split; [|constructor; auto]. eapply Forall_impl; [|exact HF]. intro. apply fut_ok_app. }
      split; [exact HG'|].
      destruct (Z.eq_dec sid' sid) as [->|Nq].
      + pose proof (R_listen i level timeout now _ _ HR) as RL. rewrite F in RL. destruct RL as [RL1 RL2]. split.
        * destruct (lookup sid st) as [s0|] eqn:L.
          -- erewrite lookup_replace_same; eauto.
          -- rewrite lookup_app, L, Z.eqb_refl. exact RL1.
        * rewrite <- RL2. apply outputs_of_all. eapply Forall_impl; [|exact Hown].
          intros x Hx. unfold belongs. rewrite Hx. apply Z.eqb_refl.
      + assert (K : sid' =? sid = false) by (apply Z.eqb_neq; auto). cbn [spec_step]. rewrite K. cbn [fst snd]. split.
        * destruct (lookup sid' st) as [s0|] eqn:L.
          -- rewrite lookup_replace_other; auto.
          -- rewrite lookup_app, K. destruct (lookup sid st); auto.
        * apply outputs_of_none. eapply Forall_impl; [|exact Hown].
          intros x Hx. unfold belongs. rewrite Hx. exact K.
    - (* Tick *) cbn [step] in E. destruct HG as [HN HF].
      assert (HF' : Forall (fut_ok (pre ++ Tick now :: suf)) st) by (eapply Forall_impl; [|exact HF]; intro; apply fut_ok_app).
      destruct (tick_proj (pre ++ Tick now :: suf) i now st HN HF') as [P1 P2]. rewrite E in P1, P2. cbn [fst snd] in P1, P2.
      destruct (R_tick i now _ _ HR) as [A B].
      split; [|split].
      + apply G_app. pose proof (G_tick pre i now st (conj HN HF)) as Gt. rewrite E in Gt. exact Gt.
      + rewrite P1. exact A.
      + rewrite P2. exact B.
    - cbn [step] in E. inversion E; subst. cbn. split; [apply G_app; auto | split; auto].
    - cbn [step] in E. inversion E; subst. cbn. split; [apply G_app; auto | split; auto].
  Qed.

  Lemma run_sim : forall suf pre st st' o sp,
    G pre st -> R (lookup sid st) sp ->
    run_from table reset_fixed 10 cap (List.length pre) st suf = (st', o) ->
    outputs_of (pre ++ suf) sid o = snd (spec_from table cap sid (List.length pre) sp suf).
  Proof.
    induction suf as [|e r IH]; intros pre st st' o sp HG HR E; cbn in E |- *.
    - inversion E; subst. reflexivity.
    - destruct (step table reset_fixed 10 cap (List.length pre) st e) as [st1 o1] eqn:S1.
      destruct (run_from table reset_fixed 10 cap (S (List.length pre)) st1 r) as [st2 o2] eqn:Q.
      inversion E; subst; clear E.
      destruct (step_sim pre e r st st1 o1 sp HG HR S1) as (G1 & R1 & O1).
      destruct (spec_step table cap sid (List.length pre) sp e) as [sp1 so1] eqn:SS. cbn [fst snd] in *.
      replace (S (List.length pre)) with (List.length (pre ++ [e])) in * by (rewrite app_length; cbn; lia).
      specialize (IH (pre ++ [e]) st1 _ o2 sp1 G1 R1 Q).
      destruct (spec_from table cap sid (List.length (pre ++ [e])) sp1 r) as [sp2 so2] eqn:SF. cbn [snd] in *.
      unfold outputs_of in *. rewrite filter_app. rewrite O1. f_equal.
      rewrite <- app_assoc in IH. exact IH.
  Qed.

  Theorem exactly_once_fixed : forall tr,
    outputs_of tr sid (snd (run table reset_fixed 10 cap tr)) = spec_delivery table cap sid tr.
  Proof.
    intros tr. unfold run, spec_delivery.
    destruct (run_from table reset_fixed 10 cap 0 [] tr) as [st' o] eqn:E.
    apply (run_sim tr [] [] st' o None); auto.
    - split; constructor.
    - exact I.
  Qed.
End Sim.
