(* C11 — promptness on the model: right after a Tick no listen call is left waiting although an event is queued for it or
   its timeout has passed; right after a Listen the call is either answered or nothing deliverable is queued. *)
From QT Require Import C11.Model C11.ListenForm.
Open Scope Z_scope.

Definition settled (now : Z) (s : session) : Prop :=
  forall r, s_future s = Some r -> s_queue s = [] /\ now - s_accessed s <= s_timeout s.

Section Prompt.
  Variable table : list evclass.
  Variable prog : list rstmt.
  Variable factor : Z.
  Variable cap : nat.

  Lemma run_from_app : forall a b i st,
    run_from table prog factor cap i st (a ++ b) =
      let '(st1, o1) := run_from table prog factor cap i st a in
      let '(st2, o2) := run_from table prog factor cap (i + List.length a) st1 b in
      (st2, o1 ++ o2).
  Proof.
    induction a as [|e a IH]; intros b i st; cbn.
    - rewrite Nat.add_0_r. destruct (run_from table prog factor cap i st b); reflexivity.
    - destruct (step table prog factor cap i st e) as [st1 o1]. rewrite IH.
      destruct (run_from table prog factor cap (S i) st1 a) as [st2 o2].
      replace (i + S (List.length a))%nat with (S i + List.length a)%nat by lia.
      destruct (run_from table prog factor cap (S i + List.length a) st2 b) as [st3 o3].
      rewrite app_assoc. reflexivity.
  Qed.

  Lemma sess_tick_settled i now s s' o : sess_tick factor i now s = (Some s', o) -> settled now s'.
  Proof.
    unfold sess_tick, respond, settled. intro H.
    destruct (negb (is_empty s) && is_active s) eqn:C1; [inversion H; subst; cbn; discriminate|].
    destruct ((now - s_accessed s >? s_timeout s) && is_active s) eqn:C2; [inversion H; subst; cbn; discriminate|].
    destruct ((now - s_accessed s >? s_timeout s * factor) && negb (is_active s)); inversion H; subst.
    intros r Hr. unfold is_active, is_empty in *. rewrite Hr in *. rewrite andb_true_r in C1, C2. split.
    - destruct (s_queue s'); [reflexivity | discriminate].
    - rewrite Z.gtb_ltb in C2. apply Z.ltb_ge in C2. exact C2.
  Qed.

  Lemma tick_all_settled i now st st' o :
    tick_all factor i now st = (st', o) -> Forall (fun x => settled now (snd x)) st'.
  Proof.
    revert st' o. induction st as [|[k s] r IH]; cbn; intros st' o H.
    - inversion H; subst. constructor.
    - destruct (sess_tick factor i now s) as [os o1] eqn:T. destruct (tick_all factor i now r) as [r' o2].
      inversion H; subst. specialize (IH _ _ eq_refl). destruct os; auto. constructor; auto.
      cbn. eapply sess_tick_settled; eauto.
  Qed.

  Theorem prompt_after_tick : forall tr now st o,
    run table prog factor cap (tr ++ [Tick now]) = (st, o) -> Forall (fun x => settled now (snd x)) st.
  Proof.
    intros tr now st o H. unfold run in H. rewrite run_from_app in H.
    destruct (run_from table prog factor cap 0 [] tr) as [st1 o1]. cbn in H.
    destruct (tick_all factor (List.length tr) now st1) as [st2 o2] eqn:T. inversion H; subst.
    eapply tick_all_settled; eauto.
  Qed.
End Prompt.

Section PromptListen.
  Variable table : list evclass.
  Variable factor : Z.
  Variable cap : nat.

  Lemma lookup_replace_eq k s (st : state) s0 : lookup k st = Some s0 -> lookup k (replace k s st) = Some s.
  Proof.
    induction st as [|[k' s'] r IH]; cbn; [discriminate|]. destruct (k' =? k) eqn:E; cbn; rewrite E; auto.
  Qed.

  Lemma lookup_snoc k (st : state) s : lookup k st = None -> lookup k (st ++ [(k, s)]) = Some s.
  Proof.
    induction st as [|[k' s'] r IH]; cbn; [rewrite Z.eqb_refl; auto|]. destruct (k' =? k); [discriminate | auto].
  Qed.

  (* with the repaired reset_and_wait: after Listen the session's queue is empty, whether or not the call was answered *)
  Theorem prompt_after_listen : forall tr sid level timeout now st o,
    run table reset_fixed factor cap (tr ++ [Listen sid level timeout now]) = (st, o) ->
    exists s, lookup sid st = Some s /\ s_queue s = [] /\ s_level s = level.
  Proof.
    intros tr sid level timeout now st o H. unfold run in H. rewrite run_from_app in H.
    destruct (run_from table reset_fixed factor cap 0 [] tr) as [st1 o1]. cbn in H. unfold listen in H.
    destruct (lookup sid st1) as [s0|] eqn:L; rewrite sess_listen_fixed in H;
      destruct (listen_form table (List.length tr) level timeout now _) as [s' o'] eqn:F; inversion H; subst;
      exists s'; (split; [first [eapply lookup_replace_eq; eauto | apply lookup_snoc; auto]|]);
      unfold listen_form in F;
      destruct (match s_future _ with Some _ => [] | None => filter (permitted table level) _ end);
      inversion F; subst; cbn; auto.
  Qed.
End PromptListen.
