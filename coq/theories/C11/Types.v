(* C11 — types shared by the generated table (Gen/C11Gen.v), the model and the specification.  Definitions only. *)
From QT Require Export Base.Prelude.
Open Scope Z_scope.

(* shape of Event.is_duplicate, as read by harness/translate/eventtable.py *)
Inductive dup_shape := DupNever | DupSameClass | DupSameClassObj.

Definition dup_shape_eqb (a b : dup_shape) : bool :=
  match a, b with
  | DupNever, DupNever | DupSameClass, DupSameClass | DupSameClassObj, DupSameClassObj => true
  | _, _ => false
  end.

(* one concrete Event subclass: TYPE, REQUIRED_ACCESS, is_duplicate shape *)
Record evclass := mk_evclass { ec_type : string; ec_req : Z; ec_dup : dup_shape }.

Definition no_class : evclass := mk_evclass "" 0 DupNever.
Definition class_of (table : list evclass) (c : nat) : evclass := nth c table no_class.

(* statements of Session.reset_and_wait (see RESET_SHAPES in the translator) *)
Inductive rstmt :=
| RIfFutureRespond   (* if self.future: self.respond() *)
| RNewFuture         (* future = asyncio.get_running_loop().create_future() *)
| RSetAccessed       (* self.accessed = time.time() *)
| RSetTimeout        (* self.timeout = timeout *)
| RSetLevel          (* self.access_level = access_level *)
| RSetFuture         (* self.future = future *)
| RFilterQueue       (* self.queue = [e for e in self.queue if e.REQUIRED_ACCESS <= access_level] *)
| RIfQueueRespond.   (* if self.queue: self.respond() *)

(* a triggered event object: its position in the trace (identity), its class (index in the table) and the object (port /
   slave) it is about; obj is ignored for classes that are not about an object *)
Record ev := mk_ev { e_id : nat; e_cls : nat; e_obj : Z }.

Definition ev_eqb (a b : ev) : bool :=
  Nat.eqb (e_id a) (e_id b) && Nat.eqb (e_cls a) (e_cls b) && (e_obj a =? e_obj b).

(* the inputs of the transition system *)
Inductive event :=
| Trigger (cls : nat) (obj : Z)               (* core.events.trigger(Cls(obj)) *)
| Listen (sid level timeout now : Z)          (* sessions.get(sid).reset_and_wait(timeout, level) with time.time() = now *)
| Tick (now : Z)                              (* sessions.update() with time.time() = now *)
| Disable                                     (* core.events.disable(): trigger() returns at once until enable() *)
| Enable.                                     (* core.events.enable() *)

(* the history as the handlers see it: a Trigger while event handling is disabled reaches nobody.  The suppressed Trigger
   is replaced (positions are identities, so nothing is removed) by Disable, which changes nothing while disabled. *)
Fixpoint erase (en : bool) (tr : list event) : list event :=
  match tr with
  | [] => []
  | Disable :: r => Disable :: erase false r
  | Enable :: r => Enable :: erase true r
  | Trigger cls obj :: r => (if en then Trigger cls obj else Disable) :: erase en r
  | e :: r => e :: erase en r
  end.
Fixpoint enabled_after (en : bool) (tr : list event) : bool :=
  match tr with
  | [] => en
  | Disable :: r => enabled_after false r
  | Enable :: r => enabled_after true r
  | _ :: r => enabled_after en r
  end.

(* a listen call (identified by the position of its Listen in the trace) is answered at step o_step with these events,
   oldest first *)
Record output := mk_out { o_step : nat; o_rid : nat; o_evs : list ev }.

Definition output_eqb (a b : output) : bool :=
  Nat.eqb (o_step a) (o_step b) && Nat.eqb (o_rid a) (o_rid b) && list_eqb ev_eqb (o_evs a) (o_evs b).

Definition req_of (table : list evclass) (e : ev) : Z := ec_req (class_of table (e_cls e)).
Definition permitted (table : list evclass) (level : Z) (e : ev) : bool := req_of table e <=? level.

(* which session a request belongs to, and its level: read off the trace *)
Definition rid_sid (tr : list event) (rid : nat) : option Z :=
  match nth_error tr rid with Some (Listen sid _ _ _) => Some sid | _ => None end.
Definition rid_level (tr : list event) (rid : nat) : option Z :=
  match nth_error tr rid with Some (Listen _ level _ _) => Some level | _ => None end.
