(* C07 — a well-formed port comes back unchanged; its persisted value is written to the driver exactly once. *)
From QT Require Import C07.SaveLoad C07.SaveLoadThm.
Open Scope string_scope.
Open Scope list_scope.

Lemma lookup_some_iff {A} : forall n (l : list (string * A)), In n (map fst l) <-> lookup n l <> None.
Proof.
  induction l as [| [k v] r IH]; simpl; [split; [intros [] | congruence] |].
  destruct (k =? n) eqn:E.
  - apply String.eqb_eq in E. split; [congruence | auto].
  - apply String.eqb_neq in E. rewrite <- IH. split; [intros [H | H]; [contradiction | exact H] | auto].
Qed.

Lemma lookup_cons {A} : forall n k (v : A) l, lookup n ((k, v) :: l) = if k =? n then Some v else lookup n l.
Proof. reflexivity. Qed.

Section RoundTrip.
  Variable canon : string -> option string.
  Variable eval_tw : bool -> bool -> string -> jv -> jv.
  Notation load_from_data := (load_from_data canon eval_tw).

  Lemma lookup_attr_items : forall p n, NoDup (map ad_name (p_defs p)) ->
    lookup n (attr_items p)
    = match find_def p n with Some d => if ad_modifiable d then get_attr p n else None | None => None end.
  Proof.
    intros p n. unfold attr_items, find_def. induction (p_defs p) as [| d r IH]; simpl; intros N; [reflexivity |].
    inversion N; subst.
    assert (forall m, ad_name d = m -> find (fun d0 => ad_name d0 =? m) r = None) as NF.
    { intros m <-. destruct (find (fun d0 => ad_name d0 =? ad_name d) r) eqn:F; [| reflexivity].
      apply find_some in F. destruct F as [F1 F2]. apply String.eqb_eq in F2. exfalso. apply H1. rewrite <- F2. apply in_map. exact F1. }
    destruct (ad_name d =? n) eqn:E.
    - apply String.eqb_eq in E. specialize (NF n E). subst n. destruct (ad_modifiable d).
      + destruct (get_attr p (ad_name d)) eqn:G; simpl.
        * rewrite String.eqb_refl. reflexivity.
        * rewrite IH, NF by assumption. reflexivity.
      + simpl. rewrite IH, NF by assumption. reflexivity.
    - destruct (ad_modifiable d); [| simpl; apply IH; assumption].
      destruct (get_attr p (ad_name d)); simpl; [rewrite E |]; apply IH; assumption.
  Qed.

  Lemma attr_items_keys : forall p n, In n (map fst (attr_items p)) -> In n (map ad_name (p_defs p)).
  Proof.
    intros p n. unfold attr_items. induction (p_defs p) as [| d r IH]; simpl; [auto |].
    rewrite map_app, in_app_iff. intros [H | H]; [| auto].
    destruct (ad_modifiable d); [| contradiction]. destruct (get_attr p (ad_name d)); [| contradiction].
    simpl in H. destruct H as [H | []]. auto.
  Qed.

  Lemma attr_items_mod : forall p n, In n (map fst (attr_items p)) ->
    exists d, In d (p_defs p) /\ ad_modifiable d = true /\ ad_name d = n.
  Proof.
    intros p n. unfold attr_items. induction (p_defs p) as [| d r IH]; simpl; [intros [] |].
    rewrite map_app, in_app_iff. intros [H | H].
    - destruct (ad_modifiable d) eqn:M; [| contradiction]. destruct (get_attr p (ad_name d)); [| contradiction].
      simpl in H. destruct H as [H | []]. exists d. auto.
    - destruct (IH H) as (e & A & B & C). exists e. auto.
  Qed.

  Lemma attr_items_nodup : forall p, NoDup (map ad_name (p_defs p)) -> NoDup (map fst (attr_items p)).
  Proof.
    intros p. pose proof (attr_items_keys p) as K. revert K. unfold attr_items.
    induction (p_defs p) as [| d r IH]; simpl; intros K N; [constructor |]. inversion N; subst.
    assert (NoDup (map fst (flat_map (fun d0 : attrdef => if ad_modifiable d0
              then match get_attr p (ad_name d0) with Some v => [(ad_name d0, v)] | None => [] end else []) r))) as R.
    { apply IH; [| assumption]. clear. intros n. induction r as [| e r IH]; simpl; [auto |].
      rewrite map_app, in_app_iff. intros [H | H]; [| auto].
      destruct (ad_modifiable e); [| contradiction]. destruct (get_attr p (ad_name e)); [| contradiction].
      simpl in H. destruct H as [H | []]. auto. }
    rewrite map_app. destruct (ad_modifiable d); [| exact R]. destruct (get_attr p (ad_name d)); [| exact R].
    simpl. constructor; [| exact R]. intros H. apply H1.
    clear - H. induction r as [| e r IH]; simpl in *; [auto |]. rewrite map_app, in_app_iff in H. destruct H as [H | H]; [| auto].
    destruct (ad_modifiable e); [| contradiction]. destruct (get_attr p (ad_name e)); [| contradiction].
    simpl in H. destruct H as [H | []]. auto.
  Qed.

  Section OnePort.
    Variable p : port.
    Hypothesis WF : wf_port canon p.

    Let data := prepare_for_save p.

    Lemma def_name_ok : forall d, In d (p_defs p) -> ad_modifiable d = true ->
      ad_name d <> "id" /\ ad_name d <> "history_last_timestamp" /\ ad_name d <> "value".
    Proof.
      intros d H M. destruct (wf_defs_not_reserved canon p WF d H M) as [R Hl]. unfold reserved in R.
      apply Bool.orb_false_iff in R. destruct R as [R R3]. apply Bool.orb_false_iff in R. destruct R as [R1 R2].
      apply String.eqb_neq in R1, R2. auto.
    Qed.

    Lemma data_nodup : NoDup (map fst data).
    Proof.
      unfold data, prepare_for_save. simpl.
      assert (forall n, In n (map fst (attr_items p)) -> n <> "id" /\ n <> "history_last_timestamp" /\ n <> "value") as K.
      { intros n H. destruct (attr_items_mod p n H) as (d & A & B & <-). apply def_name_ok; assumption. }
      constructor; [| constructor; [| constructor; [| apply attr_items_nodup, (wf_defs_nodup canon p WF)]]]; simpl.
      - intros [H | [H | H]]; try discriminate. apply K in H. tauto.
      - intros [H | H]; try discriminate. apply K in H. tauto.
      - intros H. apply K in H. tauto.
    Qed.

    Lemma data_lookup_attr : forall d, In d (p_defs p) -> ad_modifiable d = true ->
      lookup (ad_name d) data = lookup (ad_name d) (attr_items p).
    Proof.
      intros d H M. destruct (def_name_ok d H M) as (A & B & C). unfold data, prepare_for_save.
      assert (("id" =? ad_name d) = false) as E1 by (apply String.eqb_neq; congruence).
      assert (("history_last_timestamp" =? ad_name d) = false) as E2 by (apply String.eqb_neq; congruence).
      assert (("value" =? ad_name d) = false) as E3 by (apply String.eqb_neq; congruence).
      rewrite !lookup_cons, E1, E2, E3. reflexivity.
    Qed.

    Lemma loadable_def : forall n, restorable p n = true ->
      loadable p n = true /\ exists d, find_def p n = Some d /\ ad_modifiable d = true /\ In d (p_defs p) /\ ad_name d = n.
    Proof.
      intros n H. unfold restorable in H. apply Bool.andb_true_iff in H. destruct H as [L H]. split; [exact L |].
      destruct (find_def p n) as [d |] eqn:F; [| discriminate]. exists d. unfold find_def in F. apply find_some in F.
      destruct F as [F1 F2]. apply String.eqb_eq in F2. auto.
    Qed.

    (* every attribute that is handed to a setter comes back *)
    Lemma attr_back : forall n, restorable p n = true -> attrs_after canon (fresh p) data n = get_attr p n.
    Proof.
      intros n RS. destruct (loadable_def n RS) as (L & d & F & M & I & EN).
      unfold attrs_after. rewrite <- EN at 1. rewrite (data_lookup_attr d I M), EN, (lookup_attr_items p n (wf_defs_nodup canon p WF)), F, M.
      assert (loadable (fresh p) n = true) as L0 by exact L.
      destruct (get_attr p n) as [v |] eqn:G.
      - pose proof (lookup_in n v _ G) as Hin. fold (get_attr p n) in G.
        assert (kept (n, v) = true) as K.
        { unfold kept. simpl. rewrite (wf_not_null canon p WF n v Hin). rewrite Bool.andb_false_r. reflexivity. }
        rewrite K, L0. unfold stepv.
        assert (get_attr (fresh p) n <> None) as S0.
        { unfold get_attr, fresh. simpl. apply lookup_some_iff. rewrite <- (wf_skeleton canon p WF).
          apply lookup_some_iff. unfold get_attr in G. congruence. }
        destruct (get_attr (fresh p) n) as [o |]; [| congruence].
        unfold new_value. destruct (is_expr_attr n) eqn:X; [| reflexivity].
        destruct (wf_texts canon p WF n v Hin X) as (s & -> & [-> | C]); [reflexivity |].
        destruct (s =? "") eqn:E; [apply String.eqb_eq in E; subst; reflexivity | rewrite C; reflexivity].
      - unfold get_attr, fresh. simpl. destruct (lookup n (p_init p)) eqn:Q; [| reflexivity].
        exfalso. assert (In n (map fst (p_init p))) as H by (apply lookup_some_iff; congruence).
        rewrite <- (wf_skeleton canon p WF) in H. apply lookup_some_iff in H. unfold get_attr in G. congruence.
    Qed.

    Lemma value_entry : lookup "value" data = Some (if persisted p then p_value p else JNull).
    Proof. reflexivity. Qed.

    Lemma pers_back : spec_pers canon (fresh p) data = persisted p.
    Proof. unfold spec_pers, persisted. rewrite (attr_back "persisted" (wf_persisted_loadable canon p WF)). reflexivity. Qed.

    Lemma restores_back : spec_restores canon (fresh p) data = if persisted p && negb (is_null (p_value p)) then Some (p_value p) else None.
    Proof.
      unfold spec_restores. rewrite value_entry, pers_back. destruct (persisted p); simpl; [| reflexivity].
      destruct (is_null (p_value p)); reflexivity.
    Qed.

    Theorem port_roundtrip : view (fst (load_from_data (fresh p) data)) = view p.
    Proof.
      destruct (load_char canon eval_tw (fresh p) data data_nodup) as (A & V & H & _).
      set (q := fst (load_from_data (fresh p) data)) in *.
      assert (p_defs q = p_defs p /\ p_init q = p_init p) as [KD KI].
      { unfold q, SaveLoad.load_from_data.
        destruct (fold_kind canon (ordered data) (fresh p)) as (_ & D & I & _).
        destruct (lookup "value" data) as [v |]; [destruct (persisted _ && negb (is_null v)) |]; simpl; split; assumption. }
      assert (forall n, restorable q n = restorable p n) as LQ by (intros n; unfold restorable, loadable, find_def; rewrite KD; reflexivity).
      unfold view. f_equal; [f_equal |].
      - unfold loadable_names. rewrite KI. rewrite (filter_ext _ _ LQ).
        apply map_ext_in. intros n Hn. apply filter_In in Hn. destruct Hn as [_ Hn]. rewrite A, (attr_back n Hn). reflexivity.
      - assert (persisted q = persisted p) as ->.
        { unfold persisted. rewrite A, (attr_back "persisted" (wf_persisted_loadable canon p WF)). reflexivity. }
        rewrite V. unfold spec_value. rewrite restores_back. destruct (persisted p); simpl; [| reflexivity].
        destruct (p_value p); reflexivity.
      - rewrite H. reflexivity.
    Qed.

    Theorem persisted_value_written_once : forall v,
      persisted p = true -> p_value p = v -> is_null v = false -> p_writable p = true ->
      restorable p "transform_write" = true -> restorable p "enabled" = true ->
      snd (load_from_data (fresh p) data) = [through_tw eval_tw (p_boolean p) (p_integer p) (tw_text p) (enabled_attr p) v].
    Proof.
      intros v P E N W T EN. destruct (load_char canon eval_tw (fresh p) data data_nodup) as (_ & _ & _ & Wr).
      rewrite Wr. unfold spec_writes. rewrite restores_back, P, E, N. simpl. rewrite W.
      unfold spec_tw, tw_text, spec_en, enabled_attr. rewrite (attr_back "transform_write" T), (attr_back "enabled" EN). reflexivity.
    Qed.

    Theorem nothing_written_otherwise :
      persisted p = false \/ is_null (p_value p) = true \/ p_writable p = false -> snd (load_from_data (fresh p) data) = [].
    Proof.
      intros C. destruct (load_char canon eval_tw (fresh p) data data_nodup) as (_ & _ & _ & Wr).
      rewrite Wr. unfold spec_writes. rewrite restores_back. destruct C as [C | [C | C]].
      - rewrite C. reflexivity.
      - rewrite C, Bool.andb_false_r. reflexivity.
      - destruct (persisted p && negb (is_null (p_value p))); [| reflexivity]. simpl. rewrite C. reflexivity.
    Qed.
  End OnePort.
End RoundTrip.
