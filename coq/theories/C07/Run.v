(* C07 — dispatch used by the generated case files.
   [canon] is instantiated with the C03 parser/printer over the regenerated function table, [eval_tw] with an evaluator for
   the write transforms the generator uses (MUL / ADD of the port's own value and an integer literal) followed by the port's
   type coercion (adapt_value_type).  [bad_model] = items where the model stores / restores something else than the real
   code did; [bad_spec] = items where the real code's state after the restart is not the state before it. *)
From QT Require Export C07.SaveLoad C07.Spec.
From QT Require Import C03.Parser Gen.FuncTable.
Open Scope string_scope.
Open Scope list_scope.

Definition canon_run (s : string) : option string :=
  match parse func_table true (list_ascii_of_string s) with
  | POK e => Some (string_of_list_ascii (print e))
  | PErrR _ => None
  end.

(* value in quarters *)
Definition quarters (v : jv) : option Z :=
  match v with JBool b => Some (if b then 4 else 0)%Z | JInt z => Some (4 * z)%Z | JQ q => Some q | _ => None end.
Definition coerce (boolean integer : bool) (q : Z) : jv :=
  if boolean then JBool (negb (q =? 0)%Z) else if integer then JInt (Z.quot q 4) else JQ q.
Definition lit_int (e : pexpr) : option Z := match e with PLit _ (Some (VInt k)) => Some k | _ => None end.
Definition s_mul := list_ascii_of_string "MUL".
Definition s_add := list_ascii_of_string "ADD".
Definition tw_unknown : jv := JStr "<transform outside the evaluator>".

Definition eval_tw_run (boolean integer : bool) (text : string) (v : jv) : jv :=
  if text =? "" then v else
  match parse func_table true (list_ascii_of_string text), quarters v with
  | POK (PCall f [PSelfVal; k]), Some q =>
      match lit_int k with
      | Some z => if str_eqb f s_mul then coerce boolean integer (q * z)
                  else if str_eqb f s_add then coerce boolean integer (q + 4 * z) else tw_unknown
      | None => tw_unknown
      end
  | _, _ => tw_unknown
  end.

(* ---------------------------------------------------------------- equality *)
Fixpoint jv_eqb (a b : jv) {struct a} : bool :=
  match a, b with
  | JNull, JNull => true
  | JBool x, JBool y => Bool.eqb x y
  | JInt x, JInt y | JQ x, JQ y => (x =? y)%Z
  | JStr x, JStr y => x =? y
  | JList x, JList y =>
      (fix go (l m : list jv) : bool :=
         match l, m with [], [] => true | p :: l', q :: m' => jv_eqb p q && go l' m' | _, _ => false end) x y
  | JObj x, JObj y =>
      (fix go (l m : list (string * jv)) : bool :=
         match l, m with
         | [], [] => true
         | (k, p) :: l', (k', q) :: m' => (k =? k') && jv_eqb p q && go l' m'
         | _, _ => false
         end) x y
  | _, _ => false
  end.

Definition canon_attr (kv : string * jv) : string * jv :=
  if is_expr_attr (fst kv) then
    match snd kv with
    | JStr s => (fst kv, if s =? "" then JStr "" else match canon_run s with Some t => JStr t | None => JStr s end)
    | _ => kv
    end
  else kv.
Definition sub_rec (a b : record) : bool :=
  forallb (fun kv => match lookup (fst kv) b with Some v => jv_eqb (snd (canon_attr kv)) (snd (canon_attr (fst kv, v))) | None => false end) a.
Definition same_rec (a b : record) : bool := sub_rec a b && sub_rec b a.

(* ---------------------------------------------------------------- items *)
Inductive tcase :=
| PC (id : string) (defs : list attrdef) (init cur : record) (last : jv) (hlt : Z) (writable boolean integer : bool)
     (rec_ : record) (aft : record) (aft_last : jv) (aft_hlt : Z) (writes : list jv)
| DC (name display : string) (hashes : list string) (rec_ : record) (name' display' : string) (hashes' : list string)
| SC (before rec_ after : record) (doc doc' : record)       (* states (clear attrs), record, what GET /devices shows *)
| HC (ops : list op) (static ports slaves ports' slaves' : list string)
| LC (name : string) (stored before after : list string)
| GC (name : string) (stored : list string).     (* permanently offline slave: slave_ports ids, remote ids before / after; GC: a deleted slave *)

Definition mk_port id defs init cur last hlt w b i : port :=
  {| p_id := id; p_defs := defs; p_init := init; p_attrs := map canon_attr cur; p_value := last; p_hlt := hlt;
     p_writable := w; p_boolean := b; p_integer := i |}.

Definition writes_agree (model observed : list jv) : bool :=
  match model with
  | [w] => if jv_eqb w tw_unknown then Nat.eqb (List.length observed) 1 else list_eqb jv_eqb model observed
  | _ => list_eqb jv_eqb model observed
  end.

Definition nth_hash (l : list string) (i : nat) : option string := nth_error l i.
Definition empty_hash_run := "e3b0c44298fc1c149afbf4c8996fb92427ae41e4649b934ca495991b7852b855".
Definition mk_device n d (h : list string) : device :=
  {| d_name := n; d_display_name := d; d_admin := nth_hash h 0; d_normal := nth_hash h 1; d_viewonly := nth_hash h 2 |}.
Definition opt_str_eqb (a b : option string) : bool := option_eqb String.eqb a b.
Definition device_eqb (a b : device) : bool :=
  (d_name a =? d_name b) && (d_display_name a =? d_display_name b) && opt_str_eqb (d_admin a) (d_admin b)
  && opt_str_eqb (d_normal a) (d_normal b) && opt_str_eqb (d_viewonly a) (d_viewonly b).

Definition slave_record (s : slave) : record := slave_save s.
Definition sorted_strs (l : list string) : list string := map fst (sort_by_key (map (fun s => (s, tt)) l)).
Definition str_list_eqb (a b : list string) : bool := list_eqb String.eqb (sorted_strs a) (sorted_strs b).
(* slave entries are compared as records with the provisioning set sorted *)
Definition norm_slave_rec (r : record) : record :=
  map (fun kv => if fst kv =? "provisioning_attrs"
                 then (fst kv, JList (map JStr (sorted_strs (str_items (Some (snd kv))))))
                 else if (fst kv =? "name") then ("id", snd kv) else kv) r.

Definition ok_model (c : tcase) : bool :=
  match c with
  | PC id defs init cur last hlt w b i rec_ aft aft_last aft_hlt writes =>
      let p := mk_port id defs init cur last hlt w b i in
      let '(p', ws) := load_from_data canon_run eval_tw_run (fresh p) rec_ in
      same_rec (prepare_for_save p) rec_
      && same_rec (p_attrs p') aft && jv_eqb (p_value p') aft_last && (p_hlt p' =? aft_hlt)%Z && writes_agree ws writes
  | DC n d h rec_ n' d' h' =>
      match rec_ with
      | [] => device_eqb (mk_device n d h) (mk_device n' d' h')         (* never saved: module defaults both times *)
      | _ => same_rec (device_save (mk_device n d h)) rec_
             && device_eqb (device_load empty_hash_run (mk_device "" "" []) rec_) (mk_device n' d' h')
      end
  | SC before rec_ after doc doc' =>
      match slave_load (norm_slave_rec before), slave_load rec_ with
      | Some s, Some s' =>
          same_rec (norm_slave_rec (slave_save s)) (norm_slave_rec rec_)
          && same_rec (norm_slave_rec (slave_save s')) (norm_slave_rec after)
          && option_eqb jv_eqb (lookup "attrs" (slave_doc s)) (lookup "attrs" doc)
          && option_eqb jv_eqb (lookup "attrs" (slave_doc s')) (lookup "attrs" doc')
      | _, _ => false
      end
  | HC ops static ports slaves ports' slaves' =>
      let h := run static ops in
      str_list_eqb (h_live h) ports && str_list_eqb (h_slaves h) slaves
      && str_list_eqb (h_live (restart h)) ports' && str_list_eqb (h_slaves (restart h)) slaves'
      && str_list_eqb (st_vports h) (h_vports h) && str_list_eqb (st_slaves h) (h_slaves h)
  | LC name stored _ after => str_list_eqb (load_ports name stored) after
  | GC _ _ => true
  end.

Definition ok_spec (c : tcase) : bool :=
  match c with
  | PC id defs init cur last hlt w b i rec_ aft aft_last aft_hlt writes =>
      port_survives eval_tw_run jv_eqb (mk_port id defs init cur last hlt w b i)
                    (mk_port id defs init aft aft_last aft_hlt w b i) writes tw_unknown
  | DC n d h _ n' d' h' => device_eqb (mk_device n d h) (mk_device n' d' h')
  | SC _ _ _ doc doc' => same_rec (norm_slave_rec doc) (norm_slave_rec doc')
  | HC ops static ports slaves ports' slaves' => str_list_eqb ports ports' && str_list_eqb slaves slaves'
  | LC _ _ before after => str_list_eqb before after
  | GC name stored => match load_ports name stored with [] => true | _ => false end      (* a deleted slave: no record would be reloaded *)
  end.

Definition bad_model (cases : list tcase) : list nat := mismatches ok_model cases 0.
Definition bad_spec (cases : list tcase) : list nat := mismatches ok_spec cases 0.
