(* C07 — persisted slave ports go back to their slave: prefix rule, remote ids with dots, dot-free slave names. *)
From QT Require Import C07.SaveLoad.
Open Scope list_scope.
Open Scope string_scope.

Lemma starts_with_app : forall p s, starts_with p (p ++ s) = true.
Proof. induction p as [| a p IH]; intros s; simpl; [reflexivity |]. rewrite Ascii.eqb_refl. apply IH. Qed.

Lemma starts_with_split : forall p s, starts_with p s = true -> s = p ++ drop (String.length p) s.
Proof.
  induction p as [| a p IH]; intros s H; simpl; [reflexivity |]. destruct s as [| b s]; simpl in H; [discriminate |].
  apply Bool.andb_true_iff in H. destruct H as [E H]. apply Ascii.eqb_eq in E. subst. simpl. f_equal. apply IH. exact H.
Qed.

Lemma drop_app : forall p s, drop (String.length p) (p ++ s) = s.
Proof. induction p as [| a p IH]; intros s; simpl; [reflexivity | apply IH]. Qed.

Lemma length_app : forall a b, String.length (a ++ b) = String.length a + String.length b.
Proof. induction a as [| c a IH]; intros b; simpl; [reflexivity | rewrite IH; reflexivity]. Qed.

Lemma app_assoc_str : forall a b c : string, (a ++ b) ++ c = a ++ b ++ c.
Proof. induction a as [| x a IH]; intros b c; simpl; [reflexivity | rewrite IH; reflexivity]. Qed.

Theorem owns_own : forall n r, owns n (slave_port_id n r) = true /\ remote_id n (slave_port_id n r) = r.
Proof.
  intros n r. unfold owns, remote_id, slave_port_id. split.
  - rewrite <- app_assoc_str. apply starts_with_app.
  - rewrite <- app_assoc_str. replace (S (String.length n)) with (String.length (n ++ ".")) by (rewrite length_app; simpl; lia).
    apply drop_app.
Qed.

Theorem owns_is_id : forall n pid, owns n pid = true -> pid = slave_port_id n (remote_id n pid).
Proof.
  intros n pid H. unfold owns in H. apply starts_with_split in H. unfold slave_port_id, remote_id.
  rewrite length_app in H. simpl in H. replace (String.length n + 1) with (S (String.length n)) in H by lia.
  rewrite app_assoc_str in H. exact H.
Qed.

(* a dot-free name followed by "." determines where the first dot is: two dot-free names cannot both be such a prefix *)
Lemma owner_unique_aux : forall m n s r, dot_free m = true -> dot_free n = true -> m ++ "." ++ s = n ++ "." ++ r -> m = n.
Proof.
  induction m as [| a m IH]; intros n s r Dm Dn E.
  - destruct n as [| b n]; [reflexivity |]. simpl in E, Dn. injection E as E _. subst b.
    apply Bool.andb_true_iff in Dn. destruct Dn as [Dn _]. discriminate.
  - destruct n as [| b n]; simpl in E.
    + injection E as E _. subst a. simpl in Dm. discriminate.
    + injection E as E1 E2. subst b. simpl in Dm, Dn. apply Bool.andb_true_iff in Dm, Dn. f_equal. eapply IH; [tauto | tauto | exact E2].
Qed.

Theorem owner_unique : forall m n r, dot_free m = true -> dot_free n = true -> owns m (slave_port_id n r) = true -> m = n.
Proof.
  intros m n r Dm Dn H. apply owns_is_id in H. unfold slave_port_id in H. symmetry in H. eapply owner_unique_aux; eauto.
Qed.

(* a restart gives a permanently offline slave exactly the ports whose records carry its name: none lost, none foreign *)
Theorem load_ports_exact : forall n stored r, In r (load_ports n stored) <-> In (slave_port_id n r) stored.
Proof.
  intros n stored r. unfold load_ports. rewrite in_map_iff. split.
  - intros [pid [E H]]. apply filter_In in H. destruct H as [H O]. apply owns_is_id in O. rewrite E in O. rewrite <- O. exact H.
  - intros H. exists (slave_port_id n r). destruct (owns_own n r) as [O R]. split; [exact R |]. apply filter_In. auto.
Qed.
