(* C07 — model of what the hub persists and how it comes back (definitions only).
     core/ports.py        prepare_for_save, save, load, load_from_data (enabled first, the rest sorted by name, expression
                          last; id / value / pending_value, names without a definition and definitions marked
                          persisted: False skipped; a setter that is refused or fails leaves the attribute as it was; the
                          persisted value is re-applied through the write transform and written to the driver)
     core/vports.py       add / remove / init
     core/device          load / save, password hashes, hashing of empty passwords
     slaves/devices.py    prepare_for_save <-> Slave( **entry ), provisioning sets
     hub                  add / edit / remove / write / save / restart over a store of collections
   Expression-typed attributes are TEXTS; [canon] is "parse, then print" (C03), a Section parameter.  Evaluation of the write
   transform followed by the port's type coercion is the Section parameter [eval_tw]. *)
From QT Require Export Base.Prelude.
From Coq Require Export Permutation.
Open Scope string_scope.
Open Scope list_scope.

(* ---------------------------------------------------------------- JSON values, records *)
Inductive jv :=
| JNull | JBool (b : bool) | JInt (z : Z)
| JQ (q : Z)                                   (* a float, in quarters *)
| JStr (s : string) | JList (l : list jv) | JObj (l : list (string * jv)).

Definition record := list (string * jv).

Fixpoint lookup {A} (n : string) (l : list (string * A)) : option A :=
  match l with [] => None | (k, v) :: r => if k =? n then Some v else lookup n r end.

Fixpoint replace {A} (n : string) (v : A) (l : list (string * A)) : list (string * A) :=
  match l with [] => [] | (k, w) :: r => if k =? n then (k, v) :: r else (k, w) :: replace n v r end.

Definition is_null (v : jv) : bool := match v with JNull => true | _ => false end.

(* list.sort(key=name): insertion sort, stable *)
Fixpoint insert_by_key {A} (x : string * A) (l : list (string * A)) : list (string * A) :=
  match l with
  | [] => [x]
  | y :: r => if String.leb (fst x) (fst y) then x :: l else y :: insert_by_key x r
  end.
Fixpoint sort_by_key {A} (l : list (string * A)) : list (string * A) :=
  match l with [] => [] | x :: r => insert_by_key x (sort_by_key r) end.

(* ---------------------------------------------------------------- ports *)
(* an attribute definition as load/save see it: name, modifiable, marked persisted: False *)
Definition attrdef := (string * bool * bool)%type.
Definition ad_name (d : attrdef) : string := fst (fst d).
Definition ad_modifiable (d : attrdef) : bool := snd (fst d).
Definition ad_nonpersisted (d : attrdef) : bool := snd d.

Record port := {
  p_id : string;
  p_defs : list attrdef;              (* the enabled definitions of this port (get_attrdefs) *)
  p_init : list (string * jv);        (* attribute values of a newly constructed port of this kind *)
  p_attrs : list (string * jv);       (* current attribute values (get_attr); an absent name is an unsupported attribute *)
  p_value : jv;                       (* _last_read_value; JNull = none *)
  p_hlt : Z;                          (* _history_last_timestamp *)
  p_writable : bool;
  p_boolean : bool;                   (* type == boolean *)
  p_integer : bool;
}.

Definition with_attrs (p : port) (a : list (string * jv)) : port :=
  {| p_id := p_id p; p_defs := p_defs p; p_init := p_init p; p_attrs := a; p_value := p_value p; p_hlt := p_hlt p;
     p_writable := p_writable p; p_boolean := p_boolean p; p_integer := p_integer p |}.
Definition with_value (p : port) (v : jv) (h : Z) : port :=
  {| p_id := p_id p; p_defs := p_defs p; p_init := p_init p; p_attrs := p_attrs p; p_value := v; p_hlt := h;
     p_writable := p_writable p; p_boolean := p_boolean p; p_integer := p_integer p |}.

(* what the constructor gives: a port of the same kind with default attributes, no value *)
Definition fresh (p : port) : port := with_value (with_attrs p (p_init p)) JNull 0.

Definition get_attr (p : port) (n : string) : option jv := lookup n (p_attrs p).
Definition is_expr_attr (n : string) : bool := (n =? "expression") || (n =? "transform_read") || (n =? "transform_write").
Definition persisted (p : port) : bool := match get_attr p "persisted" with Some (JBool true) => true | _ => false end.
Definition enabled_attr (p : port) : bool := match get_attr p "enabled" with Some (JBool true) => true | _ => false end.
Definition reserved (n : string) : bool := (n =? "id") || (n =? "value") || (n =? "pending_value").
Definition find_def (p : port) (n : string) : option attrdef := find (fun d => ad_name d =? n) (p_defs p).
(* names that load_from_data will hand to set_attr *)
Definition loadable (p : port) (n : string) : bool :=
  negb (reserved n) && match find_def p n with Some d => negb (ad_nonpersisted d) | None => false end.
(* ... and that prepare_for_save writes: what survives a save + load *)
Definition restorable (p : port) (n : string) : bool :=
  loadable p n && match find_def p n with Some d => ad_modifiable d | None => false end.
Definition modifiable_names (p : port) : list string := map ad_name (filter ad_modifiable (p_defs p)).

Section Model.
  Variable canon : string -> option string.                 (* str(parse(text)), None when the text is rejected *)
  Variable eval_tw : bool -> bool -> string -> jv -> jv.     (* boolean, integer, canonical transform text ("" = none), value *)

  (* the value an attribute takes when set_attr is called with v; None = the setter raises, nothing changes *)
  Definition new_value (n : string) (v : jv) : option jv :=
    if is_expr_attr n then
      match v with
      | JStr s => if s =? "" then Some (JStr "") else match canon s with Some t => Some (JStr t) | None => None end
      | _ => None
      end
    else Some v.

  Definition set_attr (p : port) (n : string) (v : jv) : port :=
    match get_attr p n with
    | None => p                                               (* refuse to set an unsupported attribute *)
    | Some _ => match new_value n v with Some w => with_attrs p (replace n w (p_attrs p)) | None => p end
    end.

  (* ------------------------------------------------------------ prepare_for_save *)
  Definition attr_items (p : port) : record :=
    flat_map (fun d => if ad_modifiable d then match get_attr p (ad_name d) with Some v => [(ad_name d, v)] | None => [] end else [])
             (p_defs p).
  Definition prepare_for_save (p : port) : record :=
    ("id", JStr (p_id p)) :: ("history_last_timestamp", JInt (p_hlt p))
    :: ("value", if persisted p then p_value p else JNull) :: attr_items p.

  (* ------------------------------------------------------------ load_from_data *)
  Definition is_start (kv : string * jv) : bool := fst kv =? "enabled".
  Definition is_end (kv : string * jv) : bool := fst kv =? "expression".
  Definition ordered (data : record) : record :=
    filter (fun kv => is_start kv && negb (is_null (snd kv))) data
    ++ sort_by_key (filter (fun kv => negb (is_start kv) && negb (is_end kv)) data)
    ++ filter (fun kv => is_end kv && negb (is_null (snd kv))) data.

  Definition load_step (p : port) (kv : string * jv) : port :=
    if loadable p (fst kv) then set_attr p (fst kv) (snd kv) else p.

  Definition tw_text (p : port) : string := match get_attr p "transform_write" with Some (JStr s) => s | _ => "" end.
  (* the value handed to the driver: through the write transform and the type coercion; the transform of a disabled port
     cannot read the port's own value (DisabledPort), which — like an unavailable value — gives "no value" *)
  Definition through_tw (boolean integer : bool) (text : string) (en : bool) (v : jv) : jv :=
    if (text =? "") || en then eval_tw boolean integer text v else JNull.

  Definition load_from_data (p0 : port) (data : record) : port * list jv :=
    let p1 := fold_left load_step (ordered data) p0 in
    let hlt := match lookup "history_last_timestamp" data with Some (JInt z) => z | _ => 0%Z end in
    match lookup "value" data with
    | Some v =>
        if persisted p1 && negb (is_null v)
        then (with_value p1 v hlt,
              if p_writable p1 then [through_tw (p_boolean p1) (p_integer p1) (tw_text p1) (enabled_attr p1) v] else [])
        else (with_value p1 JNull hlt, [])                   (* a fresh driver has nothing to read *)
    | None => (with_value p1 JNull hlt, [])
    end.

  (* what must survive: every attribute load_from_data restores, the value of a persisted port, the history timestamp *)
  Definition loadable_names (p : port) : list string := filter (restorable p) (map fst (p_init p)).
  Definition view (p : port) : list (string * option jv) * jv * Z :=
    (map (fun n => (n, get_attr p n)) (loadable_names p), if persisted p then p_value p else JNull, p_hlt p).

  Definition canonical_text (v : jv) : Prop := exists s, v = JStr s /\ (s = "" \/ canon s = Some s).

  Record wf_port (p : port) : Prop := {
    wf_skeleton : map fst (p_attrs p) = map fst (p_init p);
    wf_nodup : NoDup (map fst (p_attrs p));
    wf_defs_nodup : NoDup (map ad_name (p_defs p));
    wf_defs_not_reserved : forall d, In d (p_defs p) -> ad_modifiable d = true ->
                           reserved (ad_name d) = false /\ ad_name d <> "history_last_timestamp";
    wf_not_null : forall n v, In (n, v) (p_attrs p) -> is_null v = false;
    wf_texts : forall n v, In (n, v) (p_attrs p) -> is_expr_attr n = true -> canonical_text v;
    wf_persisted_loadable : restorable p "persisted" = true;
    wf_persisted_supported : get_attr p "persisted" <> None;
  }.
End Model.

(* ---------------------------------------------------------------- device (core/device/__init__.py) *)
Record device := { d_name : string; d_display_name : string; d_admin : option string; d_normal : option string; d_viewonly : option string }.

Section Device.
  Variable empty_hash : string.                 (* sha256(b'').hexdigest() *)

  Definition opt_field (n : string) (o : option string) : record := match o with Some h => [(n, JStr h)] | None => [(n, JNull)] end.
  Definition device_save (d : device) : record :=
    opt_field "admin_password_hash" (d_admin d) ++ opt_field "normal_password_hash" (d_normal d)
    ++ opt_field "viewonly_password_hash" (d_viewonly d) ++ [("name", JStr (d_name d)); ("display_name", JStr (d_display_name d))].

  Definition load_hash (cur : option string) (n : string) (data : record) : option string :=
    let h := match lookup n data with Some (JStr h) => Some h | _ => cur end in
    match h with Some "" | None => Some empty_hash | Some x => Some x end.         (* "if not hash: hash = EMPTY" *)
  Definition load_str (cur : string) (n : string) (data : record) : string :=
    match lookup n data with Some (JStr s) => s | _ => cur end.
  (* d0 = module defaults (host name, '', None, None, None) *)
  Definition device_load (d0 : device) (data : record) : device :=
    {| d_name := load_str (d_name d0) "name" data; d_display_name := load_str (d_display_name d0) "display_name" data;
       d_admin := load_hash (d_admin d0) "admin_password_hash" data; d_normal := load_hash (d_normal d0) "normal_password_hash" data;
       d_viewonly := load_hash (d_viewonly d0) "viewonly_password_hash" data |}.

  Definition wf_hash (o : option string) : Prop := exists h, o = Some h /\ h <> "".
  Definition wf_device (d : device) : Prop := wf_hash (d_admin d) /\ wf_hash (d_normal d) /\ wf_hash (d_viewonly d).
End Device.

(* ---------------------------------------------------------------- slave entries (slaves/devices.py) *)
Record slave := {
  s_name : string; s_enabled : bool; s_conn : list (string * jv);     (* scheme, host, port, path, admin_password_hash, poll_interval, listen_enabled *)
  s_attrs : jv; s_webhooks : jv; s_reverse : jv;
  s_prov_attrs : list string; s_prov_webhooks : bool; s_prov_reverse : bool;
}.
Definition conn_fields : list string := ["scheme"; "host"; "port"; "path"; "admin_password_hash"; "poll_interval"; "listen_enabled"].

Fixpoint dedup (l : list string) : list string :=          (* set( list ) *)
  match l with [] => [] | x :: r => if existsb (String.eqb x) r then dedup r else x :: dedup r end.

Definition slave_save (s : slave) : record :=
  [("id", JStr (s_name s)); ("enabled", JBool (s_enabled s))] ++ s_conn s
  ++ [("attrs", s_attrs s); ("webhooks", s_webhooks s); ("reverse", s_reverse s);
      ("provisioning_attrs", JList (map JStr (s_prov_attrs s)));
      ("provisioning_webhooks", JBool (s_prov_webhooks s)); ("provisioning_reverse", JBool (s_prov_reverse s))].

Definition str_items (v : option jv) : list string :=
  match v with Some (JList l) => flat_map (fun x => match x with JStr s => [s] | _ => [] end) l | _ => [] end.
Definition jbool (v : option jv) : bool := match v with Some (JBool b) => b | _ => false end.
Definition jor_empty (v : option jv) : jv := match v with Some JNull | None => JObj [] | Some x => x end.     (* attrs or {} *)

(* load(): Slave( **entry ) then enable() when entry['enabled'] *)
Definition slave_load (data : record) : option slave :=
  match lookup "id" data with
  | Some (JStr n) =>
      Some {| s_name := n; s_enabled := jbool (lookup "enabled" data);
              s_conn := flat_map (fun k => match lookup k data with Some v => [(k, v)] | None => [] end) conn_fields;
              s_attrs := jor_empty (lookup "attrs" data); s_webhooks := jor_empty (lookup "webhooks" data);
              s_reverse := jor_empty (lookup "reverse" data);
              s_prov_attrs := dedup (str_items (lookup "provisioning_attrs" data));
              s_prov_webhooks := jbool (lookup "provisioning_webhooks" data);
              s_prov_reverse := jbool (lookup "provisioning_reverse" data) |}
  | _ => None
  end.

(* what GET /devices (Slave.to_json) and the intercepted GET /devices/x/forward/device show of the cached attributes: every
   attribute whose name ends in "_password" (a password pending provisioning, kept in clear text in memory and in the record) is
   shown as "set" / "" *)
Fixpoint ends_with (suffix s : string) : bool :=
  (s =? suffix) || match s with String _ s' => ends_with suffix s' | EmptyString => false end.
Definition truthy (v : jv) : bool :=
  match v with
  | JNull | JBool false | JStr "" | JList [] | JObj [] => false
  | JInt z | JQ z => negb (z =? 0)%Z
  | _ => true
  end.
Definition expose (kv : string * jv) : string * jv :=
  if ends_with "_password" (fst kv) then (fst kv, JStr (if truthy (snd kv) then "set" else "")) else kv.
Definition exposed_attrs (v : jv) : jv := match v with JObj l => JObj (map expose l) | x => x end.
Definition slave_doc (s : slave) : record :=
  [("name", JStr (s_name s)); ("enabled", JBool (s_enabled s))] ++ s_conn s
  ++ [("provisioning", JList (map JStr (s_prov_attrs s ++ (if s_prov_webhooks s then ["webhooks"] else [])
                                        ++ (if s_prov_reverse s then ["reverse"] else []))));
      ("attrs", exposed_attrs (s_attrs s))].

Definition wf_slave (s : slave) : Prop :=
  map fst (s_conn s) = conn_fields /\ NoDup (s_prov_attrs s)
  /\ s_attrs s <> JNull /\ s_webhooks s <> JNull /\ s_reverse s <> JNull.

(* ---------------------------------------------------------------- which slave a persisted slave port belongs to
   slaves/devices.py:_load_ports (ports of a permanently offline slave exist on the master from persisted data only):
   the owner of a record of collection slave_ports is the slave whose name followed by "." is a prefix of the record's id; the
   rest of the id is the port's id on the device and may itself contain dots (ports of a device that is a master).  Device
   names cannot contain dots (the `name` pattern of /device), so at most one slave matches.
   The rule is about records of collection slave_ports / SlavePort objects ONLY: a local (virtual or configured) port whose id
   happens to start with a slave's name and a dot belongs to the hub; removing, disabling or editing the slave leaves it, its
   definition and its record alone ([step] on ORemoveSlave / OEditSlave does not touch h_live, h_vports, st_ports, st_vports). *)
Fixpoint starts_with (p s : string) : bool :=
  match p, s with
  | EmptyString, _ => true
  | String a p', String b s' => Ascii.eqb a b && starts_with p' s'
  | String _ _, EmptyString => false
  end.
Fixpoint drop (n : nat) (s : string) : string :=
  match n, s with O, _ => s | S n', String _ s' => drop n' s' | S _, EmptyString => EmptyString end.
Fixpoint dot_free (s : string) : bool :=
  match s with EmptyString => true | String a s' => negb (Ascii.eqb a ".") && dot_free s' end.
Definition slave_port_id (name remote : string) : string := name ++ "." ++ remote.
Definition owns (name pid : string) : bool := starts_with (name ++ ".") pid.
Definition remote_id (name pid : string) : string := drop (S (String.length name)) pid.
Definition load_ports (name : string) (stored : list string) : list string := map (remote_id name) (filter (owns name) stored).

(* ---------------------------------------------------------------- the hub: live objects + store, operations *)
Record hub := {
  h_static : list string;                       (* ports configured in settings.ports: created at every start *)
  h_live : list string;                         (* ids of the ports that exist *)
  h_vports : list string;                       (* _vport_args *)
  h_slaves : list string;                       (* _slaves_by_name *)
  st_ports : list string;                       (* ids of the records in collection ports *)
  st_vports : list string;                      (* ... vports *)
  st_slaves : list string;                      (* ... slaves *)
  h_pending : list string;                      (* ports marked by save_asap *)
}.

Inductive op :=
| OAddVirtualPort (id : string) | OSetAttr (id : string) | OSetExpr (id : string) | ORemovePort (id : string)
| OWriteValue (id : string) | OSetDeviceAttr | OSetPassword
| OAddSlave (name : string) | OEditSlave (name : string) | ORemoveSlave (name : string)
| OSaveAll
| OSaveFailed (id : string)      (* a round of the save loop in which storing port id raises: the mark stays, the next round retries *)
| ORestart.

Definition mem (x : string) (l : list string) : bool := existsb (String.eqb x) l.
Definition remove_id (x : string) (l : list string) : list string := filter (fun y => negb (y =? x)) l.
Definition add_id (x : string) (l : list string) : list string := if mem x l then l else l ++ [x].

Definition restart (h : hub) : hub :=
  {| h_static := h_static h; h_live := h_static h ++ filter (fun v => negb (mem v (h_static h))) (st_vports h);
     h_vports := st_vports h; h_slaves := st_slaves h;
     st_ports := st_ports h; st_vports := st_vports h; st_slaves := st_slaves h; h_pending := [] |}.

Definition step (h : hub) (o : op) : hub :=
  match o with
  | OAddVirtualPort id =>
      if mem id (h_live h) then h else                                  (* duplicate-port *)
      {| h_static := h_static h; h_live := h_live h ++ [id]; h_vports := add_id id (h_vports h); h_slaves := h_slaves h;
         st_ports := add_id id (st_ports h); st_vports := add_id id (st_vports h); st_slaves := st_slaves h; h_pending := h_pending h |}
  | OSetAttr id | OSetExpr id =>
      if mem id (h_live h) then
      {| h_static := h_static h; h_live := h_live h; h_vports := h_vports h; h_slaves := h_slaves h;
         st_ports := add_id id (st_ports h); st_vports := st_vports h; st_slaves := st_slaves h; h_pending := remove_id id (h_pending h) |}
      else h
  | ORemovePort id =>
      if mem id (h_live h) && mem id (h_vports h) && negb (mem id (h_static h)) then   (* port-not-removable otherwise *)
      {| h_static := h_static h; h_live := remove_id id (h_live h); h_vports := remove_id id (h_vports h); h_slaves := h_slaves h;
         st_ports := remove_id id (st_ports h); st_vports := remove_id id (st_vports h); st_slaves := st_slaves h;
         h_pending := remove_id id (h_pending h) |}
      else h
  | OWriteValue id =>
      if mem id (h_live h) then
      {| h_static := h_static h; h_live := h_live h; h_vports := h_vports h; h_slaves := h_slaves h;
         st_ports := st_ports h; st_vports := st_vports h; st_slaves := st_slaves h; h_pending := add_id id (h_pending h) |}
      else h
  | OSetDeviceAttr | OSetPassword => h
  | OAddSlave n =>
      if mem n (h_slaves h) then h else
      {| h_static := h_static h; h_live := h_live h; h_vports := h_vports h; h_slaves := h_slaves h ++ [n];
         st_ports := st_ports h; st_vports := st_vports h; st_slaves := add_id n (st_slaves h); h_pending := h_pending h |}
  | OEditSlave n =>
      if mem n (h_slaves h) then
      {| h_static := h_static h; h_live := h_live h; h_vports := h_vports h; h_slaves := h_slaves h;
         st_ports := st_ports h; st_vports := st_vports h; st_slaves := add_id n (st_slaves h); h_pending := h_pending h |}
      else h
  | ORemoveSlave n =>
      {| h_static := h_static h; h_live := h_live h; h_vports := h_vports h; h_slaves := remove_id n (h_slaves h);
         st_ports := st_ports h; st_vports := st_vports h; st_slaves := remove_id n (st_slaves h); h_pending := h_pending h |}
  | OSaveAll =>
      {| h_static := h_static h; h_live := h_live h; h_vports := h_vports h; h_slaves := h_slaves h;
         st_ports := fold_left (fun acc id => if mem id (h_live h) then add_id id acc else acc) (h_pending h) (st_ports h);
         st_vports := st_vports h; st_slaves := st_slaves h; h_pending := [] |}
  | OSaveFailed _ => h
  | ORestart => restart h
  end.

Definition init_hub (static : list string) : hub :=
  {| h_static := static; h_live := static; h_vports := []; h_slaves := []; st_ports := []; st_vports := []; st_slaves := []; h_pending := [] |}.
Definition run (static : list string) (ops : list op) : hub := fold_left step ops (init_hub static).
