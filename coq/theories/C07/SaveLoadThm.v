(* C07 — port save/load: what load_from_data leaves in every attribute, independence of the record's field order, round trip,
   persisted value written once. *)
From QT Require Import C07.SaveLoad.
Open Scope string_scope.
Open Scope list_scope.

(* ---------------------------------------------------------------- association lists *)
Lemma lookup_none {A} : forall n (l : list (string * A)), ~ In n (map fst l) -> lookup n l = None.
Proof.
  induction l as [| [k v] r IH]; simpl; intros H; [reflexivity |].
  destruct (k =? n) eqn:E; [apply String.eqb_eq in E; subst; tauto | apply IH; tauto].
Qed.

Lemma lookup_in {A} : forall n (v : A) l, lookup n l = Some v -> In (n, v) l.
Proof.
  induction l as [| [k w] r IH]; simpl; intros H; [discriminate |].
  destruct (k =? n) eqn:E; [apply String.eqb_eq in E; injection H as ->; subst; auto | auto].
Qed.

Lemma in_lookup {A} : forall n (v : A) l, NoDup (map fst l) -> In (n, v) l -> lookup n l = Some v.
Proof.
  induction l as [| [k w] r IH]; simpl; intros N H; [contradiction |]. inversion N; subst.
  destruct H as [H | H].
  - injection H as -> ->. rewrite String.eqb_refl. reflexivity.
  - destruct (k =? n) eqn:E; [| auto]. apply String.eqb_eq in E. subst. exfalso. apply H2. apply (in_map fst) in H. exact H.
Qed.

Lemma lookup_replace_same {A} : forall n (v : A) l, lookup n l <> None -> lookup n (replace n v l) = Some v.
Proof.
  induction l as [| [k w] r IH]; simpl; intros H; [congruence |].
  destruct (k =? n) eqn:E; simpl; rewrite E; [reflexivity | auto].
Qed.

Lemma lookup_replace_other {A} : forall n k (v : A) l, k <> n -> lookup k (replace n v l) = lookup k l.
Proof.
  induction l as [| [k0 w] r IH]; simpl; intros H; [reflexivity |].
  destruct (k0 =? n) eqn:E; simpl.
  - apply String.eqb_eq in E. subst. destruct (n =? k) eqn:F; [apply String.eqb_eq in F; congruence | reflexivity].
  - destruct (k0 =? k); auto.
Qed.

Lemma perm_lookup {A} : forall n (l1 l2 : list (string * A)),
  Permutation l1 l2 -> NoDup (map fst l1) -> lookup n l1 = lookup n l2.
Proof.
  intros n l1 l2 P. induction P as [| [k v] l l' P IH | [k v] [k' v'] l | l l' l'' P1 IH1 P2 IH2]; intros N; simpl.
  - reflexivity.
  - inversion N; subst. rewrite IH by assumption. reflexivity.
  - destruct (k' =? n) eqn:E1; destruct (k =? n) eqn:E2; try reflexivity.
    apply String.eqb_eq in E1, E2. subst. inversion N; subst. simpl in H1. tauto.
  - rewrite IH1 by assumption. apply IH2. eapply Permutation_NoDup; [apply Permutation_map; exact P1 | exact N].
Qed.

Lemma lookup_filter {A} : forall f n (l : list (string * A)), NoDup (map fst l) ->
  lookup n (filter f l) = match lookup n l with Some v => if f (n, v) then Some v else None | None => None end.
Proof.
  induction l as [| [k v] r IH]; simpl; intros N; [reflexivity |]. inversion N; subst.
  destruct (k =? n) eqn:E.
  - apply String.eqb_eq in E. subst. destruct (f (n, v)); simpl.
    + rewrite String.eqb_refl. reflexivity.
    + rewrite IH by assumption. rewrite (lookup_none n r) by assumption. reflexivity.
  - destruct (f (k, v)); simpl; [rewrite E |]; auto.
Qed.

Lemma nodup_filter_keys {A} : forall f (l : list (string * A)), NoDup (map fst l) -> NoDup (map fst (filter f l)).
Proof.
  induction l as [| [k v] r IH]; simpl; intros N; [constructor |]. inversion N; subst.
  destruct (f (k, v)); simpl; [| auto]. constructor; [| auto].
  intros H. apply H1. apply in_map_iff in H. destruct H as [[k' v'] [E H]]. simpl in E. subst.
  apply filter_In in H. destruct H as [H _]. apply (in_map fst) in H. exact H.
Qed.

Lemma insert_perm {A} : forall (x : string * A) l, Permutation (insert_by_key x l) (x :: l).
Proof.
  induction l as [| y r IH]; simpl; [reflexivity |]. destruct (String.leb (fst x) (fst y)); [reflexivity |].
  rewrite IH. apply perm_swap.
Qed.

Lemma sort_perm {A} : forall (l : list (string * A)), Permutation (sort_by_key l) l.
Proof. induction l as [| x r IH]; simpl; [reflexivity |]. rewrite insert_perm. constructor. exact IH. Qed.

(* what [ordered] keeps: everything except a null "enabled" / "expression" *)
Definition kept (kv : string * jv) : bool := negb ((is_start kv || is_end kv) && is_null (snd kv)).

Lemma ordered_perm : forall data, Permutation (ordered data) (filter kept data).
Proof.
  intros data. unfold ordered. rewrite sort_perm.
  induction data as [| [k v] r IH]; simpl; [reflexivity |].
  unfold kept, is_start, is_end in *. simpl.
  destruct (k =? "enabled") eqn:E1; destruct (k =? "expression") eqn:E2; simpl.
  - apply String.eqb_eq in E1, E2. subst. discriminate.
  - destruct (is_null v); simpl; [exact IH | constructor; exact IH].
  - destruct (is_null v); simpl; [exact IH |].
    rewrite app_assoc. rewrite <- Permutation_middle. constructor. rewrite <- app_assoc. exact IH.
  - rewrite <- Permutation_middle. constructor. exact IH.
Qed.

Lemma ordered_nodup : forall data, NoDup (map fst data) -> NoDup (map fst (ordered data)).
Proof.
  intros data N. eapply Permutation_NoDup; [apply Permutation_map; symmetry; apply ordered_perm |].
  apply nodup_filter_keys. exact N.
Qed.

Lemma lookup_ordered : forall n data, NoDup (map fst data) ->
  lookup n (ordered data) = match lookup n data with Some v => if kept (n, v) then Some v else None | None => None end.
Proof.
  intros n data N. rewrite (perm_lookup n _ _ (ordered_perm data) (ordered_nodup data N)). apply lookup_filter. exact N.
Qed.

Section Thm.
  Variable canon : string -> option string.
  Variable eval_tw : bool -> bool -> string -> jv -> jv.

  Notation set_attr := (set_attr canon).
  Notation load_step := (load_step canon).
  Notation load_from_data := (load_from_data canon eval_tw).

  (* the attribute's value after one load step, as a function of what was there *)
  Definition stepv (ld : bool) (old : option jv) (n : string) (w : jv) : option jv :=
    if ld then match old with None => None | Some o => match new_value canon n w with Some x => Some x | None => Some o end end
    else old.

  Definition same_kind (p q : port) : Prop :=
    p_id p = p_id q /\ p_defs p = p_defs q /\ p_init p = p_init q /\ p_writable p = p_writable q
    /\ p_boolean p = p_boolean q /\ p_integer p = p_integer q /\ p_value p = p_value q /\ p_hlt p = p_hlt q.

  Lemma set_attr_kind : forall p n v, same_kind (set_attr p n v) p.
  Proof.
    intros p n v. unfold SaveLoad.set_attr. destruct (get_attr p n); [| repeat split].
    destruct (new_value canon n v); repeat split.
  Qed.

  Lemma load_step_kind : forall p kv, same_kind (load_step p kv) p.
  Proof. intros p kv. unfold SaveLoad.load_step. destruct (loadable p (fst kv)); [apply set_attr_kind | repeat split]. Qed.

  Lemma loadable_kind : forall p q n, p_defs p = p_defs q -> loadable p n = loadable q n.
  Proof. intros p q n H. unfold loadable, find_def. rewrite H. reflexivity. Qed.

  Lemma load_step_get_same : forall p n w, get_attr (load_step p (n, w)) n = stepv (loadable p n) (get_attr p n) n w.
  Proof.
    intros p n w. unfold SaveLoad.load_step, stepv. simpl. destruct (loadable p n); [| reflexivity].
    unfold SaveLoad.set_attr. destruct (get_attr p n) eqn:G; [| exact G].
    destruct (new_value canon n w); [| exact G]. unfold get_attr in *. simpl. apply lookup_replace_same. congruence.
  Qed.

  Lemma load_step_get_other : forall p k w n, k <> n -> get_attr (load_step p (k, w)) n = get_attr p n.
  Proof.
    intros p k w n H. unfold SaveLoad.load_step. simpl. destruct (loadable p k); [| reflexivity].
    unfold SaveLoad.set_attr. destruct (get_attr p k); [| reflexivity]. destruct (new_value canon k w); [| reflexivity].
    unfold get_attr. simpl. apply lookup_replace_other. congruence.
  Qed.

  Lemma fold_kind : forall l p, same_kind (fold_left load_step l p) p.
  Proof.
    induction l as [| kv r IH]; intros p; simpl; [repeat split |].
    destruct (IH (load_step p kv)) as (A & B & C & D & E & F & G & H).
    destruct (load_step_kind p kv) as (A' & B' & C' & D' & E' & F' & G' & H').
    repeat split; congruence.
  Qed.

  (* after the attribute pass: every attribute is what its own field of the record makes of it *)
  Lemma fold_get : forall l p n, NoDup (map fst l) ->
    get_attr (fold_left load_step l p) n
    = match lookup n l with Some v => stepv (loadable p n) (get_attr p n) n v | None => get_attr p n end.
  Proof.
    induction l as [| [k v] r IH]; intros p n N; simpl; [reflexivity |]. inversion N; subst.
    rewrite IH by assumption. destruct (k =? n) eqn:E.
    - apply String.eqb_eq in E. subst. rewrite (lookup_none n r) by assumption. apply load_step_get_same.
    - apply String.eqb_neq in E. rewrite (load_step_get_other p k v n E).
      rewrite (loadable_kind (load_step p (k, v)) p n) by (apply load_step_kind). reflexivity.
  Qed.

  Definition attrs_after (p0 : port) (data : record) (n : string) : option jv :=
    match lookup n data with
    | Some v => if kept (n, v) then stepv (loadable p0 n) (get_attr p0 n) n v else get_attr p0 n
    | None => get_attr p0 n
    end.

  Lemma pass_get : forall p0 data n, NoDup (map fst data) ->
    get_attr (fold_left load_step (ordered data) p0) n = attrs_after p0 data n.
  Proof.
    intros p0 data n N. rewrite fold_get by (apply ordered_nodup; exact N). rewrite lookup_ordered by exact N.
    unfold attrs_after. destruct (lookup n data) as [v |]; [| reflexivity]. destruct (kept (n, v)); reflexivity.
  Qed.

  (* the whole result of load_from_data, in terms of the record seen as a map *)
  Definition spec_pers (p0 : port) (data : record) : bool :=
    match attrs_after p0 data "persisted" with Some (JBool true) => true | _ => false end.
  Definition spec_tw (p0 : port) (data : record) : string :=
    match attrs_after p0 data "transform_write" with Some (JStr s) => s | _ => "" end.
  Definition spec_en (p0 : port) (data : record) : bool :=
    match attrs_after p0 data "enabled" with Some (JBool true) => true | _ => false end.
  Definition spec_restores (p0 : port) (data : record) : option jv :=
    match lookup "value" data with
    | Some v => if spec_pers p0 data && negb (is_null v) then Some v else None
    | None => None
    end.
  Definition spec_value (p0 : port) (data : record) : jv := match spec_restores p0 data with Some v => v | None => JNull end.
  Definition spec_hlt (data : record) : Z := match lookup "history_last_timestamp" data with Some (JInt z) => z | _ => 0%Z end.
  Definition spec_writes (p0 : port) (data : record) : list jv :=
    match spec_restores p0 data with
    | Some v => if p_writable p0 then [through_tw eval_tw (p_boolean p0) (p_integer p0) (spec_tw p0 data) (spec_en p0 data) v] else []
    | None => []
    end.

  Lemma load_char : forall p0 data, NoDup (map fst data) ->
    (forall n, get_attr (fst (load_from_data p0 data)) n = attrs_after p0 data n)
    /\ p_value (fst (load_from_data p0 data)) = spec_value p0 data
    /\ p_hlt (fst (load_from_data p0 data)) = spec_hlt data
    /\ snd (load_from_data p0 data) = spec_writes p0 data.
  Proof.
    intros p0 data N. unfold SaveLoad.load_from_data, spec_value, spec_writes, spec_restores, spec_hlt.
    set (p1 := fold_left load_step (ordered data) p0).
    assert (forall n, get_attr p1 n = attrs_after p0 data n) as HA by (intros n; apply pass_get; exact N).
    assert (persisted p1 = spec_pers p0 data) as HP by (unfold persisted, spec_pers; rewrite HA; reflexivity).
    assert (tw_text p1 = spec_tw p0 data) as HT by (unfold tw_text, spec_tw; rewrite HA; reflexivity).
    assert (enabled_attr p1 = spec_en p0 data) as HE by (unfold enabled_attr, spec_en; rewrite HA; reflexivity).
    destruct (fold_kind (ordered data) p0) as (K1 & K2 & K3 & W & B & I & K7 & K8). fold p1 in K1, K2, K3, W, B, I, K7, K8.
    rewrite <- HP, <- HT, <- HE.
    destruct (lookup "value" data) as [v |]; simpl; [destruct (persisted p1 && negb (is_null v)); simpl |];
      rewrite ?W, ?B, ?I; repeat split; auto.
  Qed.

  (* ------------------------------------------------------------ the field order of the record is irrelevant *)
  Theorem load_order_irrelevant : forall p0 d1 d2,
    NoDup (map fst d1) -> Permutation d1 d2 ->
    (forall n, get_attr (fst (load_from_data p0 d1)) n = get_attr (fst (load_from_data p0 d2)) n)
    /\ p_value (fst (load_from_data p0 d1)) = p_value (fst (load_from_data p0 d2))
    /\ p_hlt (fst (load_from_data p0 d1)) = p_hlt (fst (load_from_data p0 d2))
    /\ snd (load_from_data p0 d1) = snd (load_from_data p0 d2).
  Proof.
    intros p0 d1 d2 N P.
    assert (NoDup (map fst d2)) as N2 by (eapply Permutation_NoDup; [apply Permutation_map; exact P | exact N]).
    assert (forall n, lookup n d1 = lookup n d2) as L by (intros n; apply perm_lookup; assumption).
    assert (forall n, attrs_after p0 d1 n = attrs_after p0 d2 n) as A by (intros n; unfold attrs_after; rewrite L; reflexivity).
    destruct (load_char p0 d1 N) as (A1 & V1 & H1 & W1). destruct (load_char p0 d2 N2) as (A2 & V2 & H2 & W2).
    assert (spec_restores p0 d1 = spec_restores p0 d2) as R.
    { unfold spec_restores, spec_pers. rewrite L, A. reflexivity. }
    repeat split.
    - intros n. rewrite A1, A2. apply A.
    - rewrite V1, V2. unfold spec_value. rewrite R. reflexivity.
    - rewrite H1, H2. unfold spec_hlt. rewrite L. reflexivity.
    - rewrite W1, W2. unfold spec_writes, spec_tw, spec_en. rewrite R, !A. reflexivity.
  Qed.
End Thm.
