(* C07 — nothing deleted reappears (induction over operation histories); device and slave entry round trips. *)
From QT Require Import C07.SaveLoad.
Open Scope string_scope.
Open Scope list_scope.

Lemma mem_In : forall x l, mem x l = true <-> In x l.
Proof.
  unfold mem. intros x l. rewrite existsb_exists. split.
  - intros [y [Hy E]]. apply String.eqb_eq in E. subst. exact Hy.
  - intros H. exists x. split; [exact H | apply String.eqb_refl].
Qed.

Lemma In_remove_id : forall x y l, In x (remove_id y l) <-> In x l /\ x <> y.
Proof.
  unfold remove_id. intros x y l. rewrite filter_In. rewrite Bool.negb_true_iff. rewrite String.eqb_neq. tauto.
Qed.

Lemma In_add_id : forall x y l, In x (add_id y l) <-> In x l \/ x = y.
Proof.
  unfold add_id. intros x y l. destruct (mem y l) eqn:E.
  - apply mem_In in E. split; [tauto | intros [H | H]; [exact H | subst; exact E]].
  - rewrite in_app_iff. simpl. split; intros [H | H]; auto. destruct H as [H | []]. auto.
Qed.

(* every port that would be created at a start exists now; every stored slave entry belongs to a slave that exists now *)
Definition inv (h : hub) : Prop :=
  (forall x, In x (h_static h) -> In x (h_live h)) /\ (forall x, In x (st_vports h) -> In x (h_live h))
  /\ (forall x, In x (st_slaves h) -> In x (h_slaves h)).

Lemma inv_init : forall static, inv (init_hub static).
Proof. intros static. unfold inv, init_hub. simpl. repeat split; auto; intros x []. Qed.

Lemma live_restart : forall h x, In x (h_live (restart h)) <-> In x (h_static h) \/ In x (st_vports h).
Proof.
  intros h x. unfold restart. simpl. rewrite in_app_iff, filter_In. split.
  - intros [H | [H _]]; auto.
  - intros [H | H]; auto. destruct (mem x (h_static h)) eqn:E.
    + left. apply mem_In. exact E.
    + right. split; auto.
Qed.

Lemma inv_step : forall h o, inv h -> inv (step h o).
Proof.
  intros h o (S & V & L). destruct o; simpl; try (repeat split; assumption).
  - (* add *) destruct (mem id (h_live h)) eqn:E; [repeat split; assumption |].
    repeat split; simpl; intros x H; try (apply L; exact H).
    + apply in_app_iff. left. apply S. exact H.
    + apply in_app_iff. apply In_add_id in H. destruct H as [H | H]; [left; apply V; exact H | right; left; auto].
  - destruct (mem id (h_live h)); repeat split; assumption.
  - destruct (mem id (h_live h)); repeat split; assumption.
  - (* remove *)
    destruct (mem id (h_live h) && mem id (h_vports h) && negb (mem id (h_static h))) eqn:E; [| repeat split; assumption].
    apply Bool.andb_true_iff in E. destruct E as [_ E]. apply Bool.negb_true_iff in E.
    repeat split; simpl; intros x H; try (apply L; exact H).
    + apply In_remove_id. split; [apply S; exact H |]. intros ->. apply mem_In in H. congruence.
    + apply In_remove_id in H. destruct H as [H N]. apply In_remove_id. split; [apply V; exact H | exact N].
  - destruct (mem id (h_live h)); repeat split; assumption.
  - (* add slave *) destruct (mem name (h_slaves h)) eqn:E; [repeat split; assumption |].
    repeat split; simpl; auto. intros x H. apply in_app_iff. apply In_add_id in H.
    destruct H as [H | H]; [left; apply L; exact H | right; left; auto].
  - (* edit slave *) destruct (mem name (h_slaves h)) eqn:E; [| repeat split; assumption].
    repeat split; simpl; auto. intros x H. apply In_add_id in H. destruct H as [H | H]; [apply L; exact H | subst; apply mem_In; exact E].
  - (* remove slave *) repeat split; simpl; auto. intros x H. apply In_remove_id in H. destruct H as [H N].
    apply In_remove_id. split; [apply L; exact H | exact N].
  - (* restart *) repeat split; simpl; intros x H.
    + apply in_app_iff. left. exact H.
    + apply (proj2 (live_restart h x)). right. exact H.
    + exact H.
Qed.

Lemma inv_run : forall ops h, inv h -> inv (fold_left step ops h).
Proof. induction ops as [| o ops IH]; intros h H; simpl; [exact H | apply IH, inv_step, H]. Qed.

Theorem deleted_stays_deleted : forall static ops id,
  ~ In id (h_live (run static ops)) -> ~ In id (h_live (restart (run static ops))).
Proof.
  intros static ops id N H. apply N. destruct (inv_run ops _ (inv_init static)) as (S & V & _).
  apply live_restart in H. destruct H as [H | H]; [apply S | apply V]; exact H.
Qed.

Theorem deleted_slave_stays_deleted : forall static ops name,
  ~ In name (h_slaves (run static ops)) -> ~ In name (h_slaves (restart (run static ops))).
Proof.
  intros static ops name N H. apply N. destruct (inv_run ops _ (inv_init static)) as (_ & _ & L). apply L. exact H.
Qed.

(* a removed virtual port leaves no record behind, whatever happened before *)
Theorem remove_leaves_no_record : forall h id,
  In id (h_live h) -> In id (h_vports h) -> ~ In id (h_static h) ->
  let h' := step h (ORemovePort id) in
  ~ In id (h_live h') /\ ~ In id (st_ports h') /\ ~ In id (st_vports h') /\ ~ In id (h_live (restart h')).
Proof.
  intros h id A B C. simpl.
  apply mem_In in A. apply mem_In in B. assert (mem id (h_static h) = false) as D.
  { destruct (mem id (h_static h)) eqn:E; auto. apply mem_In in E. contradiction. }
  rewrite A, B, D. simpl. repeat split; try (intros H; apply In_remove_id in H; tauto).
  intros H. apply in_app_iff in H. destruct H as [H | H]; [contradiction |].
  apply filter_In in H. destruct H as [H _]. apply In_remove_id in H. tauto.
Qed.

(* a save that fails is retried: the mark survives the failed round, and the next round of the save loop stores the port *)
Lemma fold_saves : forall live id l acc,
  (In id l /\ mem id live = true) \/ In id acc ->
  In id (fold_left (fun acc x => if mem x live then add_id x acc else acc) l acc).
Proof.
  intros live id. induction l as [| x l IH]; intros acc H; simpl.
  - destruct H as [[[] _] | H]. exact H.
  - apply IH. destruct H as [[[E | H] M] | H].
    + subst x. right. rewrite M. apply In_add_id. auto.
    + left. auto.
    + right. destruct (mem x live); [apply In_add_id; auto | exact H].
Qed.

Theorem failed_save_is_retried : forall h id,
  In id (h_pending h) -> In id (h_live h) ->
  In id (h_pending (step h (OSaveFailed id)))
  /\ (let h' := step (step h (OSaveFailed id)) OSaveAll in In id (st_ports h') /\ h_pending h' = []).
Proof.
  intros h id P L. simpl. split; [exact P |]. split; [| reflexivity].
  apply fold_saves. left. split; [exact P | apply mem_In; exact L].
Qed.

(* ---------------------------------------------------------------- device *)
Theorem device_roundtrip : forall eh d0 d, wf_device d -> device_load eh d0 (device_save d) = d.
Proof.
  intros eh d0 [n dn a nm v] ((ha & Ea & Na) & (hn & En & Nn) & (hv & Ev & Nv)). simpl in *. subst.
  unfold device_load, device_save, load_hash, load_str. simpl.
  destruct ha; [contradiction |]. destruct hn; [contradiction |]. destruct hv; [contradiction |]. reflexivity.
Qed.

(* a password that was never set, or set to the empty string, comes back as the hash of the empty password *)
Theorem device_empty_password : forall eh d0 data,
  lookup "admin_password_hash" data = None -> d_admin d0 = None ->
  d_admin (device_load eh d0 data) = Some eh.
Proof. intros eh d0 data H E. unfold device_load, load_hash. simpl. rewrite H, E. reflexivity. Qed.

(* ---------------------------------------------------------------- slaves *)
Lemma dedup_nodup : forall l, NoDup l -> dedup l = l.
Proof.
  induction l as [| x r IH]; intros H; simpl; [reflexivity |]. inversion H; subst.
  destruct (existsb (String.eqb x) r) eqn:E.
  - apply existsb_exists in E. destruct E as [y [Hy E]]. apply String.eqb_eq in E. subst. contradiction.
  - rewrite IH; auto.
Qed.

Lemma str_items_map : forall l, flat_map (fun x => match x with JStr s => [s] | _ => [] end) (map JStr l) = l.
Proof. induction l; simpl; congruence. Qed.

Theorem slave_roundtrip : forall s, wf_slave s -> slave_load (slave_save s) = Some s.
Proof.
  intros [n e conn a w r pa pw pr] (C & P & A & W & R). simpl in *.
  destruct conn as [| [k1 v1] [| [k2 v2] [| [k3 v3] [| [k4 v4] [| [k5 v5] [| [k6 v6] [| [k7 v7] [| ? ?]]]]]]]]; try discriminate.
  unfold conn_fields in C. simpl in C. injection C as -> -> -> -> -> -> ->.
  unfold slave_load, slave_save. simpl. unfold str_items. rewrite str_items_map, dedup_nodup by exact P.
  destruct a; try contradiction; destruct w; try contradiction; destruct r; try contradiction; reflexivity.
Qed.

(* what GET /devices shows survives too (it is a function of the entry), and never shows a pending password in clear text *)
Theorem slave_doc_roundtrip : forall s, wf_slave s -> option_map slave_doc (slave_load (slave_save s)) = Some (slave_doc s).
Proof. intros s H. rewrite (slave_roundtrip s H). reflexivity. Qed.

Theorem exposed_hides_passwords : forall l n v,
  In (n, v) (map expose l) -> ends_with "_password" n = true -> v = JStr "set" \/ v = JStr "".
Proof.
  intros l n v H E. apply in_map_iff in H. destruct H as [[k w] [X _]]. unfold expose in X. simpl in X.
  destruct (ends_with "_password" k) eqn:K.
  - injection X as <- <-. destruct (truthy w); auto.
  - injection X as <- <-. congruence.
Qed.

(* a slave owns SlavePort objects / records of collection slave_ports only: whatever is done to a slave — and whatever the ids
   of the local ports look like, e.g. "garage.door_override" next to a slave "garage" — the local ports, the virtual port
   definitions and their records are exactly what they were *)
Theorem slave_ops_keep_local_ports : forall h o,
  match o with OAddSlave _ | OEditSlave _ | ORemoveSlave _ => True | _ => False end ->
  let h' := step h o in
  h_live h' = h_live h /\ h_vports h' = h_vports h /\ st_ports h' = st_ports h /\ st_vports h' = st_vports h
  /\ h_live (restart h') = h_live (restart h).
Proof.
  intros h o H. destruct o; try contradiction; simpl.
  - destruct (mem name (h_slaves h)); repeat split.
  - destruct (mem name (h_slaves h)); repeat split.
  - repeat split.
Qed.
