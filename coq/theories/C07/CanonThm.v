(* C07 — the text canonicaliser instantiated with the C03 parser/printer: a canonical text is a fixpoint (C03). *)
From QT Require Import C07.Run C03.Parser C03.ParserThm C03.WfThm Gen.FuncTable.
Open Scope string_scope.
Open Scope list_scope.

Lemma canon_run_stable : forall s t, canon_run s = Some t -> canon_run t = Some t.
Proof.
  unfold canon_run. intros s t H.
  destruct (parse func_table true (list_ascii_of_string s)) as [e |] eqn:P; [| discriminate].
  injection H as <-. rewrite list_ascii_of_string_of_list_ascii.
  rewrite (print_parse_fixpoint func_table true _ e P). reflexivity.
Qed.

(* a concrete port for the non-vacuity examples *)
Definition ex_defs : list attrdef :=
  [("id", false, false); ("display_name", true, false); ("enabled", true, false); ("expression", true, false);
   ("transform_write", true, false); ("persisted", true, false); ("calib", true, true)].
Definition ex_init : record :=
  [("id", JStr "v1"); ("display_name", JStr ""); ("enabled", JBool false); ("expression", JStr "");
   ("transform_write", JStr ""); ("persisted", JBool false); ("calib", JInt 0)].
Definition ex_port : port :=
  {| p_id := "v1"; p_defs := ex_defs; p_init := ex_init;
     p_attrs := [("id", JStr "v1"); ("display_name", JStr "a""b\c"); ("enabled", JBool true); ("expression", JStr "ADD($v2, 1)");
                 ("transform_write", JStr "MUL($, 2)"); ("persisted", JBool true); ("calib", JInt 3)];
     p_value := JQ 14; p_hlt := 1700000001000; p_writable := true; p_boolean := false; p_integer := false |}.


Lemma ex_port_wf : wf_port canon_run ex_port.
Proof.
  constructor.
  - reflexivity.
  - simpl. repeat (constructor; [simpl; intuition discriminate |]). constructor.
  - simpl. repeat (constructor; [simpl; intuition discriminate |]). constructor.
  - apply (proj1 (Forall_forall (fun d => ad_modifiable d = true -> reserved (ad_name d) = false /\ ad_name d <> "history_last_timestamp") (p_defs ex_port))). unfold ex_port, ex_defs; simpl. repeat (constructor; [simpl; intros M; first [discriminate M | split; [reflexivity | discriminate]] |]). constructor.
  - intros n v H. simpl in H. repeat (destruct H as [E | H]; [injection E as <- <-; reflexivity |]). destruct H.
  - intros n v H X. simpl in H.
    repeat (destruct H as [E | H]; [injection E as <- <-; first [discriminate X | eexists; split; [reflexivity | right; vm_compute; reflexivity]] |]).
    destruct H.
  - reflexivity.
  - discriminate.
Qed.
