(* C07 — the specification, written over two observations of a port (before the restart, after it) and the driver writes
   seen while it was loaded; it does not mention records, load order or setters.
     * every attribute that the hub restores (modifiable, not marked persisted: False) has the same value;
     * a persisted port with a value has that value again, and its driver — if the port is writable — received exactly
       one write: that value through the write transform and the port's type coercion (no value when the transform of a
       disabled port cannot be evaluated); nothing was written otherwise;
     * the history timestamp is the same. *)
From QT Require Export C07.SaveLoad.
Open Scope string_scope.
Open Scope list_scope.

Section Spec.
  Variable canon : string -> option string.
  Variable eval_tw : bool -> bool -> string -> jv -> jv.
  Variable eqb : jv -> jv -> bool.

  Definition writes_ok (expected : jv) (writes : list jv) (unknown : jv) : bool :=
    match writes with
    | [w] => eqb expected unknown || eqb w expected
    | _ => false
    end.

  Definition port_survives (before after : port) (writes : list jv) (unknown : jv) : bool :=
    forallb (fun n => option_eqb eqb (get_attr before n) (get_attr after n)) (loadable_names before)
    && (if persisted before && negb (is_null (p_value before))
        then eqb (p_value after) (p_value before)
             && (if p_writable before
                 then writes_ok (through_tw eval_tw (p_boolean before) (p_integer before) (tw_text before) (enabled_attr before) (p_value before)) writes unknown
                 else match writes with [] => true | _ => false end)
        else match writes with [] => true | _ => false end)
    && (p_hlt before =? p_hlt after)%Z.
End Spec.
