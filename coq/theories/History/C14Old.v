(* C14 — the code before fixes/C14-load-write-lock.diff ([step_gen false]: load_from_data calls write_value directly, with
   no exclusion against the write loop).  Not part of any check verdict. *)
From QT Require Import C14.Spec.
Open Scope nat_scope.

(* a port being loaded at run time (persisted value 5) receives an API write (6) while its direct write is suspended in
   the driver: two driver writes in flight.  Replayed on the real code: corpus/C14/load-direct-write-overlap.json *)
Definition witness : list event :=
  [DirectStart 5; WriteSubmit 6 0 None; WriteTake 6 0; WriteStart 6]%Z.

Lemma C14_writes_exclusive_refuted :
  exists tr s, run_gen false 1024 init tr = Some s /\ writes_in_flight s = 2 /\ writes_exclusive tr = false.
Proof. exists witness. eexists. vm_compute. repeat split. Qed.

(* the fixed model refuses the last step *)
Lemma C14_witness_refused_after_fix : run 1024 init witness = None.
Proof. vm_compute. reflexivity. Qed.
