(* C18 — the CURRENT remove_samples under a driver whose removal suspends before it takes effect (asyncpg-style): the
   port's cache is invalidated BEFORE the removal, so a by-timestamp query that runs in between caches a pre-deletion
   answer into the fresh dict and every later query gets the deleted sample.  Not reachable with the drivers whose remove
   has no suspension point (JSON, Redis, MongoDB drivers are synchronous inside); candidate repair:
   fixes/C18-invalidate-after-removal.diff.  Built with the rest, never part of a verdict. *)
From QT Require Import C18.Spec C18.Interleave.
Open Scope Z_scope.

Definition cfg_r : config := {| cfg_ports := [(1, (KNum, false))]; cfg_min_age := 3600000; cfg_real_ms := 1546304400000 |}.
Definition st_r : state :=
  {| st_store := [(1, 1000, 6); (1, 2000, 10); (1, 3000, -15)]; st_cache := []; st_now := 1700000000000 |}.
Definition byts (l : list Z) : query :=
  {| q_from := QAbsent; q_to := QAbsent; q_limit := QAbsent; q_timestamps := Some (map QInt l) |}.
Definition del (f t : Z) : query := {| q_from := QInt f; q_to := QInt t; q_limit := QAbsent; q_timestamps := None |}.

(* DELETE starts (cache popped) and suspends before the removal; a by-timestamp query runs from start to end; the removal
   happens; the DELETE answers; the same query asked afterwards, alone, still gets the deleted sample (10, should be 6) *)
Lemma C18_delete_race_refuted :
  exists cfg st0 es p q k tss,
    st_cache st0 = [] /\ sched_okb cfg (istate_of st0) es = false /\
    let s := fst (irun cfg (istate_of st0) es) in
    i_fly s = [] /\
    abstract cfg (st_now (i_st s)) (ApiGet p q) = AByTimestamp p k tss
    /\ snd (istep cfg s (ISeq (ApiGet p q))) <> REntries (by_timestamp_spec (st_store (i_st s)) p k tss)
    /\ snd (istep cfg s (ISeq (ApiGet p q))) = REntries [Some (2500, VNum 10)]
    /\ by_timestamp_spec (st_store (i_st s)) p k tss = [Some (2500, VNum 6)].
Proof.
  exists cfg_r, st_r,
    [IStart 1 (ApiDelete 1 (del 2000 3000)); IStart 2 (ApiGet 1 (byts [2500])); IDriver 2; IFinish 2; IDriver 1; IFinish 1],
    1, (byts [2500]), KNum, [2500].
  vm_compute. repeat split; congruence.
Qed.
