(* C18 — remove_samples BEFORE 6506e34 ("invalidate the by-timestamp cache again after the samples were removed") under a
   driver whose removal suspends before it takes effect (asyncpg-style): the port's cache was invalidated only BEFORE the
   removal, so a by-timestamp query that ran in between cached a pre-deletion answer into the fresh dict and every later
   query got the deleted sample.  [ifinish_old] is Interleave.ifinish without the second invalidation.
   Built with the rest, never part of a verdict. *)
From QT Require Import C18.Spec C18.Interleave.
Open Scope Z_scope.

Definition ifinish_old (cfg : config) (s : istate) (id : Z) : istate * response :=
  match fly_get (i_fly s) id with
  | Some (FDelete p from to true) => (with_fly s (fly_drop (i_fly s) id), RDone)
  | _ => ifinish cfg s id
  end.

Definition istep_old (cfg : config) (s : istate) (e : ievent) : istate * response :=
  match e with IFinish id => ifinish_old cfg s id | _ => istep cfg s e end.

Fixpoint irun_old (cfg : config) (s : istate) (es : list ievent) : istate * list response :=
  match es with
  | [] => (s, [])
  | e :: rest => let '(s1, o) := istep_old cfg s e in let '(s2, os) := irun_old cfg s1 rest in (s2, o :: os)
  end.

Definition cfg_r : config := {| cfg_ports := [(1, (KNum, false))]; cfg_min_age := 3600000; cfg_real_ms := 1546304400000 |}.
Definition st_r : state :=
  {| st_store := [(1, 1000, 6); (1, 2000, 10); (1, 3000, -15)]; st_cache := []; st_now := 1700000000000 |}.
Definition byts (l : list Z) : query :=
  {| q_from := QAbsent; q_to := QAbsent; q_limit := QAbsent; q_timestamps := Some (map QInt l) |}.
Definition del (f t : Z) : query := {| q_from := QInt f; q_to := QInt t; q_limit := QAbsent; q_timestamps := None |}.

(* DELETE starts (cache popped) and suspends before the removal; a by-timestamp query runs from start to end; the removal
   happens; the DELETE answers; nothing is in flight any more, the schedule is admissible, and the same query asked alone
   still gets the deleted sample (10, should be 6).  With the second invalidation the answer is right
   (Props/C18.v, C18_overlap_nonvacuous, same schedule). *)
Lemma C18_delete_race_refuted :
  exists cfg st0 es p q k tss,
    st_cache st0 = [] /\ sched_okb cfg (istate_of st0) es = true /\
    let s := fst (irun_old cfg (istate_of st0) es) in
    i_fly s = [] /\
    abstract cfg (st_now (i_st s)) (ApiGet p q) = AByTimestamp p k tss
    /\ snd (istep_old cfg s (ISeq (ApiGet p q))) <> REntries (by_timestamp_spec (st_store (i_st s)) p k tss)
    /\ snd (istep_old cfg s (ISeq (ApiGet p q))) = REntries [Some (2500, VNum 10)]
    /\ by_timestamp_spec (st_store (i_st s)) p k tss = [Some (2500, VNum 6)].
Proof.
  exists cfg_r, st_r,
    [IStart 1 (ApiDelete 1 (del 2000 3000)); IStart 2 (ApiGet 1 (byts [2500])); IDriver 2; IFinish 2; IDriver 1; IFinish 1],
    1, (byts [2500]), KNum, [2500].
  vm_compute. repeat split; congruence.
Qed.
