(* C18 — refutation of the pre-fix behaviour of core/history.get_samples_by_timestamp (qtoggleserver before the commit
   proposed in fixes/C18-by-timestamp-order.diff): the entries are the items of a dict keyed by timestamp, so duplicates
   collapse and cached hits come before earlier misses.  Built with the rest, never part of a verdict. *)
From QT Require Import C18.Spec.
Open Scope Z_scope.

Definition cfg_old : config :=
  {| cfg_ports := [(1, (KNum, false))]; cfg_min_age := 3600000; cfg_real_ms := 1546304400000 |}.
Definition st_old : state :=
  {| st_store := [(1, 1000, 6); (1, 2000, 10); (1, 3000, -15)]; st_cache := []; st_now := 1700000000000 |}.
Definition byts (l : list Z) : query :=
  {| q_from := QAbsent; q_to := QAbsent; q_limit := QAbsent; q_timestamps := Some (map QInt l) |}.

(* timestamps=2500,1500,2500 on an empty cache: two entries instead of three *)
Lemma C18_by_timestamp_duplicates_refuted :
  exists cfg st p q k tss,
    st_cache st = [] /\ abstract cfg (st_now st) (ApiGet p q) = AByTimestamp p k tss
    /\ snd (step_gen EmitDictItems cfg st (ApiGet p q)) <> REntries (by_timestamp_spec (st_store st) p k tss)
    /\ snd (step_gen EmitDictItems cfg st (ApiGet p q)) = REntries [Some (2500, VNum 10); Some (1500, VNum 6)].
Proof.
  exists cfg_old, st_old, 1, (byts [2500; 1500; 2500]), KNum, [2500; 1500; 2500].
  vm_compute. repeat split; congruence.
Qed.

(* no duplicates needed: after timestamps=1500 was asked once, timestamps=500,2500,1500,2000 answers the cached 1500 first *)
Lemma C18_by_timestamp_order_refuted :
  exists cfg st0 rs p q k tss,
    st_cache st0 = [] /\ NoDup tss /\
    let st := fst (run_gen EmitDictItems cfg st0 rs) in
    abstract cfg (st_now st) (ApiGet p q) = AByTimestamp p k tss
    /\ snd (step_gen EmitDictItems cfg st (ApiGet p q)) <> REntries (by_timestamp_spec (st_store st) p k tss)
    /\ snd (step_gen EmitDictItems cfg st (ApiGet p q))
       = REntries [Some (1500, VNum 6); None; Some (2500, VNum 10); Some (2000, VNum 10)].
Proof.
  exists cfg_old, st_old, [ApiGet 1 (byts [1500])], 1, (byts [500; 2500; 1500; 2000]), KNum, [500; 2500; 1500; 2000].
  split; [reflexivity|]. split.
  - repeat constructor; cbn; intuition discriminate.
  - vm_compute. repeat split; congruence.
Qed.
