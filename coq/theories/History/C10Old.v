(* C10 — behaviour of /repo before fixes/C10-mask-pending-slave-passwords.diff (not part of any check verdict).

   Slave.to_json (GET /devices) and the intercepted GET /devices/<name>/forward/device returned Slave._cached_attrs as it
   is.  While a forwarded PATCH /device {"admin_password": p} waits to be provisioned to an offline slave (and after the
   provisioning, until the attributes are fetched again) the cache holds p itself, so the API answered the password. *)
From QT Require Import C10.Model.
Open Scope string_scope.

Definition slave_doc_pw_old (pending : option string) (slave_bit : string) : string :=
  match pending with Some p => p | None => slave_bit end.

(* witness replayed on the implementation: corpus/C10/slave-pending-password.json *)
Lemma C10_slave_doc_no_password_refuted :
  exists p bit, p <> "" /\ p <> "set" /\ slave_doc_pw_old (Some p) bit = p.
Proof. exists "slave-offline", "set". repeat split; discriminate. Qed.

(* the repaired definition never shows anything but the bit *)
Lemma slave_doc_pw_fixed_on_witness : slave_doc_pw (Some "slave-offline") "set" = "set".
Proof. reflexivity. Qed.
