(* C16 — the pause invariant is REFUTED when the argument of a pausing function itself depends on time
   (known finding {kind: pause, position: nested-time-dependent-argument}; not part of any verdict).

   The step functions of C16/Model.v compose: DELAY uses the fields _last_value/_current_value/_queue, HELD uses
   _start_time_ms/_state, so HELD(DELAY(p, d), x, dur) is a step function on the same state record.  As in the code,
   pause_asap_eval of the inner object writes the inner object's own field, which the hub never reads: the deadline the
   hub sees is the OUTER function's alone.  The outer pause assumes that its argument only changes when a port changes;
   the inner DELAY changes its output by the mere passage of time, so the paused expression misses it. *)
From QT Require Import C16.Spec C16.Lemmas.
Open Scope Z_scope.

(* HELD(DELAY(p, d), x, dur) with HELD's repaired pause; arguments [p; d; x; dur] *)
Definition held_of_delay (st : fstate) (now : Z) (a : list pyval) : step_result :=
  match a with
  | [p; d; x; dur] =>
      let '(st1, o1, _) := delay_step st now p d in          (* the inner pause is dropped: nobody reads it *)
      match o1 with
      | OVal v => held_step true st1 now v x dur
      | _ => (st1, o1, PNone)
      end
  | _ => bad_args st
  end.

(* p = 0 for five ticks of 100 ms, then 1 for ever; HELD(DELAY(p, 1000), 1, 2000).  Only ticks 0 and 5 see a port change. *)
Fixpoint nested_ticks (n : nat) (i : Z) : list tick :=
  match n with
  | O => []
  | S k => (1700000000000 + 100 * i, (i =? 0) || (i =? 5), [VInt (if i <? 5 then 0 else 1); VInt 1000; VInt 1; VInt 2000])
           :: nested_ticks k (i + 1)
  end.

(* well-formed ticks: positive times; "no dependency changed" means the arguments are those of the previous tick *)
Fixpoint ticks_wf (prev : option (list pyval)) (ts : list tick) : bool :=
  match ts with
  | [] => true
  | (now, changed, a) :: r =>
      (0 <? now)
      && (changed || match prev with Some a' => list_eqb pyval_eqb a a' | None => true end)
      && ticks_wf (Some a) r
  end.

(* gated by the hub's skip rule the port never turns true; evaluated on every tick DELAY delivers the 1 at tick 15 and
   HELD turns true at tick 35 *)
Lemma nested_pause_refuted :
  let ts := nested_ticks 65 0 in
  ticks_wf None ts = true
  /\ forallb (fun v => match v with Some (VBool false) => true | _ => false end) (run_with_pauses held_of_delay ts) = true
  /\ nth_error (run_every_tick held_of_delay ts) 34 = Some (Some (VBool false))
  /\ nth_error (run_every_tick held_of_delay ts) 35 = Some (Some (VBool true)).
Proof. vm_compute. repeat split; reflexivity. Qed.

Corollary nested_pause_invariant_fails :
  exists ts, ticks_wf None ts = true /\ run_with_pauses held_of_delay ts <> run_every_tick held_of_delay ts.
Proof.
  exists (nested_ticks 65 0). split; [vm_compute; reflexivity|]. vm_compute. discriminate.
Qed.
