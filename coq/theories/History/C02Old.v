(* C02 — refutation of the pre-fix SGN (it truncated with int() before taking the sign). *)
From QT Require Import Expr.Spec.
Open Scope Z_scope.
Open Scope string_scope.

Definition c0 : ctx := {| port_values := []; ports := []; now_ms := 0; self_id := None; self_last := None; transform_role := false |}.
Definition half : pyval := VFloat (S754_finite false 4503599627370496 (-53)).     (* 0.5 *)

Lemma SGN_old_refuted :
  exists e, eval true c0 e = Val (VInt 0) /\ sem c0 e = Val (VInt 1).
Proof. exists (Call "SGN" [Lit (Some half)]). vm_compute. split; reflexivity. Qed.
