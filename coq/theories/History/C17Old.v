(* C17 — refutation of the pre-fix BOW rule (qtoggleserver before commit "fix: BOW with a non-default first weekday...").
   Built with the rest, never part of a verdict. *)
From QT Require Import C17.Spec.
Open Scope Z_scope.

Lemma bow_back_old_refuted : exists wd s, 0 <= wd <= 6 /\ 0 <= s <= 6 /\ bow_back_old wd s <> (wd - s) mod 7.
Proof. exists 3, 1. vm_compute. repeat split; congruence. Qed.

(* Thursday 2024-05-16 12:00 UTC, BOW(0, 1): the old rule answers Tuesday 2024-05-07, nine days back *)
Lemma BOW_old_refuted :
  let off := fun _ : Z => 0 in
  exists ts n s u, 0 <= s <= 6 /\ BOW_gen off bow_back_old ts n s = Ok u /\ starts_local_day off u (BOW_day off ts n s) = false.
Proof. exists 1715860800, 0, 1, 1715040000. vm_compute. repeat split; congruence. Qed.
