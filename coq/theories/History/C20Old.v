(* C20 — the restore as it is in /repo before the two repairs (put_ports_gen unrepaired) does not have the property.
   Witnesses by vm_compute; both replayed on the real code (corpus/C20/*.json). *)
From QT Require Import C20.Lemmas C20.PortsThm C20.Example.
Open Scope string_scope.
Open Scope list_scope.
Open Scope Z_scope.

(* a valid backup is rejected because of what the target hub held: hw2's old expression reads hw1, the backup makes hw1 read
   hw2; port.reset() does not forget expressions, so the loop check sees a loop that neither configuration has *)
Lemma C20_old_rejects_valid_backup_refuted :
  exists E s1 s2, hub_ok E s1 /\ same_hardware s1 s2
    /\ exists h' err, put_ports_gen unrepaired E (map JObj (get_ports E s1)) s2 = (h', Some err)
                      /\ e_code err = "invalid-field" /\ e_id err = Some (JStr "hw1") /\ e_field err = Some "expression"
                      /\ map p_id (h_ports h') = ["hw2"; "hw1"].                      (* and the virtual ports are gone *)
Proof.
  exists ex_env, ex_src, ex_tgt. split; [exact ex_src_ok|]. split; [apply ex_same_hardware; now left|].
  eexists. eexists. split; [vm_compute; reflexivity|]. repeat split.
Qed.

(* an accepted restore loses a virtual port whose id starts with "<name of a slave>." *)
Lemma C20_old_drops_port_named_like_slave_refuted :
  exists E s1 s2 s2', hub_ok E s1 /\ same_hardware s1 s2
    /\ put_ports_gen unrepaired E (map JObj (get_ports E s1)) s2 = (s2', None)
    /\ ~ docs_equiv E (get_ports E s1) (get_ports E s2').
Proof.
  exists ex_env, ex_src, ex_tgt2. eexists. split; [exact ex_src_ok|]. split; [apply ex_same_hardware; now right|].
  split; [vm_compute; reflexivity|]. intro D. specialize (D "s1.x"). vm_compute in D. exact D.
Qed.

(* /devices: what GET answers for a device whose polling and listening were switched on by two separate PATCH requests (the
   request-level test in patch_slave_device looks at one request only) is refused by PUT /devices: the premise
   [slave_entry_ok] of C20_slaves_roundtrip_total is not something the unrepaired hub guarantees.  Replayed on the real code:
   corpus/C20/slave-polling-and-listening.json; repair: fixes/C20-slave-listening-and-polling.diff *)
From QT Require Import C20.AcceptThm.
Lemma C20_slave_polling_and_listening_backup_refused :
  exists reach s1 s2, (forall e, In e (sl_devices s1) -> strip_slave (slave_result reach e) = strip_slave e)
    /\ endpoints_distinct (sl_devices s1) = true
    /\ snd (put_slave_devices reach (get_slave_devices s1) s2) = Some (0, "listening-and-polling")
    /\ sl_devices (fst (put_slave_devices reach (get_slave_devices s1) s2)) = [].            (* and no device is left *)
Proof.
  exists (fun _ => None),
         {| sl_devices := [slave_json [("name", JStr "s1"); ("scheme", JStr "http"); ("host", JStr "10.0.0.1"); ("port", JNum 320);
                                       ("path", JStr "/"); ("admin_password_hash", JStr empty_hash); ("poll_interval", JNum 40);
                                       ("listen_enabled", JBool true); ("last_sync", JNum (-4)); ("attrs", JObj [])]];
            sl_updating := true; sl_events := true |},
         {| sl_devices := []; sl_updating := true; sl_events := true |}.
  split; [intros e [<-|[]]; reflexivity|]. vm_compute. repeat split.
Qed.

(* /devices: the unrepaired Slave kept `listen_enabled` as it was given - None when POST /devices {poll_interval: 30} did not state it -
   and GET /devices answered null; that entry fails the per-entry schema of PUT /devices (`listen_enabled` must be a boolean): the
   hub's own backup is refused and no device is left.  Replayed on the real code: corpus/C20/slave-polled-listen-not-stated.json;
   repair: fixes/C20-slave-listen-enabled-boolean.diff (the device keeps a boolean) *)
Lemma C20_old_slave_listen_null_backup_refused :
  let old_get_answer := [("enabled", JBool true); ("name", JStr "meter"); ("scheme", JStr "http"); ("host", JStr "meter.local");
                         ("port", JNum 320); ("path", JStr "/"); ("admin_password_hash", JStr empty_hash); ("poll_interval", JNum 120);
                         ("listen_enabled", JNull); ("last_sync", JNum (-4)); ("online", JBool false); ("provisioning", JList []);
                         ("attrs", JObj [("name", JStr "meter"); ("flags", JList [JStr "expressions"])])] in
  forall reach s2,
    snd (put_slave_devices reach [old_get_answer] s2) = Some (0, "invalid-field")
    /\ sl_devices (fst (put_slave_devices reach [old_get_answer] s2)) = [].
Proof. intros a reach s2. split; reflexivity. Qed.
