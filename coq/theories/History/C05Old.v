(* C05 — refutations of the code as first read (step test `(value - min_) % step` in binary floats, no guard against
   Infinity / NaN): findings F8 and F15.  Witnesses closed by vm_compute; each was replayed on the real patch_port_value
   (corpus/C05/*.json).  Built with the rest, never part of a verdict. *)
From QT Require Import C05.Spec C05.SpecThm.
Open Scope Z_scope.

Definition rules_old : rules := {| r_step := SBinary; r_finite_guard := false |}.
Definition rules_fixed : rules := {| r_step := SDecimal; r_finite_guard := true |}.

Definition f_0_1 : sf := S754_finite false 7205759403792794 (-56).     (* 0.1 *)
Definition f_0_3 : sf := S754_finite false 5404319552844595 (-54).     (* 0.3 *)
Definition f_1e16 : sf := S754_finite false 5000000000000000 1.        (* 1e16 *)

Definition number_port (mn mx st : option pyval) : portdef :=
  {| p_type := TNumber; p_min := mn; p_max := mx; p_integer := false; p_step := st; p_choices := None;
     p_transform := None; p_enabled := true; p_writable := true |}.

(* F8: min 0, step 0.1, value 0.3 — on the grid the user declared (0.3 = 3 * 0.1), refused by the binary float test;
   its binary reading refuses it too (fl(0.3) is not a multiple of fl(0.1)), which is what the code computes *)
Lemma C05_decimal_step_refuted :
  exists d j, accepts RDecimal (Some d) j /\ model_accepts rules_old (Some d) j = false.
Proof.
  exists (number_port (Some (VInt 0)) None (Some (VFloat f_0_1))), (JFloat f_0_3). split.
  - apply acceptsb_spec. vm_compute. reflexivity.
  - vm_compute. reflexivity.
Qed.

Lemma C05_decimal_step_binary_reading :
  ~ accepts RBinary (Some (number_port (Some (VInt 0)) None (Some (VFloat f_0_1)))) (JFloat f_0_3).
Proof. intro H. apply acceptsb_spec in H. vm_compute in H. discriminate H. Qed.

(* even the integer 3 is refused with step 0.1: 3 % 0.1 = 0.0999... *)
Lemma C05_decimal_step_refuted_int :
  accepts RDecimal (Some (number_port (Some (VInt 0)) None (Some (VFloat f_0_1)))) (JInt 3)
  /\ model_accepts rules_old (Some (number_port (Some (VInt 0)) None (Some (VFloat f_0_1)))) (JInt 3) = false.
Proof. split; [apply acceptsb_spec; vm_compute; reflexivity|vm_compute; reflexivity]. Qed.

(* the opposite error: min 1, step 5, value 1e16 is off the grid under both readings, the float subtraction 1e16 - 1
   rounds back to 1e16 and the binary test accepts it *)
Lemma C05_off_grid_accepted_refuted :
  let d := number_port (Some (VInt 1)) None (Some (VInt 5)) in
  model_accepts rules_old (Some d) (JFloat f_1e16) = true
  /\ ~ accepts RDecimal (Some d) (JFloat f_1e16) /\ ~ accepts RBinary (Some d) (JFloat f_1e16).
Proof.
  split; [vm_compute; reflexivity|].
  split; intro H; apply acceptsb_spec in H; vm_compute in H; discriminate H.
Qed.

(* F15: NaN passes minimum 0 / maximum 100 (every comparison with NaN is false) and reaches the driver *)
Lemma C05_nan_accepted_refuted :
  let d := number_port (Some (VInt 0)) (Some (VInt 100)) None in
  patch_value rules_old (Some d) (JFloat S754_nan) = (Accepted, [DriverWrite (Some (VFloat S754_nan))])
  /\ forall r, ~ accepts r (Some d) (JFloat S754_nan).
Proof.
  split; [vm_compute; reflexivity|].
  intros r H. apply acceptsb_spec in H. destruct r; vm_compute in H; discriminate H.
Qed.

(* the fixed rules decide all four correctly *)
Lemma C05_fixed_rules_on_the_witnesses :
  model_accepts rules_fixed (Some (number_port (Some (VInt 0)) None (Some (VFloat f_0_1)))) (JFloat f_0_3) = true
  /\ model_accepts rules_fixed (Some (number_port (Some (VInt 0)) None (Some (VFloat f_0_1)))) (JInt 3) = true
  /\ model_accepts rules_fixed (Some (number_port (Some (VInt 1)) None (Some (VInt 5)))) (JFloat f_1e16) = false
  /\ model_accepts rules_fixed (Some (number_port (Some (VInt 0)) (Some (VInt 100)) None)) (JFloat S754_nan) = false.
Proof. vm_compute. repeat split; reflexivity. Qed.
