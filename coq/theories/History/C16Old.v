(* C16 — refutation of the pause invariant for the pre-fix HELD (qtoggleserver before "fix: HELD pauses until its
   deadline while waiting").  In state WAITING every evaluation called pause_asap_eval() with no deadline, so an
   evaluation before the deadline (triggered by a change of the input that still matches) paused the expression for ever
   and a top-level HELD never turned true.  Built with the rest, never part of a verdict. *)
From QT Require Import C16.Spec C16.Lemmas C16.PauseThm.
From Coq Require Import Lia.
Open Scope Z_scope.

Definition held_old := fstep_gen false HELD.

(* minimal witness: the input matches at t, "changes" (still matching) at t+400, and nothing changes afterwards *)
Definition w3 : list tick :=
  [ (1700000000000, true,  [VInt 1; VInt 1; VInt 1000]);
    (1700000000400, true,  [VInt 1; VInt 1; VInt 1000]);
    (1700000001000, false, [VInt 1; VInt 1; VInt 1000]) ].

Lemma HELD_pause_refuted :
  exists ts, ticks_ok HELD None ts /\ run_with_pauses held_old ts <> run_every_tick held_old ts.
Proof.
  exists w3. split.
  - cbn [w3 ticks_ok]. repeat split; try lia; try reflexivity; intros; try discriminate; reflexivity.
  - vm_compute. discriminate.
Qed.

(* the repaired step function agrees on the same witness *)
Lemma HELD_witness_fixed : run_with_pauses (fstep_gen true HELD) w3 = run_every_tick (fstep_gen true HELD) w3.
Proof. vm_compute. reflexivity. Qed.

(* the witness of DESIGN.md F6: HELD(GT($t,20),1,2000), t = 19,19,21,21,21,22,22,... at 100 ms ticks (65 ticks).
   The value argument is GT($t,20); the port changes (21 -> 22) at tick 5 while the argument stays 1. *)
Fixpoint design_ticks (n : nat) (i : Z) : list tick :=
  match n with
  | O => []
  | S k =>
      (1700000000000 + 100 * i, (i =? 0) || (i =? 2) || (i =? 5), [VInt (if i <? 2 then 0 else 1); VInt 1; VInt 2000])
      :: design_ticks k (i + 1)
  end.

Lemma HELD_pause_refuted_design_witness :
  let ts := design_ticks 65 0 in
  forallb (fun v => match v with Some (VBool false) => true | _ => false end) (run_with_pauses held_old ts) = true
  /\ nth_error (run_every_tick held_old ts) 21 = Some (Some (VBool false))
  /\ nth_error (run_every_tick held_old ts) 22 = Some (Some (VBool true))
  /\ run_with_pauses (fstep_gen true HELD) ts = run_every_tick (fstep_gen true HELD) ts.
Proof. vm_compute. repeat split; reflexivity. Qed.
