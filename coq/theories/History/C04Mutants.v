(* C04 — not pre-fix history (no defect was found in check_loops) but the same kind of artefact: variants of check_loops that
   differ from the code by one realistic edit, each refuted against the specification by a concrete witness (vm_compute +
   the reflection theorems of SpecThm.v).  These are the seeded changes listed in notes/C04.md; bin/check C04 finds the same
   witnesses on a worktree that carries the edit.  Not part of any check verdict. *)
From QT Require Import C04.Spec C04.SpecThm C04.ParThm.
Open Scope string_scope.
Open Scope list_scope.
Open Scope nat_scope.

Section Mutant.
  Variable threshold : nat.        (* the code: 1   (`level > 1`) *)
  Variable final : nat.            (* the code: 1   (`check_loops_rec(1, expression) > 1`) *)
  Variable first_only : bool.      (* the code: false (all of e.args are walked) *)
  Variable self_stops : bool.      (* the code: false; true = `if port is p: return level` without the level test *)

  Section Walk.
    Variable descend : nat -> string -> expr -> list string -> nat * list string.
    Variable g : graph.
    Variable p : string.

    Definition visit_m (level : nat) (q : string) (seen : list string) : nat * list string :=
      match lookup g q with
      | None => (0, seen)
      | Some oe =>
          if String.eqb q p && (self_stops || Nat.ltb threshold level) then (level, seen)
          else if mem q seen then (0, seen)
          else match oe with
               | None => (0, q :: seen)
               | Some e' => descend (S level) q e' (q :: seen)
               end
      end.

    Fixpoint walk_m (level : nat) (owner : string) (e : expr) (seen : list string) : nat * list string :=
      match e with
      | PortVal q => visit_m level q seen
      | SelfVal => visit_m level owner seen
      | Call _ args =>
          if first_only then match args with [] => (0, seen) | a :: _ => walk_m level owner a seen end
          else walk_list (walk_m level owner) args seen
      | _ => (0, seen)
      end.
  End Walk.

  Fixpoint rec_m (fuel : nat) (g : graph) (p : string) (level : nat) (owner : string) (e : expr) (seen : list string) :=
    match fuel with
    | O => (0, seen)
    | S f => walk_m (rec_m f g p) g p level owner e seen
    end.

  Definition check_loops_m (g : graph) (p : string) (e : expr) : bool :=
    Nat.ltb final (fst (rec_m (S (length g)) g p 1 p e [p])).
End Mutant.

(* the parameters of the real code give the real model (on the witnesses used below, and on the non-vacuity examples) *)
Definition two : graph := [("a", Some (PortVal "b")); ("b", None)].

Example real_parameters_agree :
  map (fun e => check_loops_m 1 1 false false two "b" e) [PortVal "a"; Call "IF" [Lit None; Lit None; PortVal "a"]; Call "MAX" [SelfVal; PortVal "a"]; SelfVal]
  = map (check_loops two "b") [PortVal "a"; Call "IF" [Lit None; Lit None; PortVal "a"]; Call "MAX" [SelfVal; PortVal "a"]; SelfVal].
Proof. vm_compute. reflexivity. Qed.

(* `level > 1` -> `level > 2`: two-port cycles are installed *)
Lemma mutant_level_gt_2_refuted :
  exists g p e, closes_cycle g p e /\ check_loops_m 2 1 false false g p e = false.
Proof.
  exists two, "b", (PortVal "a"). split; [apply closes_cycle_b_spec|]; vm_compute; reflexivity.
Qed.

(* only the first argument of a function is walked *)
Lemma mutant_first_argument_only_refuted :
  exists g p e, closes_cycle g p e /\ check_loops_m 1 1 true false g p e = false.
Proof.
  exists two, "b", (Call "IF" [Lit None; Lit None; PortVal "a"]). split; [apply closes_cycle_b_spec|]; vm_compute; reflexivity.
Qed.

(* the level test dropped from `if port is p and level > 1: return level`: a `$` at level 1 returns 1, which ends the walk of
   the remaining arguments without raising *)
Lemma mutant_self_reference_stops_walk_refuted :
  exists g p e, closes_cycle g p e /\ check_loops_m 1 1 false true g p e = false.
Proof.
  exists two, "b", (Call "MAX" [SelfVal; PortVal "a"]). split; [apply closes_cycle_b_spec|]; vm_compute; reflexivity.
Qed.

(* `> 1` -> `>= 1` in both places: a port may no longer refer to itself (false rejection) *)
Lemma mutant_level_ge_1_refuted :
  exists g p e, ~ closes_cycle g p e /\ check_loops_m 0 0 false false g p e = true.
Proof.
  exists two, "b", SelfVal. split; [|vm_compute; reflexivity].
  intros H. apply closes_cycle_b_spec in H. vm_compute in H. discriminate.
Qed.

(* a suspension point between check_loops and the store (gap = 1; e.g. `await self._sequence.cancel()` moved after the check):
   two requests in flight, each checked before the other one's store, close a cycle together *)
Lemma mutant_await_between_check_and_store_refuted :
  exists g ts sched, quiet ts /\ acyclic_distinct g /\ ~ acyclic_distinct (fst (run_sched 1 g ts sched)).
Proof.
  exists [("a", None); ("b", None)],
         [(OSet "a" (TExpr (PortVal "b")), Pre 0); (OSet "b" (TExpr (PortVal "a")), Pre 0)],
         [0; 1; 0; 1].
  split; [repeat constructor|]. split.
  - apply acyclic_b_spec. vm_compute. reflexivity.
  - intros H. apply acyclic_b_spec in H. vm_compute in H. discriminate.
Qed.
