(* C11 — refutation of level safety for Session.reset_and_wait as it was before fixes/C11-filter-queue-on-listen.diff
   (the level is rebound, then the call is answered from the queue filled under the previous, higher level).
   Built with the rest, never part of a verdict.  Self-contained: table snapshot below, program [reset_old]. *)
From QT Require Import C11.Model C11.Spec.
Open Scope Z_scope.

Definition old_table : list evclass := [
  mk_evclass "port-add" 10 DupNever; mk_evclass "port-remove" 10 DupNever; mk_evclass "port-update" 10 DupSameClassObj;
  mk_evclass "value-change" 10 DupNever; mk_evclass "device-update" 30 DupSameClass; mk_evclass "full-update" 10 DupSameClass;
  mk_evclass "slave-device-add" 30 DupNever; mk_evclass "slave-device-remove" 30 DupNever;
  mk_evclass "slave-device-update" 30 DupSameClassObj].

(* an admin listens on session 1 and is answered (keep-alive) at the first tick after its 1 s timeout; a device-update
   (admin only) is queued for the session; a view-only caller listens with the same session id and receives it *)
Definition old_witness : list event := [Listen 1 30 1 0; Tick 2; Trigger 4 0; Listen 1 10 1 2].

Lemma C11_level_safety_old_refuted :
  exists tr, ~ level_safe old_table tr (snd (run old_table reset_old 10 1024 tr)).
Proof.
  exists old_witness. intro H.
  destruct (H (mk_out 3 3 [mk_ev 2 4 0]) (mk_ev 2 4 0)) as [l [Hl Hle]].
  - vm_compute. right. left. reflexivity.
  - left. reflexivity.
  - vm_compute in Hl. inversion Hl; subst l. vm_compute in Hle. apply Hle. reflexivity.
Qed.

(* the same run contradicts the specified delivery (the view-only call must keep waiting) *)
Lemma C11_delivery_old_refuted :
  exists tr sid, outputs_of tr sid (snd (run old_table reset_old 10 1024 tr)) <> spec_delivery old_table 1024 sid tr.
Proof. exists old_witness, 1. vm_compute. discriminate. Qed.

(* with the queue filtered when the level is rebound, the witness is answered as specified *)
Lemma C11_witness_fixed :
  outputs_of old_witness 1 (snd (run old_table reset_fixed 10 1024 old_witness)) = spec_delivery old_table 1024 1 old_witness.
Proof. vm_compute. reflexivity. Qed.
