(* C15 — refutation of the behaviour before fixes/C15-contain-value-change-handling.diff: in core/main.py
   handle_value_changes() the calls port.is_internal() / port.is_persisted() of a *changed* port were not guarded.  An
   exception from a port's attribute getter (a slave port overrides is_persisted; any driver may define attr_is_internal)
   aborted the rest of handle_value_changes and of main.update(): the value-change events of the changed ports that come later
   in the iteration of the changed set were lost, and NO expression was re-evaluated for that pass -- although the new last
   values had already been stored, so the next pass sees no change either.  Built with the rest, never part of a verdict.

   The iteration order of the changed set (a Python set of port objects) is unspecified; here it is the port order, which is
   one of the possible orders.  Replayed on the real code: corpus/C15/attr-getter-aborts-pass.json. *)
From QT Require Import C15.Spec.
Open Scope Z_scope.

Section Old.
  Variable eid : Type.
  Variable fdeps : eid -> list pid.
  Variable feval : eid -> (pid -> option value) -> eres.

  (* value-change events up to the first changed port whose attribute getter raises *)
  Fixpoint change_obs_old (outs : list (pid * pout)) (ch : list (port eid)) : list obs * bool :=
    match ch with
    | [] => ([], false)
    | p :: r =>
        if po_attr (out_of outs (p_id p)) then ([], true)
        else let '(o, ab) := change_obs_old outs r in
             ((if p_internal p then [] else [OChange (p_id p) (p_last p) (p_drv p)]) ++ o, ab)
    end.

  Definition pass_st_old (st : state eid) (outs : list (pid * pout)) : state eid :=
    if snd (change_obs_old outs (pass_changed eid st outs))
    then mkState (pass_polled eid st outs) (st_now st) (st_now st / 1000)        (* aborted: nothing is pushed *)
    else pass_st eid fdeps feval st outs.

  Definition pass_obs_old (st : state eid) (outs : list (pid * pout)) : list obs :=
    let '(o, ab) := change_obs_old outs (pass_changed eid st outs) in
    flat_map (poll_obs (second_changed st) (st_now st)) (st_ports st) ++ o
    ++ (if ab then [] else flat_map (push_obs eid fdeps (map p_id (pass_changed eid st outs))) (pass_polled eid st outs)).

  Definition step_st_old (st : state eid) (ev : event) : state eid :=
    match ev with Pass outs => pass_st_old st outs | _ => step_st eid fdeps feval st ev end.
  Definition step_obs_old (st : state eid) (ev : event) : list obs :=
    match ev with Pass outs => pass_obs_old st outs | _ => step_obs eid fdeps st ev end.

  Fixpoint run_st_old (st : state eid) (tr : list event) : state eid :=
    match tr with [] => st | ev :: r => run_st_old (step_st_old st ev) r end.
  Fixpoint run_obs_old (st : state eid) (tr : list event) : list obs :=
    match tr with [] => [] | ev :: r => step_obs_old st ev ++ run_obs_old (step_st_old st ev) r end.
  Definition run_old (st : state eid) (tr : list event) := (run_st_old st tr, run_obs_old st tr).
End Old.

(* port 1: the failing port (its attribute getter raises); port 2: a healthy source; port 3: healthy, follows `$2` *)
Definition old_ports : list (port cexpr) :=
  [ mkPort 1 true false None (Some 1) (Some 1) None [];
    mkPort 2 true false None (Some 1) (Some 1) None [];
    mkPort 3 true false (Some (CPort 2)) (Some 1) (Some 1) None [] ].
Definition old_st : state cexpr := mkState old_ports 1700000000000 1700000000.
Definition old_tr : list event :=
  [ SourceSet 1 (Some 2); SourceSet 2 (Some 5); Advance 1000; Pass [(1, mkPout false RVal true)]; Advance 1000; Pass [] ].
Definition old_H : pid -> bool := fun x => mem x [2; 3].

Lemma C15_attr_getter_refuted :
  exists (H : pid -> bool) (st : state cexpr) (tr : list event),
    deps_closedb cdeps H (st_ports st) = true
    /\ project H (run_old cexpr cdeps ceval st tr) <> run_old cexpr cdeps ceval (proj_state H st) (erase_faulty H tr)
    (* with the failing port: the healthy port's value-change event is lost and its follower is never evaluated *)
    /\ proj_obs H (run_obs_old cexpr cdeps ceval st tr) = [OHb 2; ORead 2; OHb 3; ORead 3; OHb 2; ORead 2; OHb 3; ORead 3]
    (* without it *)
    /\ run_obs_old cexpr cdeps ceval (proj_state H st) (erase_faulty H tr)
       = [OHb 2; ORead 2; OHb 3; ORead 3; OChange 2 (Some 1) (Some 5); OPush 3; OHb 2; ORead 2; OHb 3; ORead 3].
Proof.
  exists old_H, old_st, old_tr. vm_compute. repeat split; congruence.
Qed.
