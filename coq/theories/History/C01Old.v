(* C01 — refutation of the pre-fix behaviour: without a refresh after its own write, the evaluation task compares the next
   result with a stale last-read value.  Ports: p0 source x, p1 follower with expression $p0.
   x: 1 -> 2, evaluated and written (slow write); x back to 1 detected while the write is in flight; the write completes and the
   queued snapshot (x = 1) is evaluated BEFORE any pass re-reads p1: 1 == last_read(p1) (stale) -> no write.  Quiescent, p1 = 2. *)
From QT Require Import C01.Run.
Open Scope Z_scope.

Definition e_follow : expr := PortVal "p0".

Definition witness : list (event Z expr) :=
  [SetExpr 1%nat e_follow;
   PassBegin; PassRead 0%nat; PassRead 1%nat; PassEnd; Eval 1%nat;                 (* forced evaluation: 1 = 1, nothing to do *)
   SourceSet 0%nat (Some 2);
   PassBegin; PassRead 0%nat; PassRead 1%nat; PassEnd; Eval 1%nat;                 (* x = 2 detected; write of 2 submitted *)
   SourceSet 0%nat (Some 1);
   PassBegin; PassRead 0%nat; PassRead 1%nat; PassEnd;                             (* x = 1 detected; snapshot queued behind the write *)
   WriteEnd 1%nat;                                                                 (* the driver now holds 2 *)
   Eval 1%nat;                                                                     (* stale compare: 1 = last_read = 1 -> no write *)
   PassBegin; PassRead 0%nat; PassRead 1%nat; PassEnd].                            (* p1 reads back 2; nothing depends on p1 *)

Lemma C01_old_refuted_b :
  match hrun false true false [0%nat; 1%nat] (init [Some 1; Some 1]) witness with
  | Some s => quiescent_b s && negb (follows_b s 1%nat)
  | None => false
  end = true.
Proof. vm_compute. reflexivity. Qed.

Lemma C01_old_refuted :
  exists s, hrun false true false [0%nat; 1%nat] (init [Some 1; Some 1]) witness = Some s
            /\ quiescent_b s = true /\ follows_b s 1%nat = false.
Proof.
  pose proof C01_old_refuted_b as H.
  destruct (hrun false true false [0%nat; 1%nat] (init [Some 1; Some 1]) witness) as [s|]; [|discriminate].
  exists s. apply andb_true_iff in H. destruct H as [H1 H2]. apply negb_true_iff in H2. repeat split; assumption.
Qed.

(* the same trace is refused by the model of the fixed code: the evaluation task is still refreshing *)
Lemma C01_witness_refused_when_fixed : hrun true true false [0%nat; 1%nat] (init [Some 1; Some 1]) witness = None.
Proof. vm_compute. reflexivity. Qed.

(* enable() that does not force the evaluation of all expressions: s = ADD($p0, $p1); disable p0; p1: 1 -> 9; enable p0:
   the expression of p2 is never evaluated again *)
Definition e_add : expr := Call "ADD" [PortVal "p0"; PortVal "p1"].
Definition witness_enable : list (event Z expr) :=
  [SetExpr 2%nat e_add;
   PassBegin; PassRead 0%nat; PassRead 1%nat; PassRead 2%nat; PassEnd; Eval 2%nat; WriteEnd 2%nat;
   PassBegin; PassRead 0%nat; PassRead 1%nat; PassRead 2%nat; PassEnd;
   Disable 0%nat;
   SourceSet 1%nat (Some 9);
   PassBegin; PassSkip 0%nat; PassRead 1%nat; PassRead 2%nat; PassEnd; Eval 2%nat;       (* $p0 is disabled: evaluation error *)
   Enable 0%nat;
   PassBegin; PassRead 0%nat; PassRead 1%nat; PassRead 2%nat; PassEnd].

Lemma C01_enable_old_refuted_b :
  match hrun true false true [0%nat; 1%nat; 2%nat] (init [Some 5; Some 1; Some 0]) witness_enable with
  | Some s => quiescent_b s && negb (follows_b s 2%nat)
  | None => false
  end = true.
Proof. vm_compute. reflexivity. Qed.

(* The premise "a port is disabled at rest" of C01_convergence is necessary, and the code really violates the property without
   it (known finding): p1 = $p0 is disabled while its own write is in flight, skipped by the refreshing pass, and enabled again
   during a pass after its turn; the forced evaluation then compares with a stale last read value. Model of the CURRENT code. *)
Definition witness_disable_busy : list (event Z expr) :=
  [SetExpr 1%nat e_follow;
   PassBegin; PassRead 0%nat; PassRead 1%nat; PassEnd; Eval 1%nat;
   SourceSet 0%nat (Some 2);
   PassBegin; PassRead 0%nat; PassRead 1%nat; PassEnd; Eval 1%nat;            (* write of 2 submitted *)
   Disable 1%nat;                                                              (* not at rest: the write is in flight *)
   WriteEnd 1%nat;
   PassBegin; PassRead 0%nat; PassSkip 1%nat; PassEnd;                         (* the refreshing pass skips the disabled port *)
   SourceSet 0%nat (Some 1);
   PassBegin; PassRead 0%nat; PassSkip 1%nat; Enable 1%nat; PassEnd;           (* enabled after its turn: forced evaluation pushed *)
   Eval 1%nat;                                                                 (* 1 = stale last read value: no write *)
   PassBegin; PassRead 0%nat; PassRead 1%nat; PassEnd].

Lemma C01_disable_busy_refuted_b :
  match hrun true true true [0%nat; 1%nat] (init [Some 1; Some 1]) witness_disable_busy with
  | Some s => quiescent_b s && negb (follows_b s 1%nat)
  | None => false
  end = true.
Proof. vm_compute. reflexivity. Qed.

(* disable() that does not force the evaluation of all expressions (the code before the fix "disabling a port did not
   re-evaluate the expressions reading it"; [disable_forces_all = false]): p1 = DEFAULT($p0, 1) follows p0 = 5; p0 is disabled,
   at rest; no value changed, so no pass ever evaluates the expression of p1 again: the hub is quiescent with p1 = 5, while
   the expression is worth 1 now ($p0 is an error, which DEFAULT catches).  The premise [disable_forces_all = true] of
   C01_convergence is necessary. *)
Definition e_default : expr := Call "DEFAULT" [PortVal "p0"; Lit (Some (VInt 1))].
Definition witness_disable : list (event Z expr) :=
  [SetExpr 1%nat e_default;
   PassBegin; PassRead 0%nat; PassRead 1%nat; PassEnd; Eval 1%nat;                 (* forced evaluation: 5 = 5, nothing to do *)
   Disable 0%nat;
   PassBegin; PassSkip 0%nat; PassRead 1%nat; PassEnd].                            (* nothing changed, nothing forced *)

Lemma C01_disable_old_refuted_b :
  match hrun true true false [0%nat; 1%nat] (init [Some 5; Some 5]) witness_disable with
  | Some s => quiescent_b s && negb (follows_b s 1%nat)
  | None => false
  end = true.
Proof. vm_compute. reflexivity. Qed.

Lemma C01_disable_old_refuted :
  exists s, hrun true true false [0%nat; 1%nat] (init [Some 5; Some 5]) witness_disable = Some s
            /\ quiescent_b s = true /\ follows_b s 1%nat = false.
Proof.
  pose proof C01_disable_old_refuted_b as H.
  destruct (hrun true true false [0%nat; 1%nat] (init [Some 5; Some 5]) witness_disable) as [s|]; [|discriminate].
  exists s. apply andb_true_iff in H. destruct H as [H1 H2]. apply negb_true_iff in H2. repeat split; assumption.
Qed.

(* the model of the fixed code is not at rest after the same trace (the pass that follows disable() queued an evaluation for
   p1); it goes on: evaluation over the live flags gives 1, written, read back — quiescent, p1 holds 1 and follows (this is
   also the non-vacuity witness of C01_convergence for an expression that reads a disabled port) *)
Lemma C01_disable_witness_not_at_rest_when_fixed :
  match hrun true true true [0%nat; 1%nat] (init [Some 5; Some 5]) witness_disable with
  | Some s => negb (quiescent_b s)
  | None => false
  end = true.
Proof. vm_compute. reflexivity. Qed.

Lemma C01_disable_followed_when_fixed :
  match hrun true true true [0%nat; 1%nat] (init [Some 5; Some 5])
             (witness_disable ++ [Eval 1%nat; WriteEnd 1%nat; PassBegin; PassSkip 0%nat; PassRead 1%nat; PassEnd]) with
  | Some s => quiescent_b s && follows_b s 1%nat && veqb (src (Hub.ports s 1%nat)) (Some 1)
  | None => false
  end = true.
Proof. vm_compute. reflexivity. Qed.

(* Before the fix "disabling a port did not re-evaluate the expressions reading it": the state the real hub reported at rest
   after  p1 := DEFAULT($p0, 1); p2 := AVAILABLE($p0); disable p0  (p1 still 0, p2 still true) contradicts the specification
   of the typed stream; the state it reports now does not. *)
From QT Require Import C01.RichRun.
Open Scope string_scope.
Definition disable_exprs : list (string * expr * option expr) :=
  [("p1", Call "DEFAULT" [PortVal "p0"; Lit (Some (VInt 1))], None); ("p2", Call "AVAILABLE" [PortVal "p0"], None)].
Lemma C01_disable_not_followed_old :
  rich_case ([("p0", KInt, false, Some (VInt 0)); ("p1", KInt, true, Some (VInt 0)); ("p2", KBool, true, Some (VBool true))],
             disable_exprs) = false.
Proof. vm_compute. reflexivity. Qed.
Lemma C01_disable_followed_now :
  rich_case ([("p0", KInt, false, Some (VInt 0)); ("p1", KInt, true, Some (VInt 1)); ("p2", KBool, true, Some (VBool false))],
             disable_exprs) = true.
Proof. vm_compute. reflexivity. Qed.
