(* C06 — refutations about the behaviour of qtoggleserver at the snapshot (before the proposed repairs
   fixes/C06-*.diff).  Built with the rest, never part of a verdict.  Every witness was replayed on the real drivers. *)
From QT Require Import C06.RefStore C06.JsonStr C06.JsonDriver C06.RedisDriver C06.JsonStrThm.
Open Scope Z_scope.

Definition s_ (x : list Z) : str := x.
Definition PORTS : str := [112].                  (* collection "p" *)
Definition F_S : str := [115].                    (* field "s" *)
Definition F_N : str := [110].                    (* field "n" *)
Definition F_Z : str := [122].                    (* field "z" *)
Definition ONE : str := [49].                     (* id "1" *)
Definition AQB : str := [97; 34; 98].             (* a"b *)

(* utils/json.py:dumps returns '"' + s + '"' for a str: a"b is written as "a"b", which is not one string literal *)
Lemma C06_fastpath_refuted : exists s : str, Forall scalar_cp s /\ read_str (dumps_fast s) <> Some s.
Proof. exact fastpath_refuted. Qed.

Lemma C06_codec_refuted : ~ (forall v, from_db (to_db true v) = Some v).
Proof. intro H. specialize (H (JStr AQB)). vm_compute in H. discriminate. Qed.

(* Redis driver at the snapshot (fast = true): insert {"s": "a\"b"} then query everything -> JSONDecodeError *)
Definition ops_str : list op := [Insert PORTS None [(F_S, JStr AQB)]; Query PORTS None [] [] None].

Lemma C06_redis_string_refuted :
  let outs := redis_run true false rempty (map (fun o => (o, None)) ops_str) in
  outs = [OId ONE; OErr] /\ ref_outs [] (with_choices ops_str outs) = [OId ONE; ORecs [[(ID, JStr ONE); (F_S, JStr AQB)]]].
Proof. vm_compute. split; reflexivity. Qed.

(* JSON driver at the snapshot: update() by id ignores the other criteria *)
Definition ops_upd : list op :=
  [Insert PORTS None [(F_N, JInt 1)]; Update PORTS [(F_Z, JInt 9)] [(ID, FEq (JStr ONE)); (F_N, FEq (JInt 5))]].

Lemma C06_json_update_by_id_refuted :
  let outs := json_run false [] ops_upd in
  outs = [OId ONE; OCount 1] /\ ref_outs [] (with_choices ops_upd outs) = [OId ONE; OCount 0].
Proof. vm_compute. split; reflexivity. Qed.

(* Redis driver at the snapshot (fx = false): remove() by id with a criterion that fails reports 0 removed records,
   yet the id leaves the set and the record disappears from every later query *)
Definition ops_rem : list op :=
  [Insert PORTS None [(F_N, JInt 1)]; Remove PORTS [(ID, FEq (JStr ONE)); (F_N, FEq (JInt 5))]; Query PORTS None [] [] None].

Lemma C06_redis_remove_by_id_refuted :
  let outs := redis_run false false rempty (map (fun o => (o, None)) ops_rem) in
  outs = [OId ONE; OCount 0; ORecs []]
  /\ ref_outs [] (with_choices ops_rem outs) = [OId ONE; OCount 0; ORecs [[(ID, JStr ONE); (F_N, JInt 1)]]].
Proof. vm_compute. split; reflexivity. Qed.

(* Redis driver at the snapshot (fx = false): a record without fields cannot be found by its id *)
Definition ops_empty : list op := [Insert PORTS None []; Query PORTS None [(ID, FEq (JStr ONE))] [] None].

Lemma C06_redis_empty_record_refuted :
  let outs := redis_run false false rempty (map (fun o => (o, None)) ops_empty) in
  outs = [OId ONE; ORecs []] /\ ref_outs [] (with_choices ops_empty outs) = [OId ONE; ORecs [[(ID, JStr ONE)]]].
Proof. vm_compute. split; reflexivity. Qed.

(* ... and the repaired models agree with the reference on the same witnesses *)
Lemma C06_witnesses_repaired :
  (let outs := redis_run false true rempty (map (fun o => (o, None)) ops_str) in ref_outs [] (with_choices ops_str outs) = outs)
  /\ (let outs := json_run true [] ops_upd in ref_outs [] (with_choices ops_upd outs) = outs)
  /\ (let outs := redis_run false true rempty (map (fun o => (o, None)) ops_rem) in ref_outs [] (with_choices ops_rem outs) = outs)
  /\ (let outs := redis_run false true rempty (map (fun o => (o, None)) ops_empty) in ref_outs [] (with_choices ops_empty outs) = outs).
Proof. vm_compute. repeat split; reflexivity. Qed.
