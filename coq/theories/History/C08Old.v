(* C08 — refutation of the pre-fix JSON driver (qtoggleserver before "fix: JSON persistence driver: make saving atomic ...").
   save_prog_old / load_prog_old are what harness/translate/saveprog.py emits for the unfixed _save / _load:
   rename data -> backup, then create the data file and write it in place; a missing or empty data file loads as the
   empty store; the backup is only consulted when the data file does not parse, and is opened without an existence test.
   Built with the rest, never part of a verdict.  Witnesses use the toy serialiser (n = brace, n ones, brace; 0 = empty store);
   each was replayed against the real driver (notes/C08.md, corpus/C08). *)
From QT Require Import C08.Spec C08.Check C08.Oper C08.Framing C08.FramingThm.

Definition save_prog_old : list op := [
  OSkipUnless (CAnd CFlag (CExists FData)) 1;
  ORename FData FBackup;
  OCreate FData;
  OWrite FData;
  OClose FData].

Definition load_prog_old : lprog :=
  let backup := LIfFlag (LIfExists FBackup (LParse FBackup LRaise) LRaise) LRaise in
  LIfExists FData (LIfEmpty FData LRetEmpty (LIfExists FData (LParse FData backup) backup)) LRetEmpty.

Lemma C08_old_check_refuted : check_all save_prog_old load_prog_old = false.
Proof. vm_compute. reflexivity. Qed.

(* second save (3 over 2), process dies right after os.rename(data, backup): no data file -> the store restarts EMPTY *)
Lemma C08_old_empty_after_backup_rename_refuted :
  exists (pre post : nat) (s s' : fs bytes),
    holds nat toy_ser O true pre s
    /\ In s' (crash_states_c (toy_ser post) true save_prog_old 0 s)
    /\ load_c nat toy_parse O true load_prog_old s' = LOk O /\ pre <> O /\ post <> O.
Proof.
  exists 2%nat, 3%nat, (mkfs (Some (toy_ser 2)) None None), (mkfs None (Some (toy_ser 2)) None).
  split; [left; reflexivity|]. split; [vm_compute; auto 10|]. split; [vm_compute; reflexivity|]. split; discriminate.
Qed.

(* same save, process dies after open(data, 'wb') created the file and before the first byte: empty file -> EMPTY store *)
Lemma C08_old_empty_after_create_refuted :
  exists (pre post : nat) (s s' : fs bytes),
    holds nat toy_ser O true pre s
    /\ In s' (crash_states_c (toy_ser post) true save_prog_old 0 s)
    /\ fdata s' = Some [] /\ load_c nat toy_parse O true load_prog_old s' = LOk O /\ pre <> O /\ post <> O.
Proof.
  exists 2%nat, 3%nat, (mkfs (Some (toy_ser 2)) None None), (mkfs (Some []) (Some (toy_ser 2)) None).
  split; [left; reflexivity|]. split; [vm_compute; auto 10|]. split; [reflexivity|].
  split; [vm_compute; reflexivity|]. split; discriminate.
Qed.

(* very first save (3 over the empty store, no files yet), process dies after two bytes: the data file does not parse and
   there is no backup -> START-UP FAILURE (FileNotFoundError on the backup) *)
Lemma C08_old_first_save_partial_fails_refuted :
  exists (post : nat) (s s' : fs bytes),
    holds nat toy_ser O true O s
    /\ In s' (crash_states_c (toy_ser post) true save_prog_old 0 s)
    /\ load_c nat toy_parse O true load_prog_old s' = LFail.
Proof.
  exists 3%nat, (mkfs None None None), (mkfs (Some [123; 49]) None None).
  split; [right; right; auto|]. split; [vm_compute; auto 10|]. vm_compute; reflexivity.
Qed.

(* without a backup (use_backup = False) the file is written in place: a partial file fails the start-up *)
Lemma C08_old_no_backup_partial_fails_refuted :
  exists (pre post : nat) (s s' : fs bytes),
    holds nat toy_ser O false pre s
    /\ In s' (crash_states_c (toy_ser post) false save_prog_old 0 s)
    /\ load_c nat toy_parse O false load_prog_old s' = LFail.
Proof.
  exists 2%nat, 3%nat, (mkfs (Some (toy_ser 2)) None None), (mkfs (Some [123; 49]) None None).
  split; [left; reflexivity|]. split; [vm_compute; auto 10|]. vm_compute; reflexivity.
Qed.

(* what the old code does get right: a partially written data file next to a backup loads the backup (= pre) *)
Lemma C08_old_partial_with_backup_loads_pre :
  load_c nat toy_parse O true load_prog_old (mkfs (Some [123; 49]) (Some (toy_ser 2)) None) = LOk 2%nat.
Proof. vm_compute. reflexivity. Qed.

(* not a defect of any committed version: what the operation-level obligation excludes.  A remove that saves once per removed
   record (save inside the loop) is rejected by tree_ok, and with the repaired save procedure a crash after the first of two
   per-record saves restarts with a store that is neither pre (3) nor post (1) *)
Definition save_prog_fixed : list op := [
  OCreate FTemp; OWrite FTemp; OFlush FTemp; OFsync FTemp; OClose FTemp;
  OSkipUnless (CAnd CFlag (CExists FData)) 1; ORename FData FBackup; ORename FTemp FData].

Definition load_prog_fixed : lprog :=
  let backup := LIfFlag (LIfExists FBackup (LParse FBackup LRaise) LRaise) LRaise in
  let missing := LIfFlag (LIfExists FBackup (LParse FBackup LRaise) LRetEmpty) LRetEmpty in
  LIfExists FData (LIfEmpty FData missing (LParse FData backup)) missing.

Lemma C08_save_in_loop_tree_refuted : tree_ok (PSeq PMem (PSeq (PLoop (PSeq PMem PSave)) PExit)) = false.
Proof. vm_compute. reflexivity. Qed.

Lemma C08_save_per_record_refuted :
  let chg := fun (_ : nat) (n : nat) => pred n in
  let p := [OMem; OSave; OMem; OSave] in
  check_all save_prog_fixed load_prog_fixed = true /\ one_save_last p = false
  /\ exists s', In s' (op_crash_states nat toy_ser chg save_prog_fixed true p 0 3%nat (mkfs (Some (toy_ser 3)) None None))
               /\ load_c nat toy_parse O true load_prog_fixed s' = LOk 2%nat /\ op_mem nat chg p 0 3%nat = 1%nat.
Proof.
  split; [vm_compute; reflexivity|]. split; [reflexivity|].
  exists (mkfs (Some (toy_ser 2)) (Some (toy_ser 3)) None). split; [vm_compute; auto 40|]. split; vm_compute; reflexivity.
Qed.
