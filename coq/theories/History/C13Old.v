(* C13 — refutations for the code as found (F5): the same model with the configuration [cfg_found] (what the translator reads
   from the unrepaired slaves/devices.py).  Witnesses are closed by vm_compute; each was replayed on the real code
   (corpus/C13/*.json).  Not part of any check verdict. *)
From QT Require Import C12.Mirror C12.Spec C13.Provisioning C13.Spec.
Open Scope string_scope.

Definition old_port (prov : list string) (cached_value : val) : mport :=
  mk_mport "p1" [("id", VS "p1"); ("display_name", VS "offline name"); ("enabled", VB true); ("gain", VZ 3)]
           [] cached_value true (VZ 5) prov [("tag", VS "")] [].

(* (a) the pending value is PATCHed without a body: the HTTP client refuses to issue it, the mark is cleared all the same *)
Lemma C13_value_push_refuted :
  exists m flags,
    pending_items m = [IPortValue "p1" (VZ 42)] /\
    snd (apply_provisioning cfg_found flags m) = [mk_preq "PATCH" (TPortValue "p1") BNone] /\
    filter issued (snd (apply_provisioning cfg_found flags m)) = [] /\
    pushed_once (pending_items m) (filter issued (snd (apply_provisioning cfg_found flags m))) = false /\
    pending_items (fst (apply_provisioning cfg_found flags m)) = [].
Proof.
  exists (mk_master [old_port ["value"] (VZ 42)] [] [] true false), [].
  vm_compute. repeat split.
Qed.

(* (b) a port-update processed while display_name is pending replaces the whole attribute cache: the pending edit is lost and
   what is then provisioned is the slave's own value *)
Lemma C13_port_update_overwrites_refuted :
  exists m e p',
    (exists p, find_port "p1" (m_ports m) = Some p /\ In "display_name" (mp_prov p) /\
               get "display_name" (mp_cached p) = VS "offline name") /\
    find_port "p1" (m_ports (fst (handle cfg_found e m))) = Some p' /\
    get "display_name" (mp_cached p') = VS "P1" /\
    snd (apply_provisioning cfg_found [] (fst (handle cfg_found e m))) =
      [mk_preq "PATCH" (TPort "p1") (BAttrs [("display_name", VS "P1")])].
Proof.
  exists (mk_master [old_port ["display_name"] VNone] [] [] true false),
         (EPortUpdate [("id", VS "p1"); ("display_name", VS "P1"); ("enabled", VB true); ("gain", VZ 9); ("value", VZ 5)] None).
  eexists. split; [eexists; vm_compute; repeat split; left; reflexivity |].
  vm_compute. repeat split.
Qed.

(* ... and a value reported inside that port-update is queued although a value is pending; the next main-loop iteration then
   overwrites the pending value *)
Lemma C13_port_update_overwrites_value_refuted :
  exists m e p',
    find_port "p1" (m_ports (tick (fst (handle cfg_found e m)))) = Some p' /\
    pending_items m = [IPortValue "p1" (VZ 42)] /\ mp_cached_value p' = VZ 5.
Proof.
  exists (mk_master [old_port ["value"] (VZ 42)] [] [] true false),
         (EPortUpdate [("id", VS "p1"); ("display_name", VS "offline name"); ("enabled", VB true); ("gain", VZ 3); ("value", VZ 5)] None).
  eexists. vm_compute. repeat split.
Qed.

(* (c) _handle_device_update pops from the dict it iterates: RuntimeError whenever a pending attribute is among the reported
   ones (the cache survives only because the handler crashed) ... *)
Lemma C13_device_update_raises_refuted :
  exists m e, In "display_name" (m_dev_prov m) /\ snd (handle cfg_found e m) = false.
Proof.
  exists (mk_master [] [("name", VS "dev1"); ("display_name", VS "User Dev")] ["display_name"] true false),
         (EDeviceUpdate [("name", VS "dev1"); ("display_name", VS "slave side")]).
  vm_compute. split; [left; reflexivity | reflexivity].
Qed.

(* ... and a full-update (fetch_and_update_device) processed while it is pending overwrites it *)
Lemma C13_full_update_overwrites_device_refuted :
  exists m e, In "display_name" (m_dev_prov m) /\ get "display_name" (m_dev m) = VS "User Dev" /\
              get "display_name" (m_dev (fst (handle cfg_found e m))) = VS "slave side" /\
              snd (apply_provisioning cfg_found [] (fst (handle cfg_found e m))) =
                [mk_preq "PATCH" TDevice (BAttrs [("display_name", VS "slave side")])].
Proof.
  exists (mk_master [] [("name", VS "dev1"); ("display_name", VS "User Dev")] ["display_name"] true false),
         (EFullUpdate [("name", VS "dev1"); ("display_name", VS "slave side")] []).
  vm_compute. repeat split. left; reflexivity.
Qed.

(* (e) write_value, offline branch, did not drop the remote values still queued (everything else repaired): a value the slave
   reported before the edit is popped by the next main-loop iteration into _cached_value, the very field that holds the pending
   value: the last edit 7 is not what is pending at reconnect, 5 is (replayed: corpus/C13/value-written-offline-with-queued-
   remote-values.json; reachable through the API by switching listening / polling off right after a burst of values) *)
Definition cfg_queue_kept : cfg := mk_cfg true true true false.
Definition ep_port : mport := mk_mport "x" [] [] (VZ 0) true (VZ 0) [] [] [].
Definition ep_master : master := mk_master [ep_port] [] [] true false.
Definition ep_steps : list ostep := [ORemote (EValueChange "x" (VZ 5)); OWriteValue "x" (VZ 7); OTick].

Lemma C13_offline_write_keeps_queue_refuted :
  nothing_pending ep_master /\
  Forall (fun p => mp_queue p = [] /\ mp_enabled p = true) (m_ports ep_master) /\
  In (IPortValue "x" (VZ 7)) (last_edits ep_steps) /\
  pending_items (orun cfg_queue_kept ep_steps ep_master) = [IPortValue "x" (VZ 5)] /\
  pending_items (orun cfg_fixed ep_steps ep_master) = [IPortValue "x" (VZ 7)].
Proof.
  split; [split; [reflexivity|repeat constructor]|].
  split; [repeat constructor|].
  split; [left; reflexivity|]. vm_compute. split; reflexivity.
Qed.
