(* C19 — the code at /repo HEAD before fixes/C19-cancel-unstarted-task.diff (model with guard = false):
   Sequence.cancel() does `self._loop_task.cancel(); await self._loop_task`.  When the task has not taken its first step
   (it was created in this very batch of ready callbacks by start() or by the re-arm after the last delay) asyncio
   cancels it without entering the coroutine and the await re-raises CancelledError in set_sequence / disable /
   attr_set_expression: the command is aborted, port._sequence keeps the dead sequence (reported active for ever), and
   every later cancel() re-raises again.  Replayed on the real code: corpus/C19/*.json. *)
From QT Require Import Base.Prelude C19.Model C19.Spec C19.CancelThm.
Open Scope Z_scope.

Definition rearm_tie : scenario :=
  Scenario true true false (SeqDef [1; 2] [100; 200] 0) (CSeq (SeqDef [101; 102] [10; 20] 1)) 300 1 1000.

(* replacement exactly at the re-arm instant (300 ms), ordered after the task step that created the new task *)
Lemma C19_rearm_tie_old :
  sim false 50 rearm_tie =
    [MP OOk true; MSub 0 0 1; MSub 0 100 2; MC 300 true; MD 300 OCancelled true; ME 1000 true].
Proof. vm_compute. reflexivity. Qed.

(* disable issued in the same batch as the request that installed the sequence *)
Lemma C19_immediate_disable_old :
  sim false 50 (Scenario true true false (SeqDef [1; 2] [100; 200] 2) CDisable 0 0 1000) =
    [MP OOk true; MC 0 true; MD 0 OCancelled true; ME 1000 true].
Proof. vm_compute. reflexivity. Qed.

(* the statement of C19_cancel_immediate does not hold for that code *)
Lemma C19_cancel_immediate_old_refuted :
  exists fuel sc,
    sc_enabled sc = true /\ sc_writable sc = true /\ sc_expr sc = false /\
    List.length (sd_vals (sc_seq sc)) = List.length (sd_delays (sc_seq sc)) /\
    cancelling (sc_cmd sc) /\ sc_at sc <= sc_horizon sc /\
    ~ exists a0 l1 a a' l2,
        sim false fuel sc = MP OOk a0 :: l1 ++ [MC (sc_at sc) a; MD (sc_at sc) OOk a'] ++ l2.
Proof.
  exists 50%nat, rearm_tie. repeat split; try reflexivity; try (cbn; lia).
  intros (a0 & l1 & a & a' & l2 & H).
  assert (Hin : In (MD 300 OOk a') (sim false 50 rearm_tie)).
  { rewrite H. right. apply in_or_app. right. right. left. reflexivity. }
  rewrite C19_rearm_tie_old in Hin. cbn in Hin.
  repeat (destruct Hin as [Hin|Hin]; [discriminate Hin|]). exact Hin.
Qed.
