(* C19 — the code at /repo HEAD before fixes/C19-cancel-unstarted-task.diff (model with guard = false):
   Sequence.cancel() does `self._loop_task.cancel(); await self._loop_task`.  When the task has not taken its first step
   (it was created in this very batch of ready callbacks by start() or by the re-arm after the last delay) asyncio
   cancels it without entering the coroutine and the await re-raises CancelledError in set_sequence / disable /
   attr_set_expression: the command is aborted, port._sequence keeps the dead sequence (reported active for ever), and
   every later cancel() re-raises again.  Replayed on the real code: corpus/C19/*.json. *)
From QT Require Import Base.Prelude C19.Model C19.Spec C19.CancelThm.
Open Scope Z_scope.

Definition rearm_tie : scenario :=
  Scenario true true false (SeqDef [1; 2] [100; 200] 0) (CSeq (SeqDef [101; 102] [10; 20] 1)) 300 1 1000 0.

(* replacement exactly at the re-arm instant (300 ms), ordered after the task step that created the new task *)
Lemma C19_rearm_tie_old :
  sim false 50 rearm_tie =
    [MP OOk true; MSub 0 0 1; MSub 0 100 2; MC 300 true; MD 300 OCancelled true; ME 1000 true].
Proof. vm_compute. reflexivity. Qed.

(* disable issued in the same batch as the request that installed the sequence *)
Lemma C19_immediate_disable_old :
  sim false 50 (Scenario true true false (SeqDef [1; 2] [100; 200] 2) CDisable 0 0 1000 0) =
    [MP OOk true; MC 0 true; MD 0 OCancelled true; ME 1000 true].
Proof. vm_compute. reflexivity. Qed.

(* the statement of C19_cancel_immediate does not hold for that code *)
Lemma C19_cancel_immediate_old_refuted :
  exists fuel sc,
    sc_enabled sc = true /\ sc_writable sc = true /\ sc_expr sc = false /\
    List.length (sd_vals (sc_seq sc)) = List.length (sd_delays (sc_seq sc)) /\
    cancelling (sc_cmd sc) /\ sc_at sc <= sc_horizon sc /\
    ~ exists a0 l1 a td a' l2,
        sim false fuel sc = MP OOk a0 :: l1 ++ [MC (sc_at sc) a; MD td OOk a'] ++ l2.
Proof.
  exists 50%nat, rearm_tie. repeat split; try reflexivity; try (cbn; lia).
  intros (a0 & l1 & a & td & a' & l2 & H).
  assert (Hin : In (MD td OOk a') (sim false 50 rearm_tie)).
  { rewrite H. right. apply in_or_app. right. right. left. reflexivity. }
  rewrite C19_rearm_tie_old in Hin. cbn in Hin.
  repeat (destruct Hin as [Hin|Hin]; [discriminate Hin|]). exact Hin.
Qed.

(* ------------------------------------------------------------------------------------------------------------ *)
(* the code before fixes/C19-concurrent-cancel.diff (HEAD c1dd626): set_sequence / disable / attr_set_expression do
       if self._sequence: await self._sequence.cancel(); self._sequence = None
   Two commands whose first steps run in the same loop iteration while a sequence S0 plays BOTH see S0 and both wait for
   its task; when they resume (in order) each clears port._sequence and goes on: the sequence installed by the first is
   dropped by the second without being cancelled (an orphan that plays for ever), and a sequence is installed by a request
   that resumes after a concurrent disable.  Model of exactly that shape (S0 running at the commands). *)

Definition step_of (s : seqst) : list mev * option seqst :=
  let '(e, s') := task_step s in (map (tag (s_gen s)) e, s').

(* an unreferenced sequence [a] and the port's sequence [b] both keep playing; earliest due first *)
Fixpoint run_two (fuel : nat) (a b : option seqst) (h : Z) : list mev :=
  match fuel with
  | O => []
  | S f =>
      let da := match a with Some s => match due s with Some t => if t <=? h then Some t else None | None => None end | None => None end in
      let db := match b with Some s => match due s with Some t => if t <=? h then Some t else None | None => None end | None => None end in
      match a, b, da, db with
      | Some sa, Some sb, Some ta, Some tb =>
          if ta <=? tb then let '(e, a') := step_of sa in e ++ run_two f a' b h
          else let '(e, b') := step_of sb in e ++ run_two f a b' h
      | Some sa, _, Some _, None => let '(e, a') := step_of sa in e ++ run_two f a' b h
      | _, Some sb, None, Some _ => let '(e, b') := step_of sb in e ++ run_two f a b' h
      | _, _, _, _ => []
      end
  end.

Definition install_old (g : Z) (c : cmd) (now : Z) : option seqst :=
  match c with
  | CSeq sd => match sd_vals sd with [] => None | _ => Some (SeqSt g sd 0 (TFresh now)) end
  | _ => None
  end.

(* c1, c2 in {CSeq (well-formed), CDisable}, S0 playing at [at_]; returns the log after the first request *)
Definition sim2_old (fuel : nat) (sc : scenario) (c2 : cmd) : list mev2 :=
  let p0 := Port (sc_enabled sc) (sc_writable sc) (sc_expr sc) None in
  let '(o0, p1) := patch true 0 p0 (sc_seq sc) 0 in
  let '(l1, p2) := run_until fuel p1 (sc_at sc) (sc_pos sc) in
  let at_ := sc_at sc in
  let s1 := install_old 1 (sc_cmd sc) at_ in      (* c1 resumes: _sequence = None; installs / disables *)
  let s2 := install_old 2 c2 at_ in               (* c2 resumes: _sequence = None (drops s1 uncancelled); installs / disables *)
  let act (s : option seqst) := match s with Some _ => true | None => false end in
  M1 (MP o0 (is_active p1)) :: map M1 l1 ++
  [M1 (MC at_ (is_active p2)); M1 (MD at_ OOk (act s1)); MD2 at_ OOk (act s2)] ++
  map M1 (run_two fuel s1 s2 (sc_horizon sc)) ++ [M1 (ME (sc_horizon sc) (act s2))].

Definition two_requests : scenario :=
  Scenario true true false (SeqDef [1; 2] [30; 30] 0) (CSeq (SeqDef [101; 102] [40; 40] 0)) 45 0 200 0.

(* what the real code at c1dd626 logs for corpus/C19/04-concurrent-commands.json, first scenario *)
Lemma C19_concurrent_requests_old :
  map enc2 (sim2_old 60 two_requests (CSeq (SeqDef [201; 202] [50; 50] 0))) =
    [(0, 0, 0, true); (1, 0, 1, true); (1, 30, 2, true); (3, 45, 0, true); (4, 45, 0, true); (6, 45, 0, true);
     (1, 45, 101, true); (1, 45, 201, true); (1, 85, 102, true); (1, 95, 202, true); (1, 125, 101, true);
     (1, 145, 201, true); (1, 165, 102, true); (1, 195, 202, true); (5, 200, 0, true)].
Proof. vm_compute. reflexivity. Qed.

(* second scenario: disable + request; the request's sequence plays on the disabled port *)
Lemma C19_concurrent_disable_old :
  map enc2 (sim2_old 60 (Scenario true true false (SeqDef [1; 2] [30; 30] 0) CDisable 45 0 200 0)
                     (CSeq (SeqDef [201; 202] [50; 50] 0))) =
    [(0, 0, 0, true); (1, 0, 1, true); (1, 30, 2, true); (3, 45, 0, true); (4, 45, 0, false); (6, 45, 0, true);
     (1, 45, 201, true); (1, 95, 202, true); (1, 145, 201, true); (1, 195, 202, true); (5, 200, 0, true)].
Proof. vm_compute. reflexivity. Qed.

(* the single-survivor property (Props/C19.v, C19_concurrent_single_survivor) fails for that code: after both requests have
   returned, values of two different generations are submitted *)
Lemma C19_concurrent_single_survivor_old_refuted :
  exists fuel sc c2 pre tail,
    sim2_old fuel sc c2 = pre ++ tail /\
    last pre (MD2 0 OOk false) = MD2 (sc_at sc) OOk true /\
    (exists t v, In (M1 (MSub 1 t v)) tail) /\ (exists t v, In (M1 (MSub 2 t v)) tail).
Proof.
  exists 60%nat, two_requests, (CSeq (SeqDef [201; 202] [50; 50] 0)).
  eexists [_; _; _; _; _; _], _. split; [vm_compute; reflexivity|]. split; [reflexivity|].
  split; [exists 45, 101 | exists 45, 201]; cbn; tauto.
Qed.
