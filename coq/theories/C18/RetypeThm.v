(* C18 — a port replaced by a port of another kind under the same id (removed with its history through
   history.remove_samples([port]), then registered again): the cache invariant carries over to the new configuration, so
   every answer after the replacement is typed like the port as it is registered NOW (the theorems of MainThm.v then apply
   with the new configuration). *)
From QT Require Import C18.Spec C18.ApiThm C18.CacheThm.
Open Scope Z_scope.

Lemma drv_remove_all : forall st p, drv_remove st p None None = filter (fun s => negb (s_oid s =? p)) st.
Proof.
  induction st as [|s r IH]; intros p; [reflexivity|]. cbn [drv_remove filter]. unfold filter_matches, opt_test.
  rewrite !andb_true_r. destruct (s_oid s =? p); cbn [negb]; [apply IH|f_equal; apply IH].
Qed.

Theorem port_replacement_keeps_invariant : forall cfg cfg' st p,
  cache_ok cfg st ->
  cfg_min_age cfg' = cfg_min_age cfg ->
  (forall p', p' <> p -> port_kind cfg' p' = port_kind cfg p') ->
  cache_ok cfg' (hist_remove_samples st p None None)
  /\ st_store (hist_remove_samples st p None None) = filter (fun s => negb (s_oid s =? p)) (st_store st).
Proof.
  intros cfg cfg' st p OK AGE KIND. split.
  - intros p' t' v H. cbn [hist_remove_samples st_cache st_now st_store] in *. rewrite !cache_get_pop in H.
    destruct (p =? p') eqn:E; [discriminate|]. apply Z.eqb_neq in E.
    destruct (OK p' t' v H) as [T [k [PK ->]]]. rewrite AGE. split; [assumption|]. exists k.
    split; [rewrite KIND by congruence; assumption|].
    unfold base_remove_samples. rewrite drv_remove_all. unfold fresh_val, newest_at_or_before.
    rewrite filter_filter_implied; [reflexivity|].
    intros s Hs. apply andb_prop in Hs. destruct Hs as [Hs _]. apply Z.eqb_eq in Hs.
    destruct (s_oid s =? p) eqn:E2; [apply Z.eqb_eq in E2; congruence|reflexivity].
  - cbn [hist_remove_samples st_store]. unfold base_remove_samples. apply drv_remove_all.
Qed.
