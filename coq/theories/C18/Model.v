(* C18 — model of the history code that exists in /repo (definitions only, total and computable; no proofs here).

   drivers/persist/json.py  query / insert / remove   (as used by the sample functions)      -> drv_*
   persist/base.py          get_samples_slice, get_samples_by_timestamp, save_sample,
                            remove_samples                                                   -> base_*
   core/history.py          get_samples_slice, get_samples_by_timestamp (+ _samples_cache),
                            save_sample, remove_samples, HistoryEventHandler.handle_event    -> hist_*
   core/api/funcs/ports.py  get_port_history, delete_port_history                            -> api_*

   Values: a stored sample value is a Python float; the model keeps it as an integer number of QUARTERS (q stands for
   q/4), which is exact for the dyadic values the correspondence harness generates.  Time is in milliseconds. *)
From QT Require Export Base.Prelude.
Open Scope Z_scope.

(* ---------------------------------------------------------------------------------------------------------- *)
(* samples, ports, values *)

Definition sample := (Z * Z * Z)%type.                 (* (object id, timestamp ms, value in quarters) *)
Definition s_oid (s : sample) : Z := fst (fst s).
Definition s_ts (s : sample) : Z := snd (fst s).
Definition s_val (s : sample) : Z := snd s.
Definition store := list sample.                        (* records of the collection, in insertion order *)

Inductive kind := KBool | KInt | KNum.                  (* type boolean | number with integer=true | number *)
Inductive value := VBool (b : bool) | VInt (z : Z) | VNum (q : Z).

Definition kind_eqb (a b : kind) : bool :=
  match a, b with KBool, KBool | KInt, KInt | KNum, KNum => true | _, _ => false end.

Definition value_eqb (a b : value) : bool :=
  match a, b with
  | VBool x, VBool y => Bool.eqb x y
  | VInt x, VInt y => x =? y
  | VNum x, VNum y => x =? y
  | _, _ => false
  end.

(* BasePort.adapt_value_type_sync(type_, integer, value) for a non-null float value:
   bool(value) | int(value) (truncation towards zero) | float(value) *)
Definition adapt (k : kind) (q : Z) : value :=
  match k with
  | KBool => VBool (negb (q =? 0))
  | KInt => VInt (Z.quot q 4)
  | KNum => VNum q
  end.
Definition adapt_opt (k : kind) (o : option Z) : option value := option_map (adapt k) o.

(* ---------------------------------------------------------------------------------------------------------- *)
(* JSONDriver.query as the sample functions use it: filter on oid and ts operators, list.sort on ts (stable, also with
   reverse=True), records[:limit] *)

Definition opt_test (o : option Z) (f : Z -> bool) : bool := match o with None => true | Some b => f b end.

(* filt = {'oid': p, 'ts': {'ge': ge, 'lt': lt, 'le': le}} (absent operators = None) *)
Definition filter_matches (p : Z) (ge lt le : option Z) (s : sample) : bool :=
  (s_oid s =? p)
  && opt_test ge (fun b => b <=? s_ts s)
  && opt_test lt (fun b => s_ts s <? b)
  && opt_test le (fun b => s_ts s <=? b).

Fixpoint insert_asc (x : sample) (l : list sample) : list sample :=
  match l with
  | [] => [x]
  | y :: r => if s_ts x <=? s_ts y then x :: y :: r else y :: insert_asc x r
  end.
Fixpoint insert_desc (x : sample) (l : list sample) : list sample :=
  match l with
  | [] => [x]
  | y :: r => if s_ts y <=? s_ts x then x :: y :: r else y :: insert_desc x r
  end.
(* list.sort(key=ts, reverse=rev): stable in both directions (equal keys keep their original order) *)
Definition py_sort (rev : bool) (l : list sample) : list sample :=
  if rev then fold_right insert_desc [] l else fold_right insert_asc [] l.

Definition apply_limit {A} (limit : option Z) (l : list A) : list A :=
  match limit with None => l | Some n => firstn (Z.to_nat n) l end.

Definition drv_query (st : store) (p : Z) (ge lt le : option Z) (rev : bool) (limit : option Z) : list sample :=
  apply_limit limit (py_sort rev (filter (filter_matches p ge lt le) st)).

Definition drv_insert (st : store) (s : sample) : store := st ++ [s].

(* JSONDriver.remove with filt = {'oid': {'in': [p]}, 'ts': {'ge':.., 'lt':..}}: pops every matching record *)
Fixpoint drv_remove (st : store) (p : Z) (ge lt : option Z) : store :=
  match st with
  | [] => []
  | s :: r => if filter_matches p ge lt None s then drv_remove r p ge lt else s :: drv_remove r p ge lt
  end.

(* ---------------------------------------------------------------------------------------------------------- *)
(* persist/base.py *)

Definition base_get_samples_slice (st : store) (p : Z) (from to limit : option Z) (rev : bool) : list (Z * Z) :=
  map (fun s => (s_ts s, s_val s)) (drv_query st p from to None rev limit).

Definition base_get_samples_by_timestamp (st : store) (p : Z) (tss : list Z) : list (option Z) :=
  map (fun t => match drv_query st p None None (Some t) true (Some 1) with
                | [] => None
                | s :: _ => Some (s_val s)
                end) tss.

Definition base_save_sample (st : store) (p ts v : Z) : store := drv_insert st (p, ts, v).
Definition base_remove_samples (st : store) (p : Z) (from to : option Z) : store := drv_remove st p from to.

(* ---------------------------------------------------------------------------------------------------------- *)
(* core/history.py *)

(* _samples_cache: {port id: {timestamp: adapted value or None}}, flattened to an association list on (port, timestamp) *)
Definition cache := list (Z * Z * option value).

Fixpoint cache_get (c : cache) (p t : Z) : option (option value) :=
  match c with
  | [] => None
  | (p', t', v) :: r => if (p' =? p) && (t' =? t) then Some v else cache_get r p t
  end.
Definition cache_drop (c : cache) (p t : Z) : cache :=
  filter (fun e => negb ((fst (fst e) =? p) && (snd (fst e) =? t))) c.
Definition cache_set (c : cache) (p t : Z) (v : option value) : cache := (p, t, v) :: cache_drop c p t.
(* _samples_cache.pop(port_id, None) *)
Definition cache_pop (c : cache) (p : Z) : cache := filter (fun e => negb (fst (fst e) =? p)) c.

(* a Python dict {timestamp: value}: insertion ordered, assignment to an existing key keeps its position *)
Definition pydict := list (Z * option value).
Fixpoint dict_set (d : pydict) (k : Z) (v : option value) : pydict :=
  match d with
  | [] => [(k, v)]
  | (k', v') :: r => if k' =? k then (k, v) :: r else (k', v') :: dict_set r k v
  end.
Fixpoint dict_get (d : pydict) (k : Z) : option (option value) :=
  match d with
  | [] => None
  | (k', v') :: r => if k' =? k then Some v' else dict_get r k
  end.

Record config := {
  cfg_ports : list (Z * (kind * bool));    (* registered ports: id -> (kind, history_interval == -1) *)
  cfg_min_age : Z;                         (* _CACHE_TIMESTAMP_MIN_AGE *)
  cfg_real_ms : Z                          (* system.date.OLD_TIME_LIMIT * 1000 *)
}.

Fixpoint assoc {A} (l : list (Z * A)) (p : Z) : option A :=
  match l with [] => None | (k, a) :: r => if k =? p then Some a else assoc r p end.
Definition port_kind (cfg : config) (p : Z) : option kind := option_map fst (assoc (cfg_ports cfg) p).
Definition port_on_change (cfg : config) (p : Z) : bool :=
  match assoc (cfg_ports cfg) p with Some (_, b) => b | None => false end.

Record state := { st_store : store; st_cache : cache; st_now : Z }.

Definition hist_get_samples_slice (st : state) (p : Z) (k : kind) (from to limit : option Z) (rev : bool)
  : list (Z * value) :=
  map (fun s => (fst s, adapt k (snd s))) (base_get_samples_slice (st_store st) p from to limit rev).

(* how the entries are produced from the [results] dict *)
Inductive emit_rule :=
| EmitDictItems      (* ... for t, v in results.items()          (the code before fixes/C18-*.diff) *)
| EmitPerRequest.    (* ... for t in timestamps, v = results[t]   (the repaired code) *)

Definition entry (t : Z) (v : option value) : option (Z * value) :=
  match v with Some x => Some (t, x) | None => None end.

(* first loop: look every timestamp up in the cache *)
Definition lookup_pass (c : cache) (p : Z) (tss : list Z) : pydict * list Z :=
  fold_left (fun (acc : pydict * list Z) t =>
               match cache_get c p t with
               | Some v => (dict_set (fst acc) t v, snd acc)
               | None => (fst acc, snd acc ++ [t])
               end) tss ([], []).

Definition hist_get_samples_by_timestamp (rule : emit_rule) (cfg : config) (st : state) (p : Z) (k : kind)
  (tss : list Z) : state * list (option (Z * value)) :=
  let now_ms := st_now st in
  let '(results, missed) := lookup_pass (st_cache st) p tss in
  (* if missed_timestamps: query the driver, adapt to the port type *)
  let samples := map (adapt_opt k) (base_get_samples_by_timestamp (st_store st) p missed) in
  let fresh := combine missed samples in
  (* second loop: results[timestamp] = samples[i]; cache it if old enough *)
  let results' := fold_left (fun d tv => dict_set d (fst tv) (snd tv)) fresh results in
  let cache' := fold_left (fun c tv => if now_ms - fst tv >? cfg_min_age cfg then cache_set c p (fst tv) (snd tv) else c)
                          fresh (st_cache st) in
  let out := match rule with
             | EmitDictItems => map (fun tv => entry (fst tv) (snd tv)) results'
             | EmitPerRequest =>
                 map (fun t => entry t (match dict_get results' t with Some v => v | None => None end)) tss
             end in
  ({| st_store := st_store st; st_cache := cache'; st_now := now_ms |}, out).

(* remove_samples([port], from, to): invalidate the port's cache, remove, invalidate again (since 6506e34) *)
Definition hist_remove_samples (st : state) (p : Z) (from to : option Z) : state :=
  {| st_store := base_remove_samples (st_store st) p from to; st_cache := cache_pop (cache_pop (st_cache st) p) p;
     st_now := st_now st |}.

(* HistoryEventHandler.handle_event(ValueChange) + save_sample: [v] is the port's last read value (None = null) *)
Definition hist_value_change (cfg : config) (st : state) (p : Z) (v : option Z) : state :=
  if negb (cfg_real_ms cfg <? st_now st) then st           (* not system.date.has_real_date_time() *)
  else if negb (port_on_change cfg p) then st               (* history_interval != -1 *)
  else match v with
       | None => st                                         (* skipping null sample *)
       | Some q => {| st_store := base_save_sample (st_store st) p (st_now st) q;
                      st_cache := st_cache st; st_now := st_now st |}
       end.

(* ---------------------------------------------------------------------------------------------------------- *)
(* core/api/funcs/ports.py *)

(* a query-string argument as the functions see it *)
Inductive qarg :=
| QAbsent            (* query.get(..) is None *)
| QEmpty             (* '' *)
| QBad               (* a string int() rejects (the harness sends 'abc', '1.5', '0x10') *)
| QInt (z : Z).      (* a plain decimal integer, possibly negative *)

Record query := { q_from : qarg; q_to : qarg; q_limit : qarg; q_timestamps : option (list qarg) }.

Inductive request :=
| ApiGet (p : Z) (q : query)              (* GET /ports/p/history *)
| ApiDelete (p : Z) (q : query)           (* DELETE /ports/p/history *)
| ValueChange (p : Z) (v : option Z)      (* the port's value changed to v and the ValueChange event was handled *)
| AdvanceClock (d : N).                   (* time passes (the clock never goes backwards) *)

(* error fields: 1 from, 2 to, 3 limit, 4 timestamps *)
Inductive response :=
| RSamples (l : list (Z * value))                 (* [{'timestamp': t, 'value': v}, ...] *)
| REntries (l : list (option (Z * value)))        (* [{'value': v, 'timestamp': t} | null, ...] *)
| RDone                                           (* None *)
| RNoSuchPort                                     (* APIError(404, 'no-such-port') *)
| RMissing (field : Z)                            (* APIError(400, 'missing-field', field=...) *)
| RInvalid (field : Z)                            (* APIError(400, 'invalid-field', field=...) *)
| RNone                                           (* not an API call *)
| ROther.                                         (* anything else the implementation did (never produced by the model) *)

(* int(s) then the `< 0` test: Some z, or None for "raise invalid-field" *)
Definition parse_nonneg (a : qarg) : option Z :=
  match a with QInt z => if z <? 0 then None else Some z | _ => None end.

Fixpoint parse_all (l : list qarg) : option (list Z) :=
  match l with
  | [] => Some []
  | QInt z :: r => match parse_all r with Some zs => Some (z :: zs) | None => None end
  | _ :: _ => None
  end.

Definition is_absent (a : qarg) : bool := match a with QAbsent => true | _ => false end.

Definition api_get_port_history (rule : emit_rule) (cfg : config) (st : state) (p : Z) (q : query) : state * response :=
  match port_kind cfg p with
  | None => (st, RNoSuchPort)
  | Some k =>
    if is_absent (q_from q) && (match q_timestamps q with None => true | Some _ => false end) then (st, RMissing 1) else
    (* if from_str: ... else: from_timestamp = None *)
    match (match q_from q with
           | QAbsent | QEmpty => Some None
           | a => match parse_nonneg a with Some z => Some (Some z) | None => None end
           end) with
    | None => (st, RInvalid 1)
    | Some from =>
    match (match q_to q with QAbsent => Some (st_now st) | a => parse_nonneg a end) with
    | None => (st, RInvalid 2)
    | Some to =>
    match (match q_limit q with
           | QAbsent => Some 1000
           | QInt z => if (z <? 1) || (10000 <? z) then None else Some z
           | _ => None
           end) with
    | None => (st, RInvalid 3)
    | Some limit =>
    match q_timestamps q with
    | Some l =>
        match parse_all l with
        | None => (st, RInvalid 4)
        | Some tss =>
            if existsb (fun t => t <? 0) tss then (st, RInvalid 4)
            else let '(st', out) := hist_get_samples_by_timestamp rule cfg st p k tss in (st', REntries out)
        end
    | None => (st, RSamples (hist_get_samples_slice st p k from (Some to) (Some limit) false))
    end end end end
  end.

Definition api_delete_port_history (cfg : config) (st : state) (p : Z) (q : query) : state * response :=
  match port_kind cfg p with
  | None => (st, RNoSuchPort)
  | Some _ =>
    if is_absent (q_from q) then (st, RMissing 1) else
    match parse_nonneg (q_from q) with
    | None => (st, RInvalid 1)
    | Some from =>
    if is_absent (q_to q) then (st, RMissing 2) else
    match parse_nonneg (q_to q) with
    | None => (st, RInvalid 2)
    | Some to => (hist_remove_samples st p (Some from) (Some to), RDone)
    end end
  end.

Definition step_gen (rule : emit_rule) (cfg : config) (st : state) (r : request) : state * response :=
  match r with
  | ApiGet p q => api_get_port_history rule cfg st p q
  | ApiDelete p q => api_delete_port_history cfg st p q
  | ValueChange p v => (hist_value_change cfg st p v, RNone)
  | AdvanceClock d => ({| st_store := st_store st; st_cache := st_cache st; st_now := st_now st + Z.of_N d |}, RNone)
  end.

(* the code as repaired by fixes/C18-*.diff; the pre-fix rule is kept for History/C18Old.v *)
Definition step := step_gen EmitPerRequest.

Fixpoint run_gen (rule : emit_rule) (cfg : config) (st : state) (rs : list request) : state * list response :=
  match rs with
  | [] => (st, [])
  | r :: rest => let '(st1, o) := step_gen rule cfg st r in
                 let '(st2, os) := run_gen rule cfg st1 rest in (st2, o :: os)
  end.
Definition run := run_gen EmitPerRequest.
