(* C18 — specification for overlapping requests (executable oracle, no cache, no segments' internals).

   The abstract machine is still a sample list and a clock.  A request is open from its start to its end.  The stored
   samples change only at the driver call of a DELETE or of a recorded value change, and then exactly as [delete_spec] /
   [record_spec] say.  An answer given by an overlapping query must be right for SOME store between the earliest start of a
   mutating request still in flight during the query's window (or the query's own start) and the query's end (each entry
   of a by-timestamp answer separately): an unanswered DELETE may be linearised after the query even if its removal has
   physically happened.  A request that runs alone ([ISeq]), or that starts when no mutating request is in flight and sees
   no change, must be exactly right for the store of that moment. *)
From QT Require Export C18.Spec C18.Interleave.
Open Scope Z_scope.

Definition tv_eqb' (a b : Z * value) : bool := (fst a =? fst b) && value_eqb (snd a) (snd b).
Definition entry_eqb (a b : option (Z * value)) : bool := option_eqb tv_eqb' a b.

Record window := { w_req : areq; w_seen : list store; w_applied : bool }.
Record wstate := { ws_store : store; ws_now : Z; ws_open : list (Z * window) }.

Fixpoint win_get (l : list (Z * window)) (id : Z) : option window :=
  match l with [] => None | (i, w) :: r => if i =? id then Some w else win_get r id end.
Definition win_drop (l : list (Z * window)) (id : Z) : list (Z * window) := filter (fun e => negb (fst e =? id)) l.

(* every open window sees the new store *)
Definition publish (l : list (Z * window)) (st : store) : list (Z * window) :=
  map (fun e => (fst e, {| w_req := w_req (snd e); w_seen := st :: w_seen (snd e); w_applied := w_applied (snd e) |})) l.

Definition samples_eqb (a b : list (Z * value)) : bool := list_eqb tv_eqb' a b.

Fixpoint forallb2 {A B} (f : A -> B -> bool) (a : list A) (b : list B) : bool :=
  match a, b with
  | [], [] => true
  | x :: a', y :: b' => f x y && forallb2 f a' b'
  | _, _ => false
  end.

(* is the answer acceptable for a request whose window saw the stores [seen]? *)
Definition answer_ok (w : window) (resp : response) : bool :=
  match w_req w, resp with
  | ASlice p k from to limit, RSamples l => existsb (fun st => samples_eqb (slice_spec st p k from to limit) l) (w_seen w)
  | AByTimestamp p k tss, REntries l =>
      forallb2 (fun t e => existsb (fun st => entry_eqb (option_map (fun s => (t, typed_like k (s_val s)))
                                                                   (newest_at_or_before st p t)) e) (w_seen w)) tss l
  | ADelete _ _ _, RDone => w_applied w
  | ARecord _ _, RNone => w_applied w
  | _, _ => false
  end.

(* one event; returns the new abstract state and whether the observed response is acceptable *)
Definition ispec_step (cfg : config) (s : wstate) (e : ievent) (resp : response) : wstate * bool :=
  match e with
  | ISeq r =>
      let '((st', now'), expected) := spec_step cfg (ws_store s, ws_now s) r in
      ({| ws_store := st'; ws_now := now'; ws_open := publish (ws_open s) st' |},
       match expected with
       | Some x => match x, resp with
                   | RSamples a, RSamples b => samples_eqb a b
                   | REntries a, REntries b => list_eqb entry_eqb a b
                   | RDone, RDone => true
                   | _, _ => false
                   end
       | None => true
       end)
  | IStart id r =>
      match abstract cfg (ws_now s) r with
      | ARejected => (s, true)
      | ATick d => ({| ws_store := ws_store s; ws_now := ws_now s + Z.of_N d; ws_open := ws_open s |}, true)
      | a =>
          (* linearisability: a mutating request that is still in flight (not answered) when this one starts may take
             effect, for the client, at any moment up to its answer; so this request may be answered from any store seen
             since the earliest start of a mutating request still in flight — those stores are the windows of the open
             DELETEs / recorded value changes.  With nothing in flight the window is the current store alone: exact. *)
          let inherited := flat_map (fun e => match w_req (snd e) with
                                              | ADelete _ _ _ | ARecord _ _ => w_seen (snd e)
                                              | _ => []
                                              end) (ws_open s) in
          let w := {| w_req := a; w_seen := ws_store s :: inherited; w_applied := false |} in
          match resp with
          | RNone => ({| ws_store := ws_store s; ws_now := ws_now s; ws_open := (id, w) :: win_drop (ws_open s) id |}, true)
          | _ => (s, answer_ok w resp)       (* answered without suspending *)
          end
      end
  | IDriver id =>
      match win_get (ws_open s) id with
      | Some w =>
          let st' := match w_req w with
                     | ADelete p from to => delete_spec (ws_store s) p from to
                     | ARecord p v => record_spec (ws_store s) p (ws_now s) v
                     | _ => ws_store s
                     end in
          let w' := {| w_req := w_req w; w_seen := w_seen w; w_applied := true |} in
          ({| ws_store := st'; ws_now := ws_now s; ws_open := publish ((id, w') :: win_drop (ws_open s) id) st' |}, true)
      | None => (s, true)
      end
  | IFinish id =>
      match win_get (ws_open s) id with
      | Some w => ({| ws_store := ws_store s; ws_now := ws_now s; ws_open := win_drop (ws_open s) id |}, answer_ok w resp)
      | None => (s, true)
      end
  end.
