(* C18 — the by-timestamp cache.  Invariant: a cached entry is older than the cache age and equals what the store would
   answer now.  It holds after every request sequence; with it, a query by timestamps answers exactly the specification. *)
From QT Require Import C18.Spec C18.SortThm C18.ApiThm.
Open Scope Z_scope.

(* what the store answers for timestamp t of port p (kind k), according to the specification *)
Definition fresh_val (st : store) (p : Z) (k : kind) (t : Z) : option value :=
  option_map (fun s => typed_like k (s_val s)) (newest_at_or_before st p t).

Definition cache_ok (cfg : config) (st : state) : Prop :=
  forall p t v, cache_get (st_cache st) p t = Some v ->
    t + cfg_min_age cfg < st_now st /\ exists k, port_kind cfg p = Some k /\ v = fresh_val (st_store st) p k t.

(* ---------------------------------------------------------------------------------------------------------- *)
(* the driver query behind base_get_samples_by_timestamp *)

Lemma base_by_timestamp_is_newest : forall st p tss,
  base_get_samples_by_timestamp st p tss = map (fun t => option_map s_val (newest_at_or_before st p t)) tss.
Proof.
  intros. unfold base_get_samples_by_timestamp. apply map_ext. intro t.
  unfold drv_query, apply_limit, newest_at_or_before.
  rewrite (filter_ext _ _ (matches_at_or_before p t)). rewrite <- hd_sort_desc_is_newest.
  change (Z.to_nat 1) with 1%nat. destruct (py_sort true _) as [|s r]; reflexivity.
Qed.

Lemma samples_are_fresh : forall st p k tss,
  map (adapt_opt k) (base_get_samples_by_timestamp st p tss) = map (fresh_val st p k) tss.
Proof.
  intros. rewrite base_by_timestamp_is_newest, map_map. apply map_ext. intro t. unfold fresh_val, adapt_opt.
  destruct (newest_at_or_before st p t); cbn; [rewrite adapt_typed|]; reflexivity.
Qed.

Lemma combine_map_self : forall {A B} (f : A -> B) l, combine l (map f l) = map (fun x => (x, f x)) l.
Proof. induction l; cbn; [reflexivity|f_equal; assumption]. Qed.

(* ---------------------------------------------------------------------------------------------------------- *)
(* dict and cache operations *)

Lemma dict_get_set : forall d k v k', dict_get (dict_set d k v) k' = if k =? k' then Some v else dict_get d k'.
Proof.
  induction d as [|[k0 v0] r IH]; intros; cbn [dict_set dict_get].
  - reflexivity.
  - destruct (k0 =? k) eqn:E; cbn [dict_get].
    + apply Z.eqb_eq in E. subst. destruct (k =? k'); reflexivity.
    + rewrite IH. destruct (k0 =? k') eqn:E2; [|reflexivity].
      apply Z.eqb_eq in E2. subst. rewrite Z.eqb_sym, E. reflexivity.
Qed.

Definition mem (t : Z) (l : list Z) : bool := existsb (Z.eqb t) l.

Lemma mem_app : forall t a b, mem t (a ++ b) = mem t a || mem t b.
Proof. intros. apply existsb_app. Qed.

Lemma mem_In : forall t l, mem t l = true <-> In t l.
Proof.
  intros. unfold mem. rewrite existsb_exists. split.
  - intros [x [H E]]. apply Z.eqb_eq in E. subst. assumption.
  - intro H. exists t. split; [assumption|apply Z.eqb_refl].
Qed.

Lemma fold_results : forall (f : Z -> option value) M d t,
  dict_get (fold_left (fun d tv => dict_set d (fst tv) (snd tv)) (map (fun t => (t, f t)) M) d) t
  = if mem t M then Some (f t) else dict_get d t.
Proof.
  induction M as [|m M IH]; intros; cbn [map fold_left]; [reflexivity|].
  rewrite IH. cbn [fst snd]. rewrite dict_get_set. unfold mem. cbn [existsb]. fold (mem t M).
  rewrite (Z.eqb_sym t m). destruct (mem t M); [rewrite orb_true_r; reflexivity|]. rewrite orb_false_r.
  destruct (m =? t) eqn:E; [|reflexivity]. apply Z.eqb_eq in E. subst. reflexivity.
Qed.

Lemma lookup_pass_gen : forall c p tss d0 m0,
  let r := fold_left (fun (acc : pydict * list Z) t =>
                        match cache_get c p t with
                        | Some v => (dict_set (fst acc) t v, snd acc)
                        | None => (fst acc, snd acc ++ [t])
                        end) tss (d0, m0) in
  (forall t, dict_get (fst r) t = match (if mem t tss then cache_get c p t else None) with
                                  | Some v => Some v
                                  | None => dict_get d0 t
                                  end)
  /\ (forall t, mem t (snd r) = mem t m0 || (mem t tss && match cache_get c p t with None => true | Some _ => false end)).
Proof.
  induction tss as [|a tss IH]; intros d0 m0; cbn [fold_left].
  - split; intro t; cbn; [reflexivity|rewrite orb_false_r; reflexivity].
  - destruct (cache_get c p a) as [v|] eqn:Ca.
    + destruct (IH (dict_set d0 a v) m0) as [I1 I2]. cbn [fst snd] in *. split; intro t.
      * rewrite I1. unfold mem. cbn [existsb]. fold (mem t tss). rewrite dict_get_set. rewrite (Z.eqb_sym t a).
        destruct (a =? t) eqn:E.
        -- apply Z.eqb_eq in E. subst. cbn [orb]. rewrite Ca. destruct (mem t tss); reflexivity.
        -- cbn [orb]. reflexivity.
      * rewrite I2. unfold mem at 4. cbn [existsb]. fold (mem t tss). destruct (t =? a) eqn:E; [|reflexivity].
        apply Z.eqb_eq in E. subst. rewrite Ca. cbn [orb]. rewrite !andb_false_r. reflexivity.
    + destruct (IH d0 (m0 ++ [a])) as [I1 I2]. cbn [fst snd] in *. split; intro t.
      * rewrite I1. unfold mem at 2. cbn [existsb]. fold (mem t tss). destruct (t =? a) eqn:E; [|reflexivity].
        apply Z.eqb_eq in E. subst. cbn [orb]. rewrite Ca. destruct (mem a tss); reflexivity.
      * rewrite I2, mem_app. unfold mem at 2 5. cbn [existsb]. fold (mem t tss). rewrite orb_false_r.
        destruct (t =? a) eqn:E; cbn [orb].
        -- apply Z.eqb_eq in E. subst. rewrite Ca. rewrite !andb_true_r. destruct (mem a m0), (mem a tss); reflexivity.
        -- rewrite orb_false_r. reflexivity.
Qed.

Lemma lookup_pass_spec : forall c p tss,
  (forall t, dict_get (fst (lookup_pass c p tss)) t = if mem t tss then cache_get c p t else None)
  /\ (forall t, mem t (snd (lookup_pass c p tss)) = mem t tss && match cache_get c p t with None => true | Some _ => false end).
Proof.
  intros. destruct (lookup_pass_gen c p tss [] []) as [I1 I2]. unfold lookup_pass. split; intro t.
  - rewrite I1. destruct (mem t tss); [destruct (cache_get c p t)|]; reflexivity.
  - rewrite I2. reflexivity.
Qed.

Lemma cache_get_drop : forall c p t p' t',
  cache_get (cache_drop c p t) p' t' = if (p =? p') && (t =? t') then None else cache_get c p' t'.
Proof.
  induction c as [|[[p0 t0] v0] r IH]; intros; cbn [cache_drop filter cache_get fst snd].
  - destruct ((p =? p') && (t =? t')); reflexivity.
  - fold (cache_drop r p t). destruct ((p0 =? p) && (t0 =? t)) eqn:E; cbn [negb cache_get].
    + rewrite IH. apply andb_prop in E. destruct E as [E1 E2]. apply Z.eqb_eq in E1, E2. subst.
      destruct ((p =? p') && (t =? t')); reflexivity.
    + rewrite IH. destruct ((p0 =? p') && (t0 =? t')) eqn:E2; [|reflexivity].
      apply andb_prop in E2. destruct E2 as [E3 E4]. apply Z.eqb_eq in E3, E4. subst.
      rewrite (Z.eqb_sym p p'), (Z.eqb_sym t t'), E. reflexivity.
Qed.

Lemma cache_get_set : forall c p t v p' t',
  cache_get (cache_set c p t v) p' t' = if (p =? p') && (t =? t') then Some v else cache_get c p' t'.
Proof.
  intros. unfold cache_set. cbn [cache_get]. rewrite cache_get_drop. destruct ((p =? p') && (t =? t')); reflexivity.
Qed.

Lemma cache_get_pop : forall c p p' t', cache_get (cache_pop c p) p' t' = if p =? p' then None else cache_get c p' t'.
Proof.
  induction c as [|[[p0 t0] v0] r IH]; intros; cbn [cache_pop filter cache_get fst snd].
  - destruct (p =? p'); reflexivity.
  - fold (cache_pop r p). destruct (p0 =? p) eqn:E; cbn [negb cache_get].
    + rewrite IH. apply Z.eqb_eq in E. subst. destruct (p =? p'); reflexivity.
    + rewrite IH. destruct ((p0 =? p') && (t0 =? t')) eqn:E2; [|reflexivity].
      apply andb_prop in E2. destruct E2 as [E3 E4]. apply Z.eqb_eq in E3. subst. rewrite (Z.eqb_sym p p'), E. reflexivity.
Qed.

Lemma fold_cache : forall (f : Z -> option value) now age p M c p' t' v,
  cache_get (fold_left (fun c tv => if now - fst tv >? age then cache_set c p (fst tv) (snd tv) else c)
                       (map (fun t => (t, f t)) M) c) p' t' = Some v ->
  cache_get c p' t' = Some v \/ (p' = p /\ now - t' > age /\ v = f t').
Proof.
  induction M as [|m M IH]; intros c p' t' v H; cbn [map fold_left fst snd] in H; [left; assumption|].
  apply IH in H. destruct H as [H|H]; [|right; assumption].
  destruct (now - m >? age) eqn:E; [|left; assumption].
  rewrite cache_get_set in H. destruct ((p =? p') && (m =? t')) eqn:E2; [|left; assumption].
  apply andb_prop in E2. destruct E2 as [E3 E4]. apply Z.eqb_eq in E3, E4. subst.
  right. apply Z.gtb_lt in E. inversion H. repeat split; lia.
Qed.

(* ---------------------------------------------------------------------------------------------------------- *)
(* a query by timestamps in a state that satisfies the invariant *)

Lemma by_timestamp_unfold : forall cfg st p k tss,
  let f := fresh_val (st_store st) p k in
  let R1 := fst (lookup_pass (st_cache st) p tss) in
  let M := snd (lookup_pass (st_cache st) p tss) in
  let fresh := map (fun t => (t, f t)) M in
  hist_get_samples_by_timestamp EmitPerRequest cfg st p k tss =
  ({| st_store := st_store st;
      st_cache := fold_left (fun c tv => if st_now st - fst tv >? cfg_min_age cfg then cache_set c p (fst tv) (snd tv) else c)
                            fresh (st_cache st);
      st_now := st_now st |},
   map (fun t => entry t (match dict_get (fold_left (fun d tv => dict_set d (fst tv) (snd tv)) fresh R1) t with
                          | Some v => v
                          | None => None
                          end)) tss).
Proof.
  intros. unfold hist_get_samples_by_timestamp. subst f R1 M fresh.
  destruct (lookup_pass (st_cache st) p tss) as [R1 M]. cbn [fst snd].
  rewrite samples_are_fresh, combine_map_self. reflexivity.
Qed.

Theorem by_timestamp_correct : forall cfg st p k tss,
  cache_ok cfg st -> port_kind cfg p = Some k ->
  snd (hist_get_samples_by_timestamp EmitPerRequest cfg st p k tss) = by_timestamp_spec (st_store st) p k tss.
Proof.
  intros cfg st p k tss OK PK. rewrite by_timestamp_unfold. cbn [snd]. unfold by_timestamp_spec.
  destruct (lookup_pass_spec (st_cache st) p tss) as [L1 L2].
  apply map_ext_in. intros t Ht. rewrite fold_results, L2, L1.
  apply mem_In in Ht. rewrite Ht. cbn [andb].
  destruct (cache_get (st_cache st) p t) as [v|] eqn:C.
  - destruct (OK p t v C) as [_ [k' [PK' ->]]]. rewrite PK in PK'. inversion PK'. subst k'.
    unfold fresh_val, entry. destruct (newest_at_or_before (st_store st) p t); reflexivity.
  - unfold fresh_val, entry. destruct (newest_at_or_before (st_store st) p t); reflexivity.
Qed.

(* only the entries of the queried port matter *)
Theorem by_timestamp_correct_port : forall cfg st p k tss,
  (forall t v, cache_get (st_cache st) p t = Some v -> v = fresh_val (st_store st) p k t) ->
  snd (hist_get_samples_by_timestamp EmitPerRequest cfg st p k tss) = by_timestamp_spec (st_store st) p k tss.
Proof.
  intros cfg st p k tss OK. rewrite by_timestamp_unfold. cbn [snd]. unfold by_timestamp_spec.
  destruct (lookup_pass_spec (st_cache st) p tss) as [L1 L2].
  apply map_ext_in. intros t Ht. rewrite fold_results, L2, L1.
  apply mem_In in Ht. rewrite Ht. cbn [andb].
  destruct (cache_get (st_cache st) p t) as [v|] eqn:C.
  - rewrite (OK t v C). unfold fresh_val, entry. destruct (newest_at_or_before (st_store st) p t); reflexivity.
  - unfold fresh_val, entry. destruct (newest_at_or_before (st_store st) p t); reflexivity.
Qed.

Lemma by_timestamp_keeps_invariant : forall cfg st p k tss,
  cache_ok cfg st -> port_kind cfg p = Some k ->
  cache_ok cfg (fst (hist_get_samples_by_timestamp EmitPerRequest cfg st p k tss)).
Proof.
  intros cfg st p k tss OK PK. rewrite by_timestamp_unfold. cbn [fst]. intros p' t' v H. cbn [st_cache st_now st_store] in *.
  apply fold_cache in H. destruct H as [H|[-> [A ->]]].
  - apply OK. assumption.
  - split; [lia|]. exists k. split; [assumption|reflexivity].
Qed.

Lemma by_timestamp_keeps_store : forall cfg st p k tss,
  st_store (fst (hist_get_samples_by_timestamp EmitPerRequest cfg st p k tss)) = st_store st
  /\ st_now (fst (hist_get_samples_by_timestamp EmitPerRequest cfg st p k tss)) = st_now st.
Proof. intros. rewrite by_timestamp_unfold. split; reflexivity. Qed.

(* ---------------------------------------------------------------------------------------------------------- *)
(* every request preserves the invariant *)

Lemma abstract_get_by_ts : forall cfg now p' q p k tss,
  abstract cfg now (ApiGet p' q) = AByTimestamp p k tss -> p' = p /\ port_kind cfg p = Some k.
Proof.
  intros cfg now p' q p k tss H. cbn [abstract] in H. destruct (port_kind cfg p') as [k'|] eqn:PK; [|discriminate].
  destruct (q_timestamps q).
  - repeat match type of H with context [match ?x with _ => _ end] => destruct x; try discriminate end;
      inversion H; subst; split; [reflexivity|assumption].
  - repeat match type of H with context [match ?x with _ => _ end] => destruct x; try discriminate end.
Qed.

Lemma abstract_by_ts_is_get : forall cfg now r p k tss,
  abstract cfg now r = AByTimestamp p k tss -> exists q, r = ApiGet p q /\ port_kind cfg p = Some k.
Proof.
  intros cfg now r p k tss H. destruct r as [p' q|p' q|p' v|d].
  - destruct (abstract_get_by_ts _ _ _ _ _ _ _ H) as [-> PK]. exists q. split; [reflexivity|assumption].
  - cbn [abstract] in H. destruct (port_kind cfg p'), (nonneg_int (q_from q)), (nonneg_int (q_to q)); discriminate.
  - cbn [abstract] in H. destruct v; [destruct (port_on_change cfg p' && (cfg_real_ms cfg <? now))|]; discriminate.
  - discriminate.
Qed.

Lemma filter_filter_implied : forall (g h : sample -> bool) l,
  (forall s, g s = true -> h s = true) -> filter g (filter h l) = filter g l.
Proof.
  induction l as [|a r IH]; intros I; [reflexivity|]. cbn [filter]. destruct (h a) eqn:Eh; cbn [filter].
  - rewrite IH by assumption. reflexivity.
  - destruct (g a) eqn:Eg; [rewrite (I a Eg) in Eh; discriminate|]. apply IH. assumption.
Qed.

Lemma step_keeps_invariant : forall cfg st r,
  0 <= cfg_min_age cfg -> cache_ok cfg st -> cache_ok cfg (fst (step cfg st r)).
Proof.
  intros cfg st r AGE OK. pose proof (step_abstract cfg st r) as SA. unfold step_matches in SA.
  destruct (abstract cfg (st_now st) r) as [p k from to limit|p k tss|p from to|p v|d|] eqn:A.
  - rewrite SA. exact OK.
  - rewrite SA. cbn [fst]. apply abstract_by_ts_is_get in A. destruct A as [q [_ PK]].
    apply by_timestamp_keeps_invariant; assumption.
  - rewrite SA. cbn [fst]. intros p' t' v H. cbn [st_cache st_now st_store] in *.
    rewrite cache_get_pop in H. destruct (p =? p') eqn:E; [discriminate|]. apply Z.eqb_neq in E.
    destruct (OK p' t' v H) as [T [k [PK ->]]]. split; [assumption|]. exists k. split; [assumption|].
    unfold fresh_val, newest_at_or_before, delete_spec. rewrite filter_filter_implied; [reflexivity|].
    intros s Hs. apply andb_prop in Hs. destruct Hs as [Hs _]. apply Z.eqb_eq in Hs.
    unfold in_range. destruct (s_oid s =? p) eqn:E2; [apply Z.eqb_eq in E2; congruence|reflexivity].
  - rewrite SA. cbn [fst]. intros p' t' v' H. cbn [st_cache st_now st_store] in *.
    destruct (OK p' t' v' H) as [T [k [PK ->]]]. split; [assumption|]. exists k. split; [assumption|].
    unfold fresh_val, newest_at_or_before, record_spec. rewrite filter_app. cbn [filter s_oid s_ts fst snd].
    destruct (st_now st <=? t') eqn:E; [apply Z.leb_le in E; lia|]. rewrite andb_false_r, app_nil_r. reflexivity.
  - rewrite SA. cbn [fst]. intros p' t' v' H. cbn [st_cache st_now st_store] in *.
    destruct (OK p' t' v' H) as [T R]. split; [lia|assumption].
  - rewrite SA. exact OK.
Qed.

Theorem run_keeps_invariant : forall cfg rs st,
  0 <= cfg_min_age cfg -> cache_ok cfg st -> cache_ok cfg (fst (run cfg st rs)).
Proof.
  intros cfg rs. induction rs as [|r rs IH]; intros st AGE OK; [exact OK|].
  unfold run in *. cbn [run_gen]. pose proof (step_keeps_invariant cfg st r AGE OK) as OK1. unfold step in OK1.
  destruct (step_gen EmitPerRequest cfg st r) as [st1 o]. cbn [fst] in OK1.
  specialize (IH st1 AGE OK1). destruct (run_gen EmitPerRequest cfg st1 rs) as [st2 os]. exact IH.
Qed.

Lemma empty_cache_ok : forall cfg st, st_cache st = [] -> cache_ok cfg st.
Proof. intros cfg st E p t v H. rewrite E in H. discriminate. Qed.
