(* C18 — compact constructors for the generated case files.  All numbers in a case file are primitive 63-bit integer
   literals (elaborated ~10x faster than Z literals: a shard of 200 request sequences holds ~40 000 numbers); they are
   converted to Z here, inside vm_compute.  Negative numbers are written (0 - n) and read back with the signed view. *)
From Coq Require Import Uint63 Sint63.
From QT Require Export C18.Run.
Open Scope Z_scope.

Definition zi (i : int) : Z := Sint63.to_Z i.

Definition S (o t v : int) : sample := (zi o, zi t, zi v).
Definition VB (b : bool) : value := VBool b.
Definition VI (i : int) : value := VInt (zi i).
Definition VN (i : int) : value := VNum (zi i).
Definition QI (i : int) : qarg := QInt (zi i).
Definition Q (f t l : qarg) (ts : option (list qarg)) : query :=
  {| q_from := f; q_to := t; q_limit := l; q_timestamps := ts |}.
Definition G (p : int) (q : query) : request := ApiGet (zi p) q.
Definition D (p : int) (q : query) : request := ApiDelete (zi p) q.
Definition C (p : int) (v : option int) : request := ValueChange (zi p) (option_map zi v).
Definition K (d : int) : request := AdvanceClock (Z.to_N (zi d)).
Definition TV (t : int) (v : value) : Z * value := (zi t, v).
Definition RS (l : list (Z * value)) : response := RSamples l.
Definition RE (l : list (option (Z * value))) : response := REntries l.
Definition RM (f : int) : response := RMissing (zi f).
Definition RI (f : int) : response := RInvalid (zi f).
Definition CE (p t : int) (v : option value) : Z * Z * option value := (zi p, zi t, v).
Definition O (r : response) (dump : option store) (c : cache) : observation := (r, dump, c).
Definition SEQ (r : request) : hstep := HEv (ISeq r).
Definition ST (id : int) (r : request) : hstep := HEv (IStart (zi id) r).
Definition DR (id : int) : hstep := HEv (IDriver (zi id)).
Definition FI (id : int) : hstep := HEv (IFinish (zi id)).
Definition RT (p : int) (cfg : config) : hstep := HRetype (zi p) cfg.
Definition CASE (cfg : config) (st : store) (now : int) (steps : list (hstep * observation)) : case :=
  (cfg, st, zi now, steps).
