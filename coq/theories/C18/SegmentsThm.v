(* C18 — a request that runs alone is the composition of its three segments: the sequential model (Model.step, for which the
   theorems of MainThm.v hold) is the interleaved model (Interleave.istep) on schedules without overlap. *)
From QT Require Import C18.Spec C18.ApiThm C18.CacheThm C18.Interleave C18.InterleaveThm.
Open Scope Z_scope.

Lemma api_get_via_parse : forall cfg st p q,
  api_get_port_history EmitPerRequest cfg st p q
  = match parse_get cfg (st_now st) p q with
    | PGError e => (st, e)
    | PGSlice k from to limit => (st, RSamples (hist_get_samples_slice st p k from (Some to) (Some limit) false))
    | PGByTs k tss => let '(st', out) := hist_get_samples_by_timestamp EmitPerRequest cfg st p k tss in (st', REntries out)
    end.
Proof.
  intros. unfold api_get_port_history, parse_get.
  destruct (port_kind cfg p); [|reflexivity].
  destruct q as [qf qt ql qts]. cbn [q_from q_to q_limit q_timestamps].
  destruct qf as [| | |zf], qt as [| | |zt], ql as [| | |zl], qts as [l|]; cbn [is_absent andb parse_nonneg]; try reflexivity;
    try (destruct (zf <? 0)); try (destruct (zt <? 0)); try (destruct ((zl <? 1) || (10000 <? zl))); try reflexivity;
    destruct (parse_all l) as [tss|]; try reflexivity; destruct (existsb (fun t => t <? 0) tss); reflexivity.
Qed.

Lemma api_delete_via_parse : forall cfg st p q,
  api_delete_port_history cfg st p q
  = match parse_delete cfg p q with
    | PDError e => (st, e)
    | PDOk from to => (hist_remove_samples st p (Some from) (Some to), RDone)
    end.
Proof.
  intros. unfold api_delete_port_history, parse_delete. destruct (port_kind cfg p); [|reflexivity].
  destruct q as [qf qt ql qts]. cbn [q_from q_to].
  destruct qf as [| | |zf], qt as [| | |zt]; cbn [is_absent parse_nonneg]; try reflexivity;
    try (destruct (zf <? 0)); try (destruct (zt <? 0)); reflexivity.
Qed.

Definition same_flights (a b : list (Z * flight)) : Prop := forall id, fly_get a id = fly_get b id.

Lemma drop_set_fresh : forall l id f, fly_get l id = None -> same_flights (fly_drop (fly_set l id f) id) l.
Proof.
  intros l id f H id'. rewrite fly_get_drop, fly_get_set. destruct (id =? id') eqn:E; [|reflexivity].
  apply Z.eqb_eq in E. subst. symmetry. assumption.
Qed.

Lemma drop_set_set_fresh : forall l id f1 f2,
  fly_get l id = None -> same_flights (fly_drop (fly_set (fly_set l id f1) id f2) id) l.
Proof.
  intros l id f1 f2 H id'. rewrite fly_get_drop, !fly_get_set. destruct (id =? id') eqn:E; [|reflexivity].
  apply Z.eqb_eq in E. subst. symmetry. assumption.
Qed.

Lemma drop_set_set_set_fresh : forall l id f1 f2 f3,
  fly_get l id = None -> same_flights (fly_drop (fly_set (fly_set (fly_set l id f1) id f2) id f3) id) l.
Proof.
  intros l id f1 f2 f3 H id'. rewrite fly_get_drop, !fly_get_set. destruct (id =? id') eqn:E; [|reflexivity].
  apply Z.eqb_eq in E. subst. symmetry. assumption.
Qed.

Ltac fin :=
  repeat split; try reflexivity; try (intro; reflexivity); try (apply drop_set_set_fresh; assumption);
  try (right; reflexivity); try (left; reflexivity).

(* [IStart; IDriver; IFinish] of a fresh id does what the request does when it runs alone: same state, same answer (given at
   the start when the request does not reach the driver, at the end otherwise), and no flight is left behind *)
Theorem alone_is_three_segments : forall cfg s id r,
  fly_get (i_fly s) id = None ->
  let s3 := fst (irun cfg s [IStart id r; IDriver id; IFinish id]) in
  let outs := snd (irun cfg s [IStart id r; IDriver id; IFinish id]) in
  let s' := fst (istep cfg s (ISeq r)) in
  let o := snd (istep cfg s (ISeq r)) in
  i_st s3 = i_st s' /\ i_gens s3 = i_gens s' /\ same_flights (i_fly s3) (i_fly s)
  /\ (outs = [RNone; RNone; o] \/ outs = [o; ROther; ROther]).
Proof.
  intros cfg s id r FR. destruct s as [st gens fly]. cbn [i_fly] in FR.
  assert (NOFLIGHT : forall s0 : istate, i_fly s0 = fly ->
            idriver s0 id = (s0, ROther) /\ ifinish cfg s0 id = (s0, ROther)).
  { intros s0 E. unfold idriver, ifinish. rewrite E, FR. split; reflexivity. }
  destruct r as [p q|p q|p v|d]; cbn [irun istep step step_gen].
  - (* GET *)
    rewrite api_get_via_parse. unfold istart. cbn [i_st i_gens i_fly pops_cache].
    destruct (parse_get cfg (st_now st) p q) as [e|k from to limit|k tss].
    + destruct (NOFLIGHT {| i_st := st; i_gens := gens; i_fly := fly |} eq_refl) as [-> ->]. cbn. fin.
    + cbn [fst snd]. unfold idriver. cbn [i_fly with_fly i_st i_gens]. rewrite fly_get_set, Z.eqb_refl. cbn [fst snd].
      unfold ifinish. cbn [i_fly with_fly i_st i_gens]. rewrite fly_get_set, Z.eqb_refl. cbn [fst snd with_fly i_st i_gens i_fly].
      unfold hist_get_samples_slice. fin.
    + unfold hist_get_samples_by_timestamp.
      destruct (lookup_pass (st_cache st) p tss) as [results missed] eqn:LP. destruct missed as [|m0 ms].
      * destruct (NOFLIGHT {| i_st := st; i_gens := gens; i_fly := fly |} eq_refl) as [-> ->]. destruct st; cbn. fin.
      * cbn [fst snd]. unfold idriver. cbn [i_fly with_fly i_st i_gens]. rewrite fly_get_set, Z.eqb_refl. cbn [fst snd].
        unfold ifinish. cbn [i_fly with_fly i_st i_gens]. rewrite fly_get_set, Z.eqb_refl.
        unfold byts_finish. rewrite Z.eqb_refl. cbn [fst snd i_st i_gens i_fly]. fin.
  - (* DELETE *)
    rewrite api_delete_via_parse. unfold istart. cbn [i_st i_gens i_fly pops_cache].
    destruct (parse_delete cfg p q) as [e|from to].
    + destruct (NOFLIGHT {| i_st := st; i_gens := gens; i_fly := fly |} eq_refl) as [-> ->]. cbn. fin.
    + cbn [fst snd]. unfold idriver. cbn [i_fly i_st i_gens]. rewrite fly_get_set, Z.eqb_refl. cbn [fst snd].
      unfold ifinish. cbn [i_fly i_st i_gens]. rewrite fly_get_set, Z.eqb_refl. cbn [fst snd with_fly i_st i_gens i_fly].
      unfold hist_remove_samples. cbn [st_store st_cache st_now]. fin.
  - (* value change *)
    unfold istart, hist_value_change. cbn [i_st i_gens i_fly pops_cache].
    destruct (negb (cfg_real_ms cfg <? st_now st)).
    { destruct (NOFLIGHT {| i_st := st; i_gens := gens; i_fly := fly |} eq_refl) as [-> ->]. cbn. fin. }
    destruct (negb (port_on_change cfg p)).
    { destruct (NOFLIGHT {| i_st := st; i_gens := gens; i_fly := fly |} eq_refl) as [-> ->]. cbn. fin. }
    destruct v as [v|].
    + cbn [fst snd]. unfold idriver. cbn [i_fly with_fly i_st i_gens]. rewrite fly_get_set, Z.eqb_refl. cbn [fst snd].
      unfold ifinish. cbn [i_fly i_st i_gens]. rewrite fly_get_set, Z.eqb_refl. cbn [fst snd with_fly i_st i_gens i_fly]. fin.
    + destruct (NOFLIGHT {| i_st := st; i_gens := gens; i_fly := fly |} eq_refl) as [-> ->]. cbn. fin.
  - (* clock *)
    unfold istart, with_st. cbn [i_st i_gens i_fly fst snd].
    destruct (NOFLIGHT {| i_st := {| st_store := st_store st; st_cache := st_cache st; st_now := st_now st + Z.of_N d |};
                          i_gens := gens; i_fly := fly |} eq_refl) as [-> ->]. cbn. fin.
Qed.
