(* C18 — overlapping requests: the cache invariant over interleaved segments.

   J s: every cached entry is older than the cache age and equals what the store answers now; every query suspended after its
   driver call that still holds the port's live cache dict carries, for the timestamps it is going to cache, the answers the
   store gives now; a value change suspended before its insert is stamped with the current time.
   J is preserved by every event of a schedule that satisfies [sched_ok]:
     * the clock is not advanced while a request is suspended, and
     * when the removal of a DELETE runs, the port's cache is (still) empty and no suspended query holds the port's live
       dict — which is the case when the removal follows the invalidation without a suspension in between
       ([start_then_driver_clean]); History/C18Race.v shows what happens otherwise. *)
From QT Require Import C18.Spec C18.SortThm C18.ApiThm C18.CacheThm C18.Interleave.
Open Scope Z_scope.

(* ---------------------------------------------------------------------------------------------------------- *)
(* small facts about the bookkeeping *)

Lemma fly_get_drop : forall l id id', fly_get (fly_drop l id) id' = if id =? id' then None else fly_get l id'.
Proof.
  induction l as [|[i f] r IH]; intros; cbn [fly_drop filter fly_get fst].
  - destruct (id =? id'); reflexivity.
  - fold (fly_drop r id). destruct (i =? id) eqn:E; cbn [negb fly_get].
    + rewrite IH. apply Z.eqb_eq in E. subst. destruct (id =? id') eqn:E2; [reflexivity|]. reflexivity.
    + rewrite IH. destruct (i =? id') eqn:E2; [|reflexivity]. apply Z.eqb_eq in E2. subst.
      rewrite Z.eqb_sym, E. reflexivity.
Qed.

Lemma fly_get_set : forall l id f id', fly_get (fly_set l id f) id' = if id =? id' then Some f else fly_get l id'.
Proof. intros. unfold fly_set. cbn [fly_get]. rewrite fly_get_drop. destruct (id =? id'); reflexivity. Qed.

Lemma assoc_filter_other : forall (l : list (Z * Z)) p p', p <> p' ->
  assoc (filter (fun e => negb (fst e =? p)) l) p' = assoc l p'.
Proof.
  induction l as [|[k a] r IH]; intros p p' N; [reflexivity|]. cbn [filter fst assoc].
  destruct (k =? p) eqn:E; cbn [negb assoc].
  - apply Z.eqb_eq in E. subst. destruct (p =? p') eqn:E2; [apply Z.eqb_eq in E2; contradiction|]. apply IH. assumption.
  - rewrite IH by assumption. reflexivity.
Qed.

Lemma gen_of_bump : forall gens p p', gen_of (gen_bump gens p) p' = if p =? p' then gen_of gens p + 1 else gen_of gens p'.
Proof.
  intros. unfold gen_of at 1, gen_bump. cbn [assoc]. destruct (p =? p') eqn:E; [reflexivity|].
  apply Z.eqb_neq in E. rewrite assoc_filter_other by assumption. reflexivity.
Qed.

Lemma fresh_val_record : forall st p' k t p ts v, t < ts -> fresh_val (record_spec st p ts v) p' k t = fresh_val st p' k t.
Proof.
  intros. unfold fresh_val, newest_at_or_before, record_spec. rewrite filter_app. cbn [filter s_oid s_ts fst snd].
  destruct (ts <=? t) eqn:E; [apply Z.leb_le in E; lia|]. rewrite andb_false_r, app_nil_r. reflexivity.
Qed.

Lemma fresh_val_delete_other : forall st p' k t p from to, p <> p' ->
  fresh_val (delete_spec st p from to) p' k t = fresh_val st p' k t.
Proof.
  intros. unfold fresh_val, newest_at_or_before, delete_spec. rewrite filter_filter_implied; [reflexivity|].
  intros s Hs. apply andb_prop in Hs. destruct Hs as [Hs _]. apply Z.eqb_eq in Hs.
  unfold in_range. destruct (s_oid s =? p) eqn:E2; [apply Z.eqb_eq in E2; congruence|reflexivity].
Qed.

Lemma fold_cache_pairs : forall now age p (l : list (Z * option value)) c p' t' v,
  cache_get (fold_left (fun c tv => if now - fst tv >? age then cache_set c p (fst tv) (snd tv) else c) l c) p' t' = Some v ->
  cache_get c p' t' = Some v \/ (p' = p /\ In (t', v) l /\ now - t' > age).
Proof.
  induction l as [|[m w] l IH]; intros c p' t' v H; cbn [fold_left fst snd] in H; [left; assumption|].
  apply IH in H. destruct H as [H|[A [B C]]]; [|right; repeat split; [assumption|right; assumption|assumption]].
  destruct (now - m >? age) eqn:E; [|left; assumption].
  rewrite cache_get_set in H. destruct ((p =? p') && (m =? t')) eqn:E2; [|left; assumption].
  apply andb_prop in E2. destruct E2 as [E3 E4]. apply Z.eqb_eq in E3, E4. subst.
  right. apply Z.gtb_lt in E. inversion H. subst. repeat split; [left; reflexivity|lia].
Qed.

Lemma parse_delete_abstract : forall cfg now p q,
  match parse_delete cfg p q with
  | PDOk from to => abstract cfg now (ApiDelete p q) = ADelete p from to
  | PDError _ => abstract cfg now (ApiDelete p q) = ARejected
  end.
Proof.
  intros. unfold parse_delete. cbn [abstract]. destruct (port_kind cfg p); [|reflexivity].
  rewrite !parse_nonneg_eq. destruct (q_from q) as [| | |zf]; cbn [is_absent nonneg_int]; try reflexivity.
  destruct (0 <=? zf); [|reflexivity].
  destruct (q_to q) as [| | |zt]; cbn [is_absent nonneg_int]; try reflexivity.
  destruct (0 <=? zt); reflexivity.
Qed.

Lemma parse_get_byts_kind : forall cfg now p q k tss, parse_get cfg now p q = PGByTs k tss -> port_kind cfg p = Some k.
Proof.
  intros cfg now p q k tss H. unfold parse_get in H. destruct (port_kind cfg p) as [k'|]; [|discriminate].
  repeat match type of H with context [match ?x with _ => _ end] => destruct x; try discriminate end;
    inversion H; reflexivity.
Qed.

(* ---------------------------------------------------------------------------------------------------------- *)
(* the invariant *)

Definition flight_ok (cfg : config) (s : istate) (f : flight) : Prop :=
  match f with
  | FByTs p k tss results missed now gen samples =>
      port_kind cfg p = Some k /\ now <= st_now (i_st s) /\ gen <= gen_of (i_gens s) p /\
      match samples with
      | Some smp =>
          gen = gen_of (i_gens s) p ->
          forall t v, In (t, v) (combine missed (map (adapt_opt k) smp)) -> now - t > cfg_min_age cfg ->
                      v = fresh_val (st_store (i_st s)) p k t
      | None => True
      end
  | FSave p now v false => now = st_now (i_st s)
  | _ => True
  end.

Definition J (cfg : config) (s : istate) : Prop :=
  cache_ok cfg (i_st s) /\ forall id f, fly_get (i_fly s) id = Some f -> flight_ok cfg s f.

Definition port_clean (s : istate) (p : Z) : Prop :=
  (forall t, cache_get (st_cache (i_st s)) p t = None)
  /\ (forall id k tss r m n g smp, fly_get (i_fly s) id = Some (FByTs p k tss r m n g smp) -> g <> gen_of (i_gens s) p).

Definition event_ok (s : istate) (e : ievent) : Prop :=
  match e with
  | ISeq (AdvanceClock _) | IStart _ (AdvanceClock _) => i_fly s = []
  | IDriver id => match fly_get (i_fly s) id with
                  | Some (FDelete p _ _ false) => port_clean s p
                  | _ => True
                  end
  | _ => True
  end.

Fixpoint sched_ok (cfg : config) (s : istate) (es : list ievent) : Prop :=
  match es with
  | [] => True
  | e :: rest => event_ok s e /\ sched_ok cfg (fst (istep cfg s e)) rest
  end.

(* how a flight fares when the state around it changes *)
Lemma flight_ok_same : forall cfg s s' f,
  st_store (i_st s') = st_store (i_st s) -> st_now (i_st s') = st_now (i_st s) -> i_gens s' = i_gens s ->
  flight_ok cfg s f -> flight_ok cfg s' f.
Proof.
  intros cfg s s' f E1 E2 E3 H. destruct f as [p k tss r m n g smp| | |p n v a]; cbn [flight_ok] in *; try exact I.
  - rewrite E1, E2, E3. exact H.
  - rewrite E2. exact H.
Qed.

(* a sample recorded at the current time does not disturb any flight *)
Lemma flight_ok_record : forall cfg s s' f p v,
  0 <= cfg_min_age cfg ->
  st_store (i_st s') = record_spec (st_store (i_st s)) p (st_now (i_st s)) v ->
  st_now (i_st s') = st_now (i_st s) -> i_gens s' = i_gens s ->
  flight_ok cfg s f -> flight_ok cfg s' f.
Proof.
  intros cfg s s' f p v AGE E1 E2 E3 H. destruct f as [p' k tss r m n g smp| | |p' n v' a]; cbn [flight_ok] in *; try exact I.
  - rewrite E1, E2, E3. destruct H as [PK [NW [GL SM]]]. repeat split; try assumption.
    destruct smp as [smp|]; [|exact I]. intros G t w In1 Old. rewrite fresh_val_record by lia. apply SM; assumption.
  - rewrite E2. exact H.
Qed.

(* the port's dict is popped (generation bumped) and possibly its samples removed: flights of that port go stale, the
   others do not see the difference *)
Lemma flight_ok_pop : forall cfg s s' f p from to,
  (st_store (i_st s') = st_store (i_st s) \/ st_store (i_st s') = delete_spec (st_store (i_st s)) p from to) ->
  st_now (i_st s') = st_now (i_st s) -> i_gens s' = gen_bump (i_gens s) p ->
  flight_ok cfg s f -> flight_ok cfg s' f.
Proof.
  intros cfg s s' f p from to E1 E2 E3 H. destruct f as [p' k tss r m n g smp| | |p' n v' a]; cbn [flight_ok] in *; try exact I.
  - rewrite E2, E3, gen_of_bump. destruct H as [PK [NW [GL SM]]]. split; [assumption|]. split; [assumption|].
    destruct (p =? p') eqn:E.
    + apply Z.eqb_eq in E. subst p'. split; [lia|]. destruct smp as [smp|]; [|exact I]. intros G. lia.
    + apply Z.eqb_neq in E. split; [assumption|]. destruct smp as [smp|]; [|exact I]. intros G t w In1 Old.
      destruct E1 as [->| ->]; [|rewrite fresh_val_delete_other by assumption]; apply SM; assumption.
  - rewrite E2. exact H.
Qed.

Lemma pops_none : forall cfg now r, (forall p f t, abstract cfg now r <> ADelete p f t) -> pops_cache cfg r = None.
Proof.
  intros cfg now r H. destruct r as [? ?|p' q'| |]; try reflexivity. cbn [pops_cache].
  pose proof (parse_delete_abstract cfg now p' q') as PA. destruct (parse_delete cfg p' q'); [reflexivity|].
  exfalso. eapply H. exact PA.
Qed.

Lemma pops_some : forall cfg now r p f t, abstract cfg now r = ADelete p f t -> pops_cache cfg r = Some p.
Proof.
  intros cfg now r p f t A. destruct r as [p' q'|p' q'|p' v|d].
  - cbn [abstract] in A. destruct (port_kind cfg p'); [|discriminate]. destruct (q_timestamps q');
      repeat match type of A with context [match ?x with _ => _ end] => destruct x; try discriminate end.
  - cbn [pops_cache]. pose proof (parse_delete_abstract cfg now p' q') as PA.
    destruct (parse_delete cfg p' q'); rewrite A in PA; inversion PA; reflexivity.
  - cbn [abstract] in A. destruct v; [destruct (port_on_change cfg p' && (cfg_real_ms cfg <? now))|]; discriminate.
  - discriminate.
Qed.

(* ---------------------------------------------------------------------------------------------------------- *)
(* preservation, event by event *)

Lemma J_seq : forall cfg s r, 0 <= cfg_min_age cfg -> J cfg s -> event_ok s (ISeq r) -> J cfg (fst (istep cfg s (ISeq r))).
Proof.
  intros cfg s r AGE [OK FL] EV. cbn [istep].
  pose proof (step_keeps_invariant cfg (i_st s) r AGE OK) as OK'.
  pose proof (step_abstract cfg (i_st s) r) as SA. unfold step_matches in SA.
  destruct (step cfg (i_st s) r) as [st' o] eqn:ST. cbn [fst] in *. split; [exact OK'|].
  cbn [i_fly i_st i_gens]. intros id f Hf. specialize (FL id f Hf).
  destruct (abstract cfg (st_now (i_st s)) r) as [p k from to limit|p k tss|p from to|p v|d|] eqn:A.
  - inversion SA; subst st' o. rewrite (pops_none cfg (st_now (i_st s)) r) by (intros; rewrite A; discriminate).
    eapply flight_ok_same; [..|exact FL]; reflexivity.
  - rewrite (pops_none cfg (st_now (i_st s)) r) by (intros; rewrite A; discriminate).
    inversion SA as [[S1 S2]]. destruct (by_timestamp_keeps_store cfg (i_st s) p k tss) as [K1 K2].
    eapply flight_ok_same; [..|exact FL]; cbn [i_st i_gens]; try reflexivity; assumption.
  - inversion SA; subst st' o. rewrite (pops_some cfg _ r p from to A).
    eapply (flight_ok_pop cfg s _ f p from to); [right| | |exact FL]; reflexivity.
  - inversion SA; subst st' o. rewrite (pops_none cfg (st_now (i_st s)) r) by (intros; rewrite A; discriminate).
    eapply (flight_ok_record cfg s _ f p v AGE); [..|exact FL]; reflexivity.
  - (* the clock: no request is suspended *)
    assert (i_fly s = []) as E.
    { destruct r as [p' q'|p' q'|p' v|d']; try exact EV.
      - cbn [abstract] in A. destruct (port_kind cfg p'); [|discriminate]. destruct (q_timestamps q');
          repeat match type of A with context [match ?x with _ => _ end] => destruct x; try discriminate end.
      - cbn [abstract] in A. destruct (port_kind cfg p'), (nonneg_int (q_from q')), (nonneg_int (q_to q')); discriminate.
      - cbn [abstract] in A. destruct v; [destruct (port_on_change cfg p' && (cfg_real_ms cfg <? st_now (i_st s)))|]; discriminate. }
    rewrite E in Hf. discriminate.
  - cbn [fst] in SA. subst st'. rewrite (pops_none cfg (st_now (i_st s)) r) by (intros; rewrite A; discriminate).
    eapply flight_ok_same; [..|exact FL]; reflexivity.
Qed.

Lemma J_start : forall cfg s id r, 0 <= cfg_min_age cfg -> J cfg s -> event_ok s (IStart id r) -> J cfg (fst (istep cfg s (IStart id r))).
Proof.
  intros cfg s id r AGE [OK FL] EV. cbn [istep]. unfold istart. destruct r as [p q|p q|p v|d].
  - (* GET *)
    destruct (parse_get cfg (st_now (i_st s)) p q) as [e|k from to limit|k tss] eqn:PG; cbn [fst].
    + split; assumption.
    + split; [exact OK|]. cbn [with_fly i_fly]. intros id' f Hf. rewrite fly_get_set in Hf.
      destruct (id =? id'); [inversion Hf; exact I|]. eapply flight_ok_same; [..|exact (FL _ _ Hf)]; reflexivity.
    + destruct (lookup_pass (st_cache (i_st s)) p tss) as [results missed]. destruct missed as [|m0 ms]; cbn [fst].
      * split; assumption.
      * split; [exact OK|]. cbn [with_fly i_fly]. intros id' f Hf. rewrite fly_get_set in Hf.
        destruct (id =? id').
        -- inversion Hf. cbn [flight_ok with_fly i_st i_gens]. repeat split; try lia.
           eapply parse_get_byts_kind. exact PG.
        -- eapply flight_ok_same; [..|exact (FL _ _ Hf)]; reflexivity.
  - (* DELETE: the port's dict is popped *)
    destruct (parse_delete cfg p q) as [e|from to] eqn:PD; cbn [fst]; [split; assumption|].
    split.
    + cbn [i_st]. intros p' t' v H. cbn [st_cache st_now st_store] in *. rewrite cache_get_pop in H.
      destruct (p =? p'); [discriminate|]. apply OK. assumption.
    + cbn [i_fly]. intros id' f Hf. rewrite fly_get_set in Hf. destruct (id =? id'); [inversion Hf; exact I|].
      eapply (flight_ok_pop cfg s _ f p from to); [left| | |exact (FL _ _ Hf)]; reflexivity.
  - (* value change *)
    destruct (negb (cfg_real_ms cfg <? st_now (i_st s))); [split; assumption|].
    destruct (negb (port_on_change cfg p)); [split; assumption|].
    destruct v as [v|]; [|split; assumption]. cbn [fst]. split; [exact OK|].
    cbn [with_fly i_fly]. intros id' f Hf. rewrite fly_get_set in Hf.
    destruct (id =? id'); [inversion Hf; reflexivity|]. eapply flight_ok_same; [..|exact (FL _ _ Hf)]; reflexivity.
  - (* clock *)
    cbn [event_ok] in EV. cbn [fst]. split.
    + cbn [with_st i_st]. intros p' t' v' H. cbn [st_cache st_now st_store] in *. destruct (OK p' t' v' H) as [T R].
      split; [lia|assumption].
    + cbn [with_st i_fly]. intros id' f Hf. rewrite EV in Hf. discriminate.
Qed.

Lemma J_driver : forall cfg s id, 0 <= cfg_min_age cfg -> J cfg s -> event_ok s (IDriver id) -> J cfg (fst (istep cfg s (IDriver id))).
Proof.
  intros cfg s id AGE [OK FL] EV. cbn [istep]. unfold idriver. cbn [event_ok] in EV.
  destruct (fly_get (i_fly s) id) as [f|] eqn:F; [|split; assumption].
  pose proof (FL id f F) as Fok.
  destruct f as [p k tss results missed now gen [smp|]|p k from to limit [a|]|p from to [|]|p now v [|]];
    try (split; assumption); cbn [fst].
  - (* by timestamps: the driver answers from the store as it is now *)
    split; [exact OK|]. cbn [with_fly i_fly]. intros id' f' Hf. rewrite fly_get_set in Hf. destruct (id =? id').
    + inversion Hf. cbn [flight_ok with_fly i_st i_gens] in *. destruct Fok as [PK [NW [GL _]]]. repeat split; try assumption.
      intros G t v In1 Old. rewrite samples_are_fresh, combine_map_self in In1. apply in_map_iff in In1.
      destruct In1 as [x [E _]]. inversion E. reflexivity.
    + eapply flight_ok_same; [..|exact (FL _ _ Hf)]; reflexivity.
  - (* range: no state change *)
    split; [exact OK|]. cbn [with_fly i_fly]. intros id' f' Hf. rewrite fly_get_set in Hf.
    destruct (id =? id'); [inversion Hf; exact I|]. eapply flight_ok_same; [..|exact (FL _ _ Hf)]; reflexivity.
  - (* removal: the port is clean *)
    destruct EV as [C1 C2]. unfold base_remove_samples. rewrite drv_remove_is_spec. split.
    + cbn [i_st]. intros p' t' v H. cbn [st_cache st_now st_store] in *. destruct (OK p' t' v H) as [T [k [PK ->]]].
      split; [assumption|]. exists k. split; [assumption|]. destruct (Z.eq_dec p p') as [->|N].
      * rewrite C1 in H. discriminate.
      * rewrite fresh_val_delete_other by assumption. reflexivity.
    + cbn [i_fly]. intros id' f' Hf. rewrite fly_get_set in Hf. destruct (id =? id'); [inversion Hf; exact I|].
      pose proof (FL _ _ Hf) as H. destruct f' as [p' k tss r m n g smp| | |p' n v' a]; cbn [flight_ok i_st i_gens st_store st_now] in *;
        try exact I; [|exact H].
      destruct H as [PK [NW [GL SM]]]. repeat split; try assumption. destruct smp as [smp|]; [|exact I].
      intros G t w In1 Old. destruct (Z.eq_dec p p') as [->|N].
      * exfalso. eapply C2; [exact Hf|exact G].
      * rewrite fresh_val_delete_other by assumption. apply SM; assumption.
  - (* insert of a value change stamped with the current time *)
    cbn [flight_ok] in Fok. subst now. unfold base_save_sample, drv_insert. split.
    + cbn [i_st]. intros p' t' v' H. cbn [st_cache st_now st_store] in *. destruct (OK p' t' v' H) as [T [k [PK ->]]].
      split; [assumption|]. exists k. split; [assumption|].
      change (st_store (i_st s) ++ [(p, st_now (i_st s), v)]) with (record_spec (st_store (i_st s)) p (st_now (i_st s)) v).
      rewrite fresh_val_record by lia. reflexivity.
    + cbn [i_fly]. intros id' f' Hf. rewrite fly_get_set in Hf. destruct (id =? id'); [inversion Hf; exact I|].
      eapply (flight_ok_record cfg s _ f' p v AGE); [..|exact (FL _ _ Hf)]; reflexivity.
Qed.

Lemma J_finish : forall cfg s id, 0 <= cfg_min_age cfg -> J cfg s -> J cfg (fst (istep cfg s (IFinish id))).
Proof.
  intros cfg s id AGE [OK FL]. cbn [istep]. unfold ifinish.
  destruct (fly_get (i_fly s) id) as [f|] eqn:F; [|split; assumption].
  pose proof (FL id f F) as Fok.
  assert (DROP : forall s', st_store (i_st s') = st_store (i_st s) -> st_now (i_st s') = st_now (i_st s) ->
                            i_gens s' = i_gens s -> i_fly s' = fly_drop (i_fly s) id ->
                            forall id' f', fly_get (i_fly s') id' = Some f' -> flight_ok cfg s' f').
  { intros s' E1 E2 E3 E4 id' f' Hf. rewrite E4, fly_get_drop in Hf. destruct (id =? id'); [discriminate|].
    eapply flight_ok_same; [..|exact (FL _ _ Hf)]; assumption. }
  destruct f as [p k tss results missed now gen [smp|]|p k from to limit [a|]|p from to [|]|p now v [|]];
    try (split; assumption); cbn [fst].
  - (* by timestamps: cache writes, only into the live dict *)
    unfold byts_finish. cbn [fst]. split; [|apply DROP; reflexivity].
    cbn [i_st]. intros p' t' v H. cbn [st_cache st_now st_store] in *.
    cbn [flight_ok] in Fok. destruct Fok as [PK [NW [GL SM]]].
    destruct (gen_of (i_gens s) p =? gen) eqn:G; [|apply OK; assumption].
    apply Z.eqb_eq in G. apply fold_cache_pairs in H. destruct H as [H|[-> [In1 Old]]]; [apply OK; assumption|].
    split; [lia|]. exists k. split; [assumption|]. apply SM; [symmetry; assumption|assumption|assumption].
  - split; [exact OK|]. apply DROP; reflexivity.
  - split; [exact OK|]. apply DROP; reflexivity.
  - split; [exact OK|]. apply DROP; reflexivity.
Qed.

Theorem irun_keeps_invariant : forall cfg es s,
  0 <= cfg_min_age cfg -> J cfg s -> sched_ok cfg s es -> J cfg (fst (irun cfg s es)).
Proof.
  intros cfg es. induction es as [|e es IH]; intros s AGE Js SO; [exact Js|].
  destruct SO as [EV SO]. cbn [irun].
  assert (J1 : J cfg (fst (istep cfg s e))).
  { destruct e as [r|id r|id|id]; [apply J_seq|apply J_start|apply J_driver|apply J_finish]; assumption. }
  destruct (istep cfg s e) as [s1 o]. cbn [fst] in *. specialize (IH s1 AGE J1 SO).
  destruct (irun cfg s1 es) as [s2 os]. exact IH.
Qed.

Lemma J_initial : forall cfg st, st_cache st = [] -> J cfg (istate_of st).
Proof. intros cfg st E. split; [apply empty_cache_ok; exact E|]. intros id f H. discriminate. Qed.

(* the removal directly after the invalidation finds the port clean *)
Lemma start_then_driver_clean : forall cfg s id p q from to,
  J cfg s -> parse_delete cfg p q = PDOk from to ->
  event_ok (fst (istep cfg s (IStart id (ApiDelete p q)))) (IDriver id).
Proof.
  intros cfg s id p q from to [OK FL] PD. cbn [istep]. unfold istart. rewrite PD. cbn [fst event_ok i_fly].
  rewrite fly_get_set, Z.eqb_refl. split.
  - intro t. cbn [i_st st_cache]. rewrite cache_get_pop, Z.eqb_refl. reflexivity.
  - cbn [i_fly i_gens]. intros id' k tss r m n g smp Hf. rewrite fly_get_set in Hf.
    destruct (id =? id'); [discriminate|]. rewrite gen_of_bump, Z.eqb_refl.
    pose proof (FL _ _ Hf) as H. cbn [flight_ok] in H. lia.
Qed.

(* after any admissible schedule, a by-timestamp query that runs alone answers exactly the specification *)
Theorem by_timestamp_after_overlaps : forall cfg st0 es p q k tss,
  0 <= cfg_min_age cfg -> st_cache st0 = [] -> sched_ok cfg (istate_of st0) es ->
  let s := fst (irun cfg (istate_of st0) es) in
  abstract cfg (st_now (i_st s)) (ApiGet p q) = AByTimestamp p k tss ->
  snd (istep cfg s (ISeq (ApiGet p q))) = REntries (by_timestamp_spec (st_store (i_st s)) p k tss).
Proof.
  intros cfg st0 es p q k tss AGE E SO s A.
  assert (Js : J cfg s) by (apply irun_keeps_invariant; [assumption|apply J_initial; assumption|assumption]).
  destruct Js as [OK _]. cbn [istep].
  pose proof (step_abstract cfg (i_st s) (ApiGet p q)) as SA. unfold step_matches in SA. rewrite A in SA.
  destruct (step cfg (i_st s) (ApiGet p q)) as [st' o]. cbn [snd]. inversion SA.
  destruct (abstract_get_by_ts _ _ _ _ _ _ _ A) as [_ PK]. rewrite by_timestamp_correct by assumption. reflexivity.
Qed.

(* ---------------------------------------------------------------------------------------------------------- *)
(* the premise, executable: the harness evaluates it on every schedule it runs *)

Lemma cache_get_none : forall c p, forallb (fun e => negb (fst (fst e) =? p)) c = true -> forall t, cache_get c p t = None.
Proof.
  induction c as [|[[p0 t0] v0] r IH]; intros p H t; [reflexivity|]. cbn [forallb fst] in H. apply andb_prop in H.
  destruct H as [H1 H2]. cbn [cache_get]. destruct (p0 =? p); [discriminate|]. cbn [andb]. apply IH. assumption.
Qed.

Lemma fly_get_In : forall l id f, fly_get l id = Some f -> In (id, f) l.
Proof.
  induction l as [|[i g] r IH]; intros id f H; [discriminate|]. cbn [fly_get] in H. destruct (i =? id) eqn:E.
  - apply Z.eqb_eq in E. inversion H. subst. left. reflexivity.
  - right. apply IH. assumption.
Qed.

Lemma port_cleanb_sound : forall s p, port_cleanb s p = true -> port_clean s p.
Proof.
  intros s p H. apply andb_prop in H. destruct H as [H1 H2]. split; [apply cache_get_none; assumption|].
  intros id k tss r m n g smp Hf G. apply fly_get_In in Hf. rewrite forallb_forall in H2. specialize (H2 _ Hf).
  cbn [snd] in H2. subst g. rewrite !Z.eqb_refl in H2. discriminate.
Qed.

Lemma event_okb_sound : forall s e, event_okb s e = true -> event_ok s e.
Proof.
  intros s e H. destruct e as [r|id r|id|id]; cbn [event_ok event_okb] in *.
  - destruct r; try exact I. destruct (i_fly s); [reflexivity|discriminate].
  - destruct r; try exact I. destruct (i_fly s); [reflexivity|discriminate].
  - destruct (fly_get (i_fly s) id) as [[| |p from to [|]|]|]; try exact I. apply port_cleanb_sound. assumption.
  - exact I.
Qed.

Theorem sched_okb_sound : forall cfg es s, sched_okb cfg s es = true -> sched_ok cfg s es.
Proof.
  intros cfg es. induction es as [|e es IH]; intros s H; [exact I|]. cbn [sched_okb] in H. apply andb_prop in H.
  destruct H as [H1 H2]. split; [apply event_okb_sound; assumption|apply IH; assumption].
Qed.
