(* C18 — overlapping requests: the cache invariant over interleaved segments.

   While a DELETE of port p is suspended in the driver, the port's cache may hold (in the dict created after the first
   invalidation) an answer computed before the removal took effect; the second invalidation, when the DELETE resumes, throws
   that dict away.  So the invariant exempts the ports that have a DELETE in flight:
   J s: every cached entry is older than the cache age and — unless a DELETE of its port is in flight — equals what the
   store answers now; every query suspended after its driver call that still holds the port's live dict carries — unless a
   DELETE of its port is in flight — the answers the store gives now for the timestamps it is going to cache; a value change
   suspended before its insert is stamped with the current time.
   J is preserved by every event of a schedule that satisfies [sched_ok]: the clock is not advanced while a request is
   suspended, and a request starts under an identifier that is not in flight.  No condition on DELETE any more (before
   6506e34 the removal had to follow the invalidation without suspension: History/C18Race.v). *)
From QT Require Import C18.Spec C18.SortThm C18.ApiThm C18.CacheThm C18.Interleave.
Open Scope Z_scope.

(* ---------------------------------------------------------------------------------------------------------- *)
(* small facts about the bookkeeping *)

Lemma fly_get_drop : forall l id id', fly_get (fly_drop l id) id' = if id =? id' then None else fly_get l id'.
Proof.
  induction l as [|[i f] r IH]; intros; cbn [fly_drop filter fly_get fst].
  - destruct (id =? id'); reflexivity.
  - fold (fly_drop r id). destruct (i =? id) eqn:E; cbn [negb fly_get].
    + rewrite IH. apply Z.eqb_eq in E. subst. destruct (id =? id') eqn:E2; [reflexivity|]. reflexivity.
    + rewrite IH. destruct (i =? id') eqn:E2; [|reflexivity]. apply Z.eqb_eq in E2. subst.
      rewrite Z.eqb_sym, E. reflexivity.
Qed.

Lemma fly_get_set : forall l id f id', fly_get (fly_set l id f) id' = if id =? id' then Some f else fly_get l id'.
Proof. intros. unfold fly_set. cbn [fly_get]. rewrite fly_get_drop. destruct (id =? id'); reflexivity. Qed.

Lemma assoc_filter_other : forall (l : list (Z * Z)) p p', p <> p' ->
  assoc (filter (fun e => negb (fst e =? p)) l) p' = assoc l p'.
Proof.
  induction l as [|[k a] r IH]; intros p p' N; [reflexivity|]. cbn [filter fst assoc].
  destruct (k =? p) eqn:E; cbn [negb assoc].
  - apply Z.eqb_eq in E. subst. destruct (p =? p') eqn:E2; [apply Z.eqb_eq in E2; contradiction|]. apply IH. assumption.
  - rewrite IH by assumption. reflexivity.
Qed.

Lemma gen_of_bump : forall gens p p', gen_of (gen_bump gens p) p' = if p =? p' then gen_of gens p + 1 else gen_of gens p'.
Proof.
  intros. unfold gen_of at 1, gen_bump. cbn [assoc]. destruct (p =? p') eqn:E; [reflexivity|].
  apply Z.eqb_neq in E. rewrite assoc_filter_other by assumption. reflexivity.
Qed.

Lemma fresh_val_record : forall st p' k t p ts v, t < ts -> fresh_val (record_spec st p ts v) p' k t = fresh_val st p' k t.
Proof.
  intros. unfold fresh_val, newest_at_or_before, record_spec. rewrite filter_app. cbn [filter s_oid s_ts fst snd].
  destruct (ts <=? t) eqn:E; [apply Z.leb_le in E; lia|]. rewrite andb_false_r, app_nil_r. reflexivity.
Qed.

Lemma fresh_val_delete_other : forall st p' k t p from to, p <> p' ->
  fresh_val (delete_spec st p from to) p' k t = fresh_val st p' k t.
Proof.
  intros. unfold fresh_val, newest_at_or_before, delete_spec. rewrite filter_filter_implied; [reflexivity|].
  intros s Hs. apply andb_prop in Hs. destruct Hs as [Hs _]. apply Z.eqb_eq in Hs.
  unfold in_range. destruct (s_oid s =? p) eqn:E2; [apply Z.eqb_eq in E2; congruence|reflexivity].
Qed.

Lemma fold_cache_pairs : forall now age p (l : list (Z * option value)) c p' t' v,
  cache_get (fold_left (fun c tv => if now - fst tv >? age then cache_set c p (fst tv) (snd tv) else c) l c) p' t' = Some v ->
  cache_get c p' t' = Some v \/ (p' = p /\ In (t', v) l /\ now - t' > age).
Proof.
  induction l as [|[m w] l IH]; intros c p' t' v H; cbn [fold_left fst snd] in H; [left; assumption|].
  apply IH in H. destruct H as [H|[A [B C]]]; [|right; repeat split; [assumption|right; assumption|assumption]].
  destruct (now - m >? age) eqn:E; [|left; assumption].
  rewrite cache_get_set in H. destruct ((p =? p') && (m =? t')) eqn:E2; [|left; assumption].
  apply andb_prop in E2. destruct E2 as [E3 E4]. apply Z.eqb_eq in E3, E4. subst.
  right. apply Z.gtb_lt in E. inversion H. subst. repeat split; [left; reflexivity|lia].
Qed.

Lemma parse_delete_abstract : forall cfg now p q,
  match parse_delete cfg p q with
  | PDOk from to => abstract cfg now (ApiDelete p q) = ADelete p from to
  | PDError _ => abstract cfg now (ApiDelete p q) = ARejected
  end.
Proof.
  intros. unfold parse_delete. cbn [abstract]. destruct (port_kind cfg p); [|reflexivity].
  rewrite !parse_nonneg_eq. destruct (q_from q) as [| | |zf]; cbn [is_absent nonneg_int]; try reflexivity.
  destruct (0 <=? zf); [|reflexivity].
  destruct (q_to q) as [| | |zt]; cbn [is_absent nonneg_int]; try reflexivity.
  destruct (0 <=? zt); reflexivity.
Qed.

Lemma parse_get_byts_kind : forall cfg now p q k tss, parse_get cfg now p q = PGByTs k tss -> port_kind cfg p = Some k.
Proof.
  intros cfg now p q k tss H. unfold parse_get in H. destruct (port_kind cfg p) as [k'|]; [|discriminate].
  repeat match type of H with context [match ?x with _ => _ end] => destruct x; try discriminate end;
    inversion H; reflexivity.
Qed.

(* ---------------------------------------------------------------------------------------------------------- *)
(* the invariant *)

Definition pending_del (s : istate) (p : Z) : Prop :=
  exists id from to a, fly_get (i_fly s) id = Some (FDelete p from to a).

Definition flight_ok (cfg : config) (s : istate) (f : flight) : Prop :=
  match f with
  | FByTs p k tss results missed now gen samples =>
      port_kind cfg p = Some k /\ now <= st_now (i_st s) /\ gen <= gen_of (i_gens s) p /\
      match samples with
      | Some smp =>
          gen = gen_of (i_gens s) p -> ~ pending_del s p ->
          forall t v, In (t, v) (combine missed (map (adapt_opt k) smp)) -> now - t > cfg_min_age cfg ->
                      v = fresh_val (st_store (i_st s)) p k t
      | None => True
      end
  | FSave p now v false => now = st_now (i_st s)
  | _ => True
  end.

Definition cache_ok' (cfg : config) (s : istate) : Prop :=
  forall p t v, cache_get (st_cache (i_st s)) p t = Some v ->
    t + cfg_min_age cfg < st_now (i_st s)
    /\ exists k, port_kind cfg p = Some k /\ (~ pending_del s p -> v = fresh_val (st_store (i_st s)) p k t).

Definition J (cfg : config) (s : istate) : Prop :=
  cache_ok' cfg s /\ forall id f, fly_get (i_fly s) id = Some f -> flight_ok cfg s f.

Definition event_ok (s : istate) (e : ievent) : Prop :=
  match e with
  | ISeq (AdvanceClock _) | IStart _ (AdvanceClock _) => i_fly s = []
  | IStart id _ => fly_get (i_fly s) id = None
  | _ => True
  end.

Fixpoint sched_ok (cfg : config) (s : istate) (es : list ievent) : Prop :=
  match es with
  | [] => True
  | e :: rest => event_ok s e /\ sched_ok cfg (fst (istep cfg s e)) rest
  end.

Lemma pending_set_fresh : forall s id f p fl,
  fly_get (i_fly s) id = None -> i_fly fl = fly_set (i_fly s) id f -> pending_del s p -> pending_del fl p.
Proof.
  intros s id f p fl FR E [id' [from [to [a H]]]]. exists id', from, to, a. rewrite E, fly_get_set.
  destruct (id =? id') eqn:E2; [|assumption]. apply Z.eqb_eq in E2. subst. rewrite FR in H. discriminate.
Qed.

Lemma pops_none : forall cfg now r, (forall p f t, abstract cfg now r <> ADelete p f t) -> pops_cache cfg r = None.
Proof.
  intros cfg now r H. destruct r as [? ?|p' q'| |]; try reflexivity. cbn [pops_cache].
  pose proof (parse_delete_abstract cfg now p' q') as PA. destruct (parse_delete cfg p' q'); [reflexivity|].
  exfalso. eapply H. exact PA.
Qed.

Lemma pops_some : forall cfg now r p f t, abstract cfg now r = ADelete p f t -> pops_cache cfg r = Some p.
Proof.
  intros cfg now r p f t A. destruct r as [p' q'|p' q'|p' v|d].
  - cbn [abstract] in A. destruct (port_kind cfg p'); [|discriminate]. destruct (q_timestamps q');
      repeat match type of A with context [match ?x with _ => _ end] => destruct x; try discriminate end.
  - cbn [pops_cache]. pose proof (parse_delete_abstract cfg now p' q') as PA.
    destruct (parse_delete cfg p' q'); rewrite A in PA; inversion PA; reflexivity.
  - cbn [abstract] in A. destruct v; [destruct (port_on_change cfg p' && (cfg_real_ms cfg <? now))|]; discriminate.
  - discriminate.
Qed.

(* ---------------------------------------------------------------------------------------------------------- *)
(* preservation, event by event *)

(* a step that leaves the flights alone, keeps the clock, pops the dicts of the ports in [popped] and changes the store
   without disturbing protected answers of the other ports *)
Lemma J_generic : forall cfg s s' (popped : Z -> bool),
  0 <= cfg_min_age cfg -> J cfg s ->
  i_fly s' = i_fly s -> st_now (i_st s') = st_now (i_st s) ->
  (forall p, popped p = true -> gen_of (i_gens s) p < gen_of (i_gens s') p /\ forall t, cache_get (st_cache (i_st s')) p t = None) ->
  (forall p, popped p = false -> gen_of (i_gens s') p = gen_of (i_gens s) p
                                 /\ forall t, cache_get (st_cache (i_st s')) p t = cache_get (st_cache (i_st s)) p t) ->
  (forall p k t, popped p = false -> t < st_now (i_st s) ->
                 fresh_val (st_store (i_st s')) p k t = fresh_val (st_store (i_st s)) p k t) ->
  J cfg s'.
Proof.
  intros cfg s s' popped AGE [OK FL] EF EN PT PF SR.
  assert (PD : forall p, pending_del s' p <-> pending_del s p) by (intro p; unfold pending_del; rewrite EF; reflexivity).
  split.
  - intros p t v H. destruct (popped p) eqn:E.
    + rewrite (proj2 (PT p E)) in H. discriminate.
    + destruct (PF p E) as [_ C]. rewrite C in H. destruct (OK p t v H) as [T [k [PK R]]]. rewrite EN.
      split; [assumption|]. exists k. split; [assumption|]. intro NP. rewrite SR; [|assumption|lia].
      apply R. intro P. apply NP. apply PD. assumption.
  - rewrite EF. intros id f Hf. specialize (FL id f Hf).
    destruct f as [p k tss r m n g smp| | |p n v a]; cbn [flight_ok] in *; try exact I; [|rewrite EN; exact FL].
    rewrite EN. destruct FL as [PK [NW [GL SM]]]. split; [assumption|]. split; [assumption|].
    destruct (popped p) eqn:E.
    + destruct (PT p E) as [G _]. split; [lia|]. destruct smp; [|exact I]. intro. lia.
    + destruct (PF p E) as [G _]. rewrite G. split; [assumption|]. destruct smp as [smp|]; [|exact I].
      intros E2 NP t v In1 Old. rewrite SR; [|assumption|lia]. apply SM; try assumption.
      intro P. apply NP. apply PD. assumption.
Qed.

Lemma J_seq : forall cfg s r, 0 <= cfg_min_age cfg -> J cfg s -> event_ok s (ISeq r) -> J cfg (fst (istep cfg s (ISeq r))).
Proof.
  intros cfg s r AGE Js EV. cbn [istep].
  pose proof (step_abstract cfg (i_st s) r) as SA. unfold step_matches in SA.
  destruct (step cfg (i_st s) r) as [st' o] eqn:ST. cbn [fst].
  destruct (abstract cfg (st_now (i_st s)) r) as [p k from to limit|p k tss|p from to|p v|d|] eqn:A.
  - inversion SA; subst st' o. rewrite (pops_none cfg (st_now (i_st s)) r) by (intros; rewrite A; discriminate).
    apply (J_generic cfg s _ (fun _ => false) AGE Js); cbn [i_fly i_st i_gens]; try reflexivity; try discriminate;
      intros; split; reflexivity.
  - (* by timestamps: the cache of p grows; treat through the sequential lemma for the entries of p *)
    rewrite (pops_none cfg (st_now (i_st s)) r) by (intros; rewrite A; discriminate).
    inversion SA as [[S1 S2]]. destruct Js as [OK FL].
    destruct (abstract_by_ts_is_get _ _ _ _ _ _ A) as [q [_ PK]].
    destruct (by_timestamp_keeps_store cfg (i_st s) p k tss) as [K1 K2].
    assert (PD : forall p0, pending_del {| i_st := fst (hist_get_samples_by_timestamp EmitPerRequest cfg (i_st s) p k tss);
                                           i_gens := i_gens s; i_fly := i_fly s |} p0 <-> pending_del s p0)
      by (intro; unfold pending_del; reflexivity).
    split.
    + intros p' t' v H. cbn [i_st] in *. rewrite by_timestamp_unfold in H. cbn [fst st_cache] in H.
      rewrite K1, K2. apply fold_cache in H. destruct H as [H|[-> [Old ->]]].
      * destruct (OK p' t' v H) as [T [k' [PK' R]]]. split; [assumption|]. exists k'. split; [assumption|].
        intro NP. apply R. intro P. apply NP. apply PD. assumption.
      * split; [lia|]. exists k. split; [assumption|]. intro. reflexivity.
    + cbn [i_fly]. intros id f Hf. specialize (FL id f Hf).
      destruct f as [p' k' tss' r' m n g smp| | |p' n v' a]; cbn [flight_ok i_st i_gens] in *; try exact I.
      * rewrite K1, K2. destruct FL as [PK' [NW [GL SM]]]. split; [assumption|]. split; [assumption|]. split; [assumption|]. destruct smp; [|exact I].
        intros E NP. apply SM; [assumption|]. intro P. apply NP. apply PD. assumption.
      * rewrite K2. exact FL.
  - (* delete, alone: popped (twice), removed *)
    inversion SA; subst st' o. rewrite (pops_some cfg _ r p from to A).
    apply (J_generic cfg s _ (fun p' => p' =? p) AGE Js); cbn [i_fly i_st i_gens st_now st_cache st_store]; try reflexivity.
    + intros p' E. apply Z.eqb_eq in E. subst p'. rewrite !gen_of_bump, Z.eqb_refl. split; [lia|].
      intro t. rewrite cache_get_pop, Z.eqb_refl. reflexivity.
    + intros p' E. apply Z.eqb_neq in E. rewrite !gen_of_bump. destruct (p =? p') eqn:E2; [apply Z.eqb_eq in E2; congruence|].
      split; [reflexivity|]. intro t. rewrite cache_get_pop, E2. reflexivity.
    + intros p' k t E _. apply Z.eqb_neq in E. apply fresh_val_delete_other. congruence.
  - inversion SA; subst st' o. rewrite (pops_none cfg (st_now (i_st s)) r) by (intros; rewrite A; discriminate).
    apply (J_generic cfg s _ (fun _ => false) AGE Js); cbn [i_fly i_st i_gens st_now st_cache st_store]; try reflexivity;
      try discriminate.
    + intros; split; reflexivity.
    + intros p' k t _ T. apply fresh_val_record. assumption.
  - (* the clock: no request is suspended *)
    assert (i_fly s = []) as E.
    { destruct r as [p' q'|p' q'|p' v|d']; try exact EV.
      - cbn [abstract] in A. destruct (port_kind cfg p'); [|discriminate]. destruct (q_timestamps q');
          repeat match type of A with context [match ?x with _ => _ end] => destruct x; try discriminate end.
      - cbn [abstract] in A. destruct (port_kind cfg p'), (nonneg_int (q_from q')), (nonneg_int (q_to q')); discriminate.
      - cbn [abstract] in A. destruct v; [destruct (port_on_change cfg p' && (cfg_real_ms cfg <? st_now (i_st s)))|]; discriminate. }
    inversion SA; subst st' o. rewrite (pops_none cfg (st_now (i_st s)) r) by (intros; rewrite A; discriminate).
    destruct Js as [OK FL]. split.
    + intros p' t' v' H. cbn [i_st st_cache st_now st_store] in *. destruct (OK p' t' v' H) as [T [k [PK R]]].
      split; [lia|]. exists k. split; [assumption|]. intro NP. apply R. intros [id [f [t [a P]]]]. rewrite E in P. discriminate.
    + cbn [i_fly]. intros id f Hf. rewrite E in Hf. discriminate.
  - cbn [fst] in SA. subst st'. rewrite (pops_none cfg (st_now (i_st s)) r) by (intros; rewrite A; discriminate).
    apply (J_generic cfg s _ (fun _ => false) AGE Js); cbn [i_fly i_st i_gens]; try reflexivity; try discriminate;
      intros; split; reflexivity.
Qed.

(* adding a flight under a fresh identifier, nothing else *)
Lemma J_add_flight : forall cfg s id f,
  J cfg s -> fly_get (i_fly s) id = None -> flight_ok cfg s f ->
  (match f with FByTs _ _ _ _ _ _ _ (Some _) => False | _ => True end) ->
  J cfg (with_fly s (fly_set (i_fly s) id f)).
Proof.
  intros cfg s id f [OK FL] FR FO SH.
  assert (PM : forall p, pending_del s p -> pending_del (with_fly s (fly_set (i_fly s) id f)) p)
    by (intros p P; eapply pending_set_fresh; [exact FR|reflexivity|exact P]).
  split.
  - intros p t v H. cbn [with_fly i_st] in *. destruct (OK p t v H) as [T [k [PK R]]]. split; [assumption|].
    exists k. split; [assumption|]. intro NP. apply R. intro P. apply NP. apply PM. assumption.
  - cbn [with_fly i_fly]. intros id' f' Hf. rewrite fly_get_set in Hf. destruct (id =? id').
    + inversion Hf. subst f'. destruct f as [p k tss r m n g smp| | |p n v a]; cbn [flight_ok with_fly i_st i_gens] in *; try exact I.
      * destruct FO as [PK [NW [GL _]]]. split; [assumption|]. split; [assumption|]. split; [assumption|]. destruct smp; [contradiction|exact I].
      * exact FO.
    + pose proof (FL _ _ Hf) as H.
      destruct f' as [p k tss r m n g smp| | |p n v a]; cbn [flight_ok with_fly i_st i_gens] in *; try exact I; [|exact H].
      destruct H as [PK [NW [GL SM]]]. split; [assumption|]. split; [assumption|]. split; [assumption|]. destruct smp; [|exact I].
      intros E NP. apply SM; [assumption|]. intro P. apply NP. apply PM. assumption.
Qed.

Lemma J_start : forall cfg s id r, 0 <= cfg_min_age cfg -> J cfg s -> event_ok s (IStart id r) -> J cfg (fst (istep cfg s (IStart id r))).
Proof.
  intros cfg s id r AGE Js EV. cbn [istep]. unfold istart. destruct r as [p q|p q|p v|d].
  - (* GET *)
    cbn [event_ok] in EV.
    destruct (parse_get cfg (st_now (i_st s)) p q) as [e|k from to limit|k tss] eqn:PG; cbn [fst].
    + assumption.
    + apply J_add_flight; try assumption; exact I.
    + destruct (lookup_pass (st_cache (i_st s)) p tss) as [results missed]. destruct missed as [|m0 ms]; cbn [fst]; [assumption|].
      apply J_add_flight; try assumption; [|exact I]. cbn [flight_ok]. repeat split; try lia.
      eapply parse_get_byts_kind. exact PG.
  - (* DELETE: the port's dict is popped, the port has a DELETE in flight from now on *)
    cbn [event_ok] in EV. destruct (parse_delete cfg p q) as [e|from to] eqn:PD; cbn [fst]; [assumption|].
    destruct Js as [OK FL].
    set (s' := {| i_st := {| st_store := st_store (i_st s); st_cache := cache_pop (st_cache (i_st s)) p; st_now := st_now (i_st s) |};
                  i_gens := gen_bump (i_gens s) p; i_fly := fly_set (i_fly s) id (FDelete p from to false) |}).
    assert (PM : forall p0, pending_del s p0 -> pending_del s' p0)
      by (intros p0 P; eapply pending_set_fresh; [exact EV|reflexivity|exact P]).
    split.
    + intros p' t' v H. unfold s' in *. cbn [i_st st_cache st_now st_store] in *. rewrite cache_get_pop in H.
      destruct (p =? p'); [discriminate|]. destruct (OK p' t' v H) as [T [k [PK R]]]. split; [assumption|].
      exists k. split; [assumption|]. intro NP. apply R. intro P. apply NP. apply PM. assumption.
    + unfold s' in *. cbn [i_fly]. intros id' f Hf. rewrite fly_get_set in Hf. destruct (id =? id'); [inversion Hf; exact I|].
      pose proof (FL _ _ Hf) as H.
      destruct f as [p' k tss r m n g smp| | |p' n v a]; cbn [flight_ok i_st i_gens st_now st_store] in *; try exact I; [|exact H].
      destruct H as [PK [NW [GL SM]]]. split; [assumption|]. split; [assumption|]. rewrite gen_of_bump.
      destruct (p =? p') eqn:E.
      * split; [apply Z.eqb_eq in E; subst; lia|]. destruct smp; [|exact I]. intro. apply Z.eqb_eq in E. subst. lia.
      * split; [assumption|]. destruct smp; [|exact I]. intros E2 NP. apply SM; [assumption|]. intro P. apply NP. apply PM. assumption.
  - (* value change *)
    cbn [event_ok] in EV.
    destruct (negb (cfg_real_ms cfg <? st_now (i_st s))); [assumption|].
    destruct (negb (port_on_change cfg p)); [assumption|].
    destruct v as [v|]; [|assumption]. cbn [fst]. apply J_add_flight; try assumption; [reflexivity|exact I].
  - (* clock *)
    cbn [event_ok] in EV. cbn [fst]. destruct Js as [OK FL]. split.
    + intros p' t' v' H. cbn [with_st i_st st_cache st_now st_store] in *. destruct (OK p' t' v' H) as [T [k [PK R]]].
      split; [lia|]. exists k. split; [assumption|]. intro NP. apply R. intros [id' [f [t [a P]]]]. rewrite EV in P. discriminate.
    + cbn [with_st i_fly]. intros id' f Hf. rewrite EV in Hf. discriminate.
Qed.

(* replacing the flight of [id] by a flight of the same kind and port: the DELETEs in flight are the same *)
Lemma pending_replace : forall s s' id f f',
  fly_get (i_fly s) id = Some f -> i_fly s' = fly_set (i_fly s) id f' ->
  (forall p, (exists a b c, f = FDelete p a b c) <-> (exists a b c, f' = FDelete p a b c)) ->
  forall p, pending_del s' p <-> pending_del s p.
Proof.
  intros s s' id f f' F E K p. unfold pending_del. rewrite E. split.
  - intros [id' [a [b [c H]]]]. rewrite fly_get_set in H. destruct (id =? id') eqn:E2.
    + inversion H. subst f'. destruct (proj2 (K p)) as [a' [b' [c' ->]]]; [eauto|]. exists id, a', b', c'. assumption.
    + exists id', a, b, c. assumption.
  - intros [id' [a [b [c H]]]]. destruct (id =? id') eqn:E2.
    + apply Z.eqb_eq in E2. subst id'. rewrite F in H. inversion H. subst f.
      destruct (proj1 (K p)) as [a' [b' [c' ->]]]; [eauto|]. exists id, a', b', c'. rewrite fly_get_set, Z.eqb_refl. reflexivity.
    + exists id', a, b, c. rewrite fly_get_set, E2. assumption.
Qed.

Lemma J_driver : forall cfg s id, 0 <= cfg_min_age cfg -> J cfg s -> J cfg (fst (istep cfg s (IDriver id))).
Proof.
  intros cfg s id AGE [OK FL]. cbn [istep]. unfold idriver.
  destruct (fly_get (i_fly s) id) as [f|] eqn:F; [|split; assumption].
  pose proof (FL id f F) as Fok.
  destruct f as [p k tss results missed now gen [smp|]|p k from to limit [a|]|p from to [|]|p now v [|]];
    try (split; assumption); cbn [fst].
  - (* by timestamps: the driver answers from the store as it is now *)
    set (f' := FByTs p k tss results missed now gen (Some (base_get_samples_by_timestamp (st_store (i_st s)) p missed))).
    assert (PD := pending_replace s (with_fly s (fly_set (i_fly s) id f')) id _ f' F eq_refl).
    assert (PD' : forall p0, pending_del (with_fly s (fly_set (i_fly s) id f')) p0 <-> pending_del s p0).
    { apply PD. intro p0. split; intros [a [b [c H]]]; discriminate. }
    split.
    + intros p' t' v H. cbn [with_fly i_st] in *. destruct (OK p' t' v H) as [T [k' [PK R]]]. split; [assumption|].
      exists k'. split; [assumption|]. intro NP. apply R. intro P. apply NP. apply PD'. assumption.
    + cbn [with_fly i_fly]. intros id' f0 Hf. rewrite fly_get_set in Hf. destruct (id =? id').
      * inversion Hf. subst f0. cbn [f' flight_ok with_fly i_st i_gens] in *. destruct Fok as [PK [NW [GL _]]].
        repeat split; try assumption. intros G NP t v In1 Old. rewrite samples_are_fresh, combine_map_self in In1.
        apply in_map_iff in In1. destruct In1 as [x [E _]]. inversion E. reflexivity.
      * pose proof (FL _ _ Hf) as H0.
        destruct f0 as [p' k' tss' r' m n g smp| | |p' n v a]; cbn [flight_ok with_fly i_st i_gens] in *; try exact I; [|exact H0].
        destruct H0 as [PK [NW [GL SM]]]. split; [assumption|]. split; [assumption|]. split; [assumption|]. destruct smp; [|exact I].
        intros E NP. apply SM; [assumption|]. intro P. apply NP. apply PD'. assumption.
  - (* range: no state change *)
    set (f' := FSlice p k from to limit (Some (base_get_samples_slice (st_store (i_st s)) p from (Some to) (Some limit) false))).
    assert (PD' : forall p0, pending_del (with_fly s (fly_set (i_fly s) id f')) p0 <-> pending_del s p0).
    { apply (pending_replace s (with_fly s (fly_set (i_fly s) id f')) id _ f' F eq_refl). intro p0. split; intros [a [b [c H]]]; discriminate. }
    split.
    + intros p' t' v H. cbn [with_fly i_st] in *. destruct (OK p' t' v H) as [T [k' [PK R]]]. split; [assumption|].
      exists k'. split; [assumption|]. intro NP. apply R. intro P. apply NP. apply PD'. assumption.
    + cbn [with_fly i_fly]. intros id' f0 Hf. rewrite fly_get_set in Hf. destruct (id =? id'); [inversion Hf; exact I|].
      pose proof (FL _ _ Hf) as H0.
      destruct f0 as [p' k' tss' r' m n g smp| | |p' n v a]; cbn [flight_ok with_fly i_st i_gens] in *; try exact I; [|exact H0].
      destruct H0 as [PK [NW [GL SM]]]. split; [assumption|]. split; [assumption|]. split; [assumption|]. destruct smp; [|exact I].
      intros E NP. apply SM; [assumption|]. intro P. apply NP. apply PD'. assumption.
  - (* removal: port p has this DELETE in flight, the other ports do not see the difference *)
    unfold base_remove_samples. rewrite drv_remove_is_spec.
    set (s' := {| i_st := {| st_store := delete_spec (st_store (i_st s)) p from to; st_cache := st_cache (i_st s); st_now := st_now (i_st s) |};
                  i_gens := i_gens s; i_fly := fly_set (i_fly s) id (FDelete p from to true) |}).
    assert (PD' : forall p0, pending_del s' p0 <-> pending_del s p0).
    { apply (pending_replace s s' id _ (FDelete p from to true) F eq_refl). intro p0.
      split; intros [a [b [c H]]]; inversion H; eauto. }
    assert (PP : pending_del s' p) by (exists id, from, to, true; unfold s'; cbn [i_fly]; rewrite fly_get_set, Z.eqb_refl; reflexivity).
    split.
    + intros p' t' v H. unfold s' in *. cbn [i_st st_cache st_now st_store] in *. destruct (OK p' t' v H) as [T [k [PK R]]].
      split; [assumption|]. exists k. split; [assumption|]. intro NP. destruct (Z.eq_dec p p') as [->|N]; [contradiction|].
      rewrite fresh_val_delete_other by assumption. apply R. intro P. apply NP. apply PD'. assumption.
    + unfold s' in *. cbn [i_fly]. intros id' f0 Hf. rewrite fly_get_set in Hf. destruct (id =? id'); [inversion Hf; exact I|].
      pose proof (FL _ _ Hf) as H0.
      destruct f0 as [p' k' tss' r' m n g smp| | |p' n v a]; cbn [flight_ok i_st i_gens st_store st_now] in *; try exact I; [|exact H0].
      destruct H0 as [PK [NW [GL SM]]]. split; [assumption|]. split; [assumption|]. split; [assumption|]. destruct smp; [|exact I].
      intros E NP t w In1 Old. destruct (Z.eq_dec p p') as [->|N]; [contradiction|].
      rewrite fresh_val_delete_other by assumption. apply SM; try assumption. intro P. apply NP. apply PD'. assumption.
  - (* insert of a value change stamped with the current time *)
    cbn [flight_ok] in Fok. subst now. unfold base_save_sample, drv_insert.
    change (st_store (i_st s) ++ [(p, st_now (i_st s), v)]) with (record_spec (st_store (i_st s)) p (st_now (i_st s)) v).
    set (s' := {| i_st := {| st_store := record_spec (st_store (i_st s)) p (st_now (i_st s)) v; st_cache := st_cache (i_st s);
                             st_now := st_now (i_st s) |};
                  i_gens := i_gens s; i_fly := fly_set (i_fly s) id (FSave p (st_now (i_st s)) v true) |}).
    assert (PD' : forall p0, pending_del s' p0 <-> pending_del s p0).
    { apply (pending_replace s s' id _ (FSave p (st_now (i_st s)) v true) F eq_refl). intro p0.
      split; intros [a [b [c H]]]; discriminate. }
    split.
    + intros p' t' v' H. unfold s' in *. cbn [i_st st_cache st_now st_store] in *. destruct (OK p' t' v' H) as [T [k [PK R]]].
      split; [assumption|]. exists k. split; [assumption|]. intro NP. rewrite fresh_val_record by lia.
      apply R. intro P. apply NP. apply PD'. assumption.
    + unfold s' in *. cbn [i_fly]. intros id' f0 Hf. rewrite fly_get_set in Hf. destruct (id =? id'); [inversion Hf; exact I|].
      pose proof (FL _ _ Hf) as H0.
      destruct f0 as [p' k' tss' r' m n g smp| | |p' n v' a]; cbn [flight_ok i_st i_gens st_store st_now] in *; try exact I; [|exact H0].
      destruct H0 as [PK [NW [GL SM]]]. split; [assumption|]. split; [assumption|]. split; [assumption|]. destruct smp; [|exact I].
      intros E NP t w In1 Old. rewrite fresh_val_record by lia. apply SM; try assumption. intro P. apply NP. apply PD'. assumption.
Qed.

(* dropping the flight of [id]: the DELETEs in flight are the same, except possibly the dropped one *)
Lemma pending_drop : forall s s' id f,
  fly_get (i_fly s) id = Some f -> i_fly s' = fly_drop (i_fly s) id ->
  forall p, (forall a b c, f <> FDelete p a b c) -> (pending_del s' p <-> pending_del s p).
Proof.
  intros s s' id f F E p N. unfold pending_del. rewrite E. split.
  - intros [id' [a [b [c H]]]]. rewrite fly_get_drop in H. destruct (id =? id'); [discriminate|]. eauto.
  - intros [id' [a [b [c H]]]]. destruct (id =? id') eqn:E2.
    + apply Z.eqb_eq in E2. subst. rewrite F in H. inversion H. exfalso. eapply N. eassumption.
    + exists id', a, b, c. rewrite fly_get_drop, E2. assumption.
Qed.

Lemma J_finish : forall cfg s id, 0 <= cfg_min_age cfg -> J cfg s -> J cfg (fst (istep cfg s (IFinish id))).
Proof.
  intros cfg s id AGE [OK FL]. cbn [istep]. unfold ifinish.
  destruct (fly_get (i_fly s) id) as [f|] eqn:F; [|split; assumption].
  pose proof (FL id f F) as Fok.
  (* finishing anything but a DELETE: flights other than [id] stay as they are *)
  assert (KEEP : forall s', st_store (i_st s') = st_store (i_st s) -> st_now (i_st s') = st_now (i_st s) ->
                            i_gens s' = i_gens s -> i_fly s' = fly_drop (i_fly s) id ->
                            (forall p a b c, f <> FDelete p a b c) ->
                            (forall p, pending_del s' p <-> pending_del s p)
                            /\ forall id' f', fly_get (i_fly s') id' = Some f' -> flight_ok cfg s' f').
  { intros s' E1 E2 E3 E4 ND.
    assert (PD' : forall p, pending_del s' p <-> pending_del s p) by (intro p; apply (pending_drop s s' id f F E4 p (ND p))).
    split; [exact PD'|]. intros id' f' Hf. rewrite E4, fly_get_drop in Hf. destruct (id =? id'); [discriminate|].
    pose proof (FL _ _ Hf) as H0.
    destruct f' as [p' k' tss' r' m n g smp| | |p' n v a]; cbn [flight_ok] in *; try exact I; [|rewrite E2; exact H0].
    rewrite E1, E2, E3. destruct H0 as [PK [NW [GL SM]]]. split; [assumption|]. split; [assumption|]. split; [assumption|]. destruct smp; [|exact I].
    intros E NP. apply SM; [assumption|]. intro P. apply NP. apply PD'. assumption. }
  destruct f as [p k tss results missed now gen [smp|]|p k from to limit [a|]|p from to [|]|p now v [|]];
    try (split; assumption); cbn [fst].
  - (* by timestamps: cache writes, only into the live dict *)
    unfold byts_finish. cbn [fst].
    match goal with |- J cfg ?S => destruct (KEEP S) as [PD' K2]; try reflexivity; try (intros; discriminate) end.
    split; [|exact K2].
    intros p' t' v H. cbn [i_st st_cache st_now st_store] in *.
    cbn [flight_ok] in Fok. destruct Fok as [PK [NW [GL SM]]].
    assert (OLD : forall p0 t0 v0, cache_get (st_cache (i_st s)) p0 t0 = Some v0 ->
              t0 + cfg_min_age cfg < st_now (i_st s) /\ exists k0, port_kind cfg p0 = Some k0 /\
              (~ pending_del {| i_st := {| st_store := st_store (i_st s);
                                           st_cache := if gen_of (i_gens s) p =? gen
                                                       then fold_left (fun c tv => if now - fst tv >? cfg_min_age cfg then cache_set c p (fst tv) (snd tv) else c)
                                                                      (combine missed (map (adapt_opt k) smp)) (st_cache (i_st s))
                                                       else st_cache (i_st s);
                                           st_now := st_now (i_st s) |};
                                 i_gens := i_gens s; i_fly := fly_drop (i_fly s) id |} p0 -> v0 = fresh_val (st_store (i_st s)) p0 k0 t0)).
    { intros p0 t0 v0 H0. destruct (OK p0 t0 v0 H0) as [T [k0 [PK0 R]]]. split; [assumption|]. exists k0. split; [assumption|].
      intro NP. apply R. intro P. apply NP. apply PD'. assumption. }
    destruct (gen_of (i_gens s) p =? gen) eqn:G; [|apply OLD; assumption].
    apply Z.eqb_eq in G. apply fold_cache_pairs in H. destruct H as [H|[-> [In1 Old]]]; [apply OLD; assumption|].
    split; [lia|]. exists k. split; [assumption|]. intro NP. apply SM; try assumption; [symmetry; assumption|].
    intro P. apply NP. apply PD'. assumption.
  - (* range *)
    match goal with |- J cfg ?S => destruct (KEEP S) as [PD' K2]; try reflexivity; try (intros; discriminate) end.
    split; [|exact K2]. intros p' t' v H. cbn [with_fly i_st] in *. destruct (OK p' t' v H) as [T [k0 [PK0 R]]].
    split; [assumption|]. exists k0. split; [assumption|]. intro NP. apply R. intro P. apply NP. apply PD'. assumption.
  - (* DELETE resumes: second invalidation *)
    set (s' := {| i_st := {| st_store := st_store (i_st s); st_cache := cache_pop (st_cache (i_st s)) p; st_now := st_now (i_st s) |};
                  i_gens := gen_bump (i_gens s) p; i_fly := fly_drop (i_fly s) id |}).
    assert (PD' : forall p0, p0 <> p -> (pending_del s' p0 <-> pending_del s p0)).
    { intros p0 N. apply (pending_drop s s' id _ F eq_refl). intros a b c E. inversion E. congruence. }
    split.
    + intros p' t' v H. unfold s' in *. cbn [i_st st_cache st_now st_store] in *. rewrite cache_get_pop in H.
      destruct (p =? p') eqn:E; [discriminate|]. apply Z.eqb_neq in E.
      destruct (OK p' t' v H) as [T [k0 [PK0 R]]]. split; [assumption|]. exists k0. split; [assumption|].
      intro NP. apply R. intro P. apply NP. apply PD'; [congruence|assumption].
    + unfold s' in *. cbn [i_fly]. intros id' f0 Hf. rewrite fly_get_drop in Hf. destruct (id =? id'); [discriminate|].
      pose proof (FL _ _ Hf) as H0.
      destruct f0 as [p' k' tss' r' m n g smp| | |p' n v a]; cbn [flight_ok i_st i_gens st_store st_now] in *; try exact I; [|exact H0].
      destruct H0 as [PK [NW [GL SM]]]. split; [assumption|]. split; [assumption|]. rewrite gen_of_bump.
      destruct (p =? p') eqn:E.
      * apply Z.eqb_eq in E. subst p'. split; [lia|]. destruct smp; [|exact I]. intro. lia.
      * apply Z.eqb_neq in E. split; [assumption|]. destruct smp; [|exact I]. intros E2 NP. apply SM; [assumption|].
        intro P. apply NP. apply PD'; [congruence|assumption].
  - (* value change *)
    match goal with |- J cfg ?S => destruct (KEEP S) as [PD' K2]; try reflexivity; try (intros; discriminate) end.
    split; [|exact K2]. intros p' t' v' H. cbn [with_fly i_st] in *. destruct (OK p' t' v' H) as [T [k0 [PK0 R]]].
    split; [assumption|]. exists k0. split; [assumption|]. intro NP. apply R. intro P. apply NP. apply PD'. assumption.
Qed.

Theorem irun_keeps_invariant : forall cfg es s,
  0 <= cfg_min_age cfg -> J cfg s -> sched_ok cfg s es -> J cfg (fst (irun cfg s es)).
Proof.
  intros cfg es. induction es as [|e es IH]; intros s AGE Js SO; [exact Js|].
  destruct SO as [EV SO]. cbn [irun].
  assert (J1 : J cfg (fst (istep cfg s e))).
  { destruct e as [r|id r|id|id]; [apply J_seq|apply J_start|apply J_driver|apply J_finish]; assumption. }
  destruct (istep cfg s e) as [s1 o]. cbn [fst] in *. specialize (IH s1 AGE J1 SO).
  destruct (irun cfg s1 es) as [s2 os]. exact IH.
Qed.

Lemma J_initial : forall cfg st, st_cache st = [] -> J cfg (istate_of st).
Proof.
  intros cfg st E. split.
  - intros p t v H. cbn [istate_of i_st] in H. rewrite E in H. discriminate.
  - intros id f H. discriminate.
Qed.

(* after any admissible schedule, a by-timestamp query that runs alone, on a port that has no DELETE in flight, answers
   exactly the specification *)
Theorem by_timestamp_after_overlaps : forall cfg st0 es p q k tss,
  0 <= cfg_min_age cfg -> st_cache st0 = [] -> sched_ok cfg (istate_of st0) es ->
  let s := fst (irun cfg (istate_of st0) es) in
  ~ pending_del s p ->
  abstract cfg (st_now (i_st s)) (ApiGet p q) = AByTimestamp p k tss ->
  snd (istep cfg s (ISeq (ApiGet p q))) = REntries (by_timestamp_spec (st_store (i_st s)) p k tss).
Proof.
  intros cfg st0 es p q k tss AGE E SO s NP A.
  assert (Js : J cfg s) by (apply irun_keeps_invariant; [assumption|apply J_initial; assumption|assumption]).
  destruct Js as [OK _]. cbn [istep].
  pose proof (step_abstract cfg (i_st s) (ApiGet p q)) as SA. unfold step_matches in SA. rewrite A in SA.
  destruct (step cfg (i_st s) (ApiGet p q)) as [st' o]. cbn [snd]. inversion SA.
  destruct (abstract_get_by_ts _ _ _ _ _ _ _ A) as [_ PK]. rewrite by_timestamp_correct_port; [reflexivity|].
  intros t v H. destruct (OK p t v H) as [_ [k' [PK' R]]]. rewrite PK in PK'. inversion PK'. subst k'. apply R. assumption.
Qed.

(* in particular when nothing is in flight *)
Lemma nothing_in_flight : forall s p, i_fly s = [] -> ~ pending_del s p.
Proof. intros s p E [id [a [b [c H]]]]. rewrite E in H. discriminate. Qed.

(* ---------------------------------------------------------------------------------------------------------- *)
(* the premise, executable: the harness evaluates it on every schedule it runs *)

Lemma event_okb_sound : forall s e, event_okb s e = true -> event_ok s e.
Proof.
  intros s e H. destruct e as [r|id r|id|id]; cbn [event_ok event_okb] in *; try exact I.
  - destruct r; try exact I. destruct (i_fly s); [reflexivity|discriminate].
  - destruct r; try (destruct (fly_get (i_fly s) id); [discriminate|reflexivity]).
    destruct (i_fly s); [reflexivity|discriminate].
Qed.

Theorem sched_okb_sound : forall cfg es s, sched_okb cfg s es = true -> sched_ok cfg s es.
Proof.
  intros cfg es. induction es as [|e es IH]; intros s H; [exact I|]. cbn [sched_okb] in H. apply andb_prop in H.
  destruct H as [H1 H2]. split; [apply event_okb_sound; assumption|apply IH; assumption].
Qed.
