(* C18 — specification.  Written without reference to the code's control flow (no cache, no dict, no driver query):
   closed forms over the stored sample list, and the simplest abstract machine (a sample list and a clock).
   Only the vocabulary (samples, port kinds, values, requests, responses, config) is shared with Model.v. *)
From QT Require Export C18.Model.
Open Scope Z_scope.

(* ---------------------------------------------------------------------------------------------------------- *)
(* typed like the port: boolean ports show "non zero", integer ports the integer part, number ports the value *)
Definition typed_like (k : kind) (q : Z) : value :=
  match k with
  | KBool => VBool (if Z.eq_dec q 0 then false else true)
  | KInt => VInt (Z.sgn q * (Z.abs q / 4))
  | KNum => VNum q
  end.

(* ---------------------------------------------------------------------------------------------------------- *)
(* range queries *)

(* the sample belongs to port p and from <= time < to (no lower bound when from is not given) *)
Definition in_range (p : Z) (from : option Z) (to : Z) (s : sample) : bool :=
  (s_oid s =? p) && (match from with Some f => f <=? s_ts s | None => true end) && (s_ts s <? to).

(* "oldest first": the distinct timestamps in increasing order, and under each timestamp the samples that carry it, in
   the order in which they were stored *)
Fixpoint insert_key (k : Z) (ks : list Z) : list Z :=
  match ks with
  | [] => [k]
  | k' :: r => if k <? k' then k :: ks else if k =? k' then ks else k' :: insert_key k r
  end.
Definition keys (l : list sample) : list Z := fold_right insert_key [] (map s_ts l).
Definition sort_by_ts (l : list sample) : list sample :=
  flat_map (fun k => filter (fun s => s_ts s =? k) l) (keys l).

Definition slice_spec (st : store) (p : Z) (k : kind) (from : option Z) (to limit : Z) : list (Z * value) :=
  map (fun s => (s_ts s, typed_like k (s_val s))) (firstn (Z.to_nat limit) (sort_by_ts (filter (in_range p from to) st))).

(* ---------------------------------------------------------------------------------------------------------- *)
(* queries by timestamp *)

(* newest of a list: the head, unless a strictly newer sample follows *)
Fixpoint newest (l : list sample) : option sample :=
  match l with
  | [] => None
  | s :: r => match newest r with
              | None => Some s
              | Some b => if s_ts b <=? s_ts s then Some s else Some b
              end
  end.
Definition newest_at_or_before (st : store) (p t : Z) : option sample :=
  newest (filter (fun s => (s_oid s =? p) && (s_ts s <=? t)) st).

(* one entry per requested timestamp, in request order; the entry carries the requested timestamp *)
Definition by_timestamp_spec (st : store) (p : Z) (k : kind) (tss : list Z) : list (option (Z * value)) :=
  map (fun t => option_map (fun s => (t, typed_like k (s_val s))) (newest_at_or_before st p t)) tss.

(* tie-tolerant variant for drivers that do not keep insertion order among equal timestamps: v is the value of SOME
   sample of p whose timestamp is the largest one <= t (or there is none and the entry is null) *)
Definition newest_ok (st : store) (p : Z) (k : kind) (t : Z) (e : option (Z * value)) : bool :=
  match newest_at_or_before st p t, e with
  | None, None => true
  | Some b, Some (t', v) =>
      (t' =? t) && existsb (fun s => (s_oid s =? p) && (s_ts s =? s_ts b) && value_eqb (typed_like k (s_val s)) v) st
  | _, _ => false
  end.

(* ---------------------------------------------------------------------------------------------------------- *)
(* deletion and recording *)

Definition delete_spec (st : store) (p from to : Z) : store := filter (fun s => negb (in_range p (Some from) to s)) st.
Definition record_spec (st : store) (p now v : Z) : store := st ++ [(p, now, v)].

(* ---------------------------------------------------------------------------------------------------------- *)
(* which requests the property speaks about, and with which effective arguments (API defaults and validation) *)

Inductive areq :=
| ASlice (p : Z) (k : kind) (from : option Z) (to limit : Z)
| AByTimestamp (p : Z) (k : kind) (tss : list Z)
| ADelete (p from to : Z)
| ARecord (p v : Z)
| ATick (d : N)
| ARejected.     (* refused or ignored: the stored samples must not change *)

Definition nonneg_int (a : qarg) : option Z := match a with QInt z => if 0 <=? z then Some z else None | _ => None end.
Definition given (a : qarg) : bool := match a with QAbsent => false | _ => true end.

Fixpoint ints (l : list qarg) : option (list Z) :=
  match l with
  | [] => Some []
  | a :: r => match nonneg_int a, ints r with Some z, Some zs => Some (z :: zs) | _, _ => None end
  end.

Definition abstract (cfg : config) (now : Z) (r : request) : areq :=
  match r with
  | ApiGet p q =>
      match port_kind cfg p with
      | None => ARejected
      | Some k =>
          (* from: absent or empty = no lower bound (then timestamps or an explicit (empty) from must be present);
             to: default now; limit: default 1000, 1..10000; all given numbers are non-negative integers *)
          let from_ok := match q_from q with QAbsent | QEmpty => true | a => if nonneg_int a then true else false end in
          let from := nonneg_int (q_from q) in
          let to := match q_to q with QAbsent => Some now | a => nonneg_int a end in
          let limit := match q_limit q with
                       | QAbsent => Some 1000
                       | a => match nonneg_int a with Some z => if (1 <=? z) && (z <=? 10000) then Some z else None | None => None end
                       end in
          match q_timestamps q with
          | Some l =>
              match from_ok, to, limit, ints l with
              | true, Some _, Some _, Some tss => AByTimestamp p k tss
              | _, _, _, _ => ARejected
              end
          | None =>
              match from_ok && given (q_from q), to, limit with
              | true, Some t, Some n => ASlice p k from t n
              | _, _, _ => ARejected
              end
          end
      end
  | ApiDelete p q =>
      match port_kind cfg p, nonneg_int (q_from q), nonneg_int (q_to q) with
      | Some _, Some f, Some t => ADelete p f t
      | _, _, _ => ARejected
      end
  | ValueChange p v =>
      match v with
      | Some q => if port_on_change cfg p && (cfg_real_ms cfg <? now) then ARecord p q else ARejected
      | None => ARejected
      end
  | AdvanceClock d => ATick d
  end.

(* the abstract machine: a sample list and a clock.  It returns the answer the property prescribes, when it prescribes one *)
Definition spec_step (cfg : config) (s : store * Z) (r : request) : (store * Z) * option response :=
  let '(st, now) := s in
  match abstract cfg now r with
  | ASlice p k from to limit => (s, Some (RSamples (slice_spec st p k from to limit)))
  | AByTimestamp p k tss => (s, Some (REntries (by_timestamp_spec st p k tss)))
  | ADelete p from to => ((delete_spec st p from to, now), Some RDone)
  | ARecord p v => ((record_spec st p now v, now), None)
  | ATick d => ((st, now + Z.of_N d), None)
  | ARejected => (s, None)
  end.

Fixpoint spec_run (cfg : config) (s : store * Z) (rs : list request) : (store * Z) * list (option response) :=
  match rs with
  | [] => (s, [])
  | r :: rest => let '(s1, o) := spec_step cfg s r in
                 let '(s2, os) := spec_run cfg s1 rest in (s2, o :: os)
  end.
