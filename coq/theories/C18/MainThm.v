(* C18 — the statements used by Props/C18.v, over every reachable state. *)
From QT Require Import C18.Spec C18.SortThm C18.ApiThm C18.CacheThm.
Open Scope Z_scope.

Lemma run_reaches_ok : forall cfg st0 rs,
  0 <= cfg_min_age cfg -> st_cache st0 = [] -> cache_ok cfg (fst (run cfg st0 rs)).
Proof. intros. apply run_keeps_invariant; [assumption|apply empty_cache_ok; assumption]. Qed.

Theorem slice_exact : forall cfg st0 rs p q k from to limit,
  let st := fst (run cfg st0 rs) in
  abstract cfg (st_now st) (ApiGet p q) = ASlice p k from to limit ->
  step cfg st (ApiGet p q) = (st, RSamples (slice_spec (st_store st) p k from to limit)).
Proof.
  intros cfg st0 rs p q k from to limit st A. pose proof (step_abstract cfg st (ApiGet p q)) as SA.
  unfold step_matches in SA. rewrite A in SA. exact SA.
Qed.

Theorem by_timestamp_exact : forall cfg st0 rs p q k tss,
  0 <= cfg_min_age cfg -> st_cache st0 = [] ->
  let st := fst (run cfg st0 rs) in
  abstract cfg (st_now st) (ApiGet p q) = AByTimestamp p k tss ->
  snd (step cfg st (ApiGet p q)) = REntries (by_timestamp_spec (st_store st) p k tss)
  /\ st_store (fst (step cfg st (ApiGet p q))) = st_store st.
Proof.
  intros cfg st0 rs p q k tss AGE E st A. pose proof (step_abstract cfg st (ApiGet p q)) as SA.
  unfold step_matches in SA. rewrite A in SA. rewrite SA. cbn [fst snd].
  destruct (abstract_get_by_ts _ _ _ _ _ _ _ A) as [_ PK].
  rewrite by_timestamp_correct; [|apply run_reaches_ok; assumption|assumption].
  split; [reflexivity|apply by_timestamp_keeps_store].
Qed.

Theorem delete_exact : forall cfg st p q from to,
  abstract cfg (st_now st) (ApiDelete p q) = ADelete p from to ->
  snd (step cfg st (ApiDelete p q)) = RDone
  /\ st_store (fst (step cfg st (ApiDelete p q))) = delete_spec (st_store st) p from to.
Proof.
  intros cfg st p q from to A. pose proof (step_abstract cfg st (ApiDelete p q)) as SA.
  unfold step_matches in SA. rewrite A in SA. rewrite SA. split; reflexivity.
Qed.

Theorem delete_membership : forall st p from to s,
  In s (delete_spec st p from to) <-> In s st /\ ~ (s_oid s = p /\ from <= s_ts s < to).
Proof.
  intros. unfold delete_spec. rewrite filter_In. unfold in_range.
  destruct (s_oid s =? p) eqn:E1; destruct (from <=? s_ts s) eqn:E2; destruct (s_ts s <? to) eqn:E3; bools; cbn;
    intuition (try discriminate; try lia).
Qed.

Theorem change_recorded_once : forall cfg st p v,
  port_on_change cfg p = true -> cfg_real_ms cfg < st_now st ->
  step cfg st (ValueChange p (Some v))
  = ({| st_store := st_store st ++ [(p, st_now st, v)]; st_cache := st_cache st; st_now := st_now st |}, RNone).
Proof.
  intros cfg st p v OC RT. pose proof (step_abstract cfg st (ValueChange p (Some v))) as SA.
  unfold step_matches in SA. cbn [abstract] in SA. rewrite OC in SA. apply Z.ltb_lt in RT. rewrite RT in SA. exact SA.
Qed.

Theorem store_only_changes_by_delete_or_record : forall cfg st r,
  match abstract cfg (st_now st) r with
  | ADelete _ _ _ | ARecord _ _ => True
  | _ => st_store (fst (step cfg st r)) = st_store st
  end.
Proof.
  intros cfg st r. pose proof (step_abstract cfg st r) as SA. unfold step_matches in SA.
  destruct (abstract cfg (st_now st) r); try exact I; rewrite SA; try reflexivity.
  apply by_timestamp_keeps_store.
Qed.

(* the whole run against the abstract machine of the specification *)
Definition agrees (o : response) (e : option response) : Prop := match e with Some r => o = r | None => True end.

Lemma step_refines : forall cfg st r,
  0 <= cfg_min_age cfg -> cache_ok cfg st ->
  fst (spec_step cfg (st_store st, st_now st) r) = (st_store (fst (step cfg st r)), st_now (fst (step cfg st r)))
  /\ agrees (snd (step cfg st r)) (snd (spec_step cfg (st_store st, st_now st) r)).
Proof.
  intros cfg st r AGE OK. pose proof (step_abstract cfg st r) as SA. unfold step_matches in SA. unfold spec_step.
  destruct (abstract cfg (st_now st) r) as [p k from to limit|p k tss|p from to|p v|d|] eqn:A; try rewrite SA; cbn [fst snd agrees].
  - split; reflexivity.
  - destruct (abstract_by_ts_is_get _ _ _ _ _ _ A) as [q [_ PK]].
    rewrite by_timestamp_correct by assumption. destruct (by_timestamp_keeps_store cfg st p k tss) as [-> ->].
    split; reflexivity.
  - split; reflexivity.
  - split; [reflexivity|exact I].
  - split; [reflexivity|exact I].
  - split; [reflexivity|exact I].
Qed.

Theorem run_refines_spec : forall cfg rs st0,
  0 <= cfg_min_age cfg -> cache_ok cfg st0 ->
  fst (spec_run cfg (st_store st0, st_now st0) rs) = (st_store (fst (run cfg st0 rs)), st_now (fst (run cfg st0 rs)))
  /\ Forall2 agrees (snd (run cfg st0 rs)) (snd (spec_run cfg (st_store st0, st_now st0) rs)).
Proof.
  intros cfg rs. induction rs as [|r rs IH]; intros st0 AGE OK.
  - split; [reflexivity|constructor].
  - destruct (step_refines cfg st0 r AGE OK) as [S1 S2].
    pose proof (step_keeps_invariant cfg st0 r AGE OK) as OK1.
    unfold run in *. cbn [run_gen spec_run]. unfold step in *.
    destruct (step_gen EmitPerRequest cfg st0 r) as [st1 o]. cbn [fst snd] in *.
    destruct (spec_step cfg (st_store st0, st_now st0) r) as [s1 e]. cbn [fst snd] in *. subst s1.
    specialize (IH st1 AGE OK1). destruct (run_gen EmitPerRequest cfg st1 rs) as [st2 os].
    destruct (spec_run cfg (st_store st1, st_now st1) rs) as [s2 es]. cbn [fst snd] in *.
    destruct IH as [I1 I2]. split; [assumption|constructor; assumption].
Qed.
