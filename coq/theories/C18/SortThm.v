(* C18 — the driver's sort (stable insertion into an ordered list, as list.sort behaves) against the specification's
   "groups by increasing timestamp, store order inside a group"; the newest-sample query against [newest]. *)
From Coq Require Import Sorting.Sorted.
From QT Require Import C18.Spec.
Open Scope Z_scope.

Definition le_ts (a b : sample) : Prop := s_ts a <= s_ts b.
Definition at_ts (k : Z) (s : sample) : bool := s_ts s =? k.

(* ---------------------------------------------------------------------------------------------------------- *)
(* a list ordered by timestamp is determined by its groups *)

Lemma filter_cons_at : forall k a (r : list sample),
  filter (at_ts k) (a :: r) = if s_ts a =? k then a :: filter (at_ts k) r else filter (at_ts k) r.
Proof. reflexivity. Qed.

Lemma filter_nil_all : forall (l : list sample), (forall k, filter (at_ts k) l = []) -> l = [].
Proof.
  intros [|b r] H; [reflexivity|].
  specialize (H (s_ts b)). rewrite filter_cons_at, Z.eqb_refl in H. discriminate.
Qed.

Lemma sorted_unique : forall r1 r2,
  StronglySorted le_ts r1 -> StronglySorted le_ts r2 ->
  (forall k, filter (at_ts k) r1 = filter (at_ts k) r2) -> r1 = r2.
Proof.
  induction r1 as [|a r1 IH]; intros r2 S1 S2 H.
  - symmetry. apply filter_nil_all. intro k. symmetry. apply H.
  - destruct r2 as [|b r2].
    + specialize (H (s_ts a)). rewrite filter_cons_at, Z.eqb_refl in H. discriminate.
    + inversion S1 as [|? ? S1' F1]; subst. inversion S2 as [|? ? S2' F2]; subst.
      assert (Hab : s_ts a = s_ts b).
      { assert (Ia : In a (b :: r2)).
        { pose proof (H (s_ts a)) as Ha. rewrite (filter_cons_at _ a), Z.eqb_refl in Ha.
          assert (I : In a (filter (at_ts (s_ts a)) (b :: r2))) by (rewrite <- Ha; left; reflexivity).
          apply filter_In in I. tauto. }
        assert (Ib : In b (a :: r1)).
        { pose proof (H (s_ts b)) as Hb. rewrite (filter_cons_at _ b), Z.eqb_refl in Hb.
          assert (I : In b (filter (at_ts (s_ts b)) (a :: r1))) by (rewrite Hb; left; reflexivity).
          apply filter_In in I. tauto. }
        rewrite Forall_forall in F1, F2. unfold le_ts in *.
        destruct Ia as [->|Ia]; [reflexivity|]. destruct Ib as [->|Ib]; [reflexivity|].
        specialize (F1 _ Ib). specialize (F2 _ Ia). lia. }
      assert (a = b /\ forall k, filter (at_ts k) r1 = filter (at_ts k) r2) as [-> Ht].
      { split.
        - specialize (H (s_ts a)). rewrite !filter_cons_at, <- Hab, Z.eqb_refl in H. congruence.
        - intro k. specialize (H k). rewrite !filter_cons_at, <- Hab in H.
          destruct (s_ts a =? k); congruence. }
      f_equal. apply IH; assumption.
Qed.

(* ---------------------------------------------------------------------------------------------------------- *)
(* the driver's ascending sort *)

Lemma insert_asc_sorted : forall x l, StronglySorted le_ts l -> StronglySorted le_ts (insert_asc x l).
Proof.
  induction l as [|y r IH]; intros S; cbn [insert_asc].
  - constructor; constructor.
  - inversion S as [|? ? S' F]; subst. destruct (s_ts x <=? s_ts y) eqn:E.
    + apply Z.leb_le in E. constructor; [assumption|]. constructor; [exact E|].
      rewrite Forall_forall in *. intros z Hz. specialize (F z Hz). unfold le_ts in *. lia.
    + apply Z.leb_gt in E. constructor; [apply IH; assumption|].
      assert (G : forall l', Forall (le_ts y) l' -> Forall (le_ts y) (insert_asc x l')).
      { induction l' as [|z l' IH']; intros Fl; cbn [insert_asc].
        - constructor; [unfold le_ts; lia|constructor].
        - inversion Fl; subst. destruct (s_ts x <=? s_ts z).
          + constructor; [unfold le_ts; lia|]. constructor; assumption.
          + constructor; [assumption|]. apply IH'. assumption. }
      apply G. assumption.
Qed.

Lemma insert_asc_group : forall k x l,
  filter (at_ts k) (insert_asc x l) = if at_ts k x then x :: filter (at_ts k) l else filter (at_ts k) l.
Proof.
  induction l as [|y r IH]; cbn [insert_asc filter]; [reflexivity|].
  destruct (s_ts x <=? s_ts y) eqn:E; cbn [filter].
  - reflexivity.
  - rewrite IH. apply Z.leb_gt in E. unfold at_ts. destruct (s_ts x =? k) eqn:Ex; [|reflexivity].
    apply Z.eqb_eq in Ex. destruct (s_ts y =? k) eqn:Ey; [apply Z.eqb_eq in Ey; lia|reflexivity].
Qed.

Lemma sort_asc_sorted : forall l, StronglySorted le_ts (py_sort false l).
Proof. induction l; cbn; [constructor|apply insert_asc_sorted; assumption]. Qed.

Lemma sort_asc_group : forall k l, filter (at_ts k) (py_sort false l) = filter (at_ts k) l.
Proof.
  induction l as [|a r IH]; [reflexivity|]. cbn [py_sort fold_right] in *. rewrite insert_asc_group, IH. reflexivity.
Qed.

(* ---------------------------------------------------------------------------------------------------------- *)
(* the specification's order *)

Lemma insert_key_spec : forall k ks, StronglySorted Z.lt ks ->
  StronglySorted Z.lt (insert_key k ks) /\ forall x, In x (insert_key k ks) <-> x = k \/ In x ks.
Proof.
  induction ks as [|k' r IH]; intros S; cbn [insert_key].
  - split; [repeat constructor|]. intro x. cbn. intuition congruence.
  - inversion S as [|? ? S' F]; subst. destruct (k <? k') eqn:E1.
    + apply Z.ltb_lt in E1. split.
      * constructor; [assumption|]. constructor; [assumption|]. rewrite Forall_forall in *. intros z Hz.
        specialize (F z Hz). lia.
      * intro x. cbn. intuition congruence.
    + apply Z.ltb_ge in E1. destruct (k =? k') eqn:E2.
      * apply Z.eqb_eq in E2. subst. split; [assumption|]. intro x. cbn. intuition congruence.
      * apply Z.eqb_neq in E2. destruct (IH S') as [IS II]. split.
        -- constructor; [assumption|]. rewrite Forall_forall in *. intros z Hz. apply II in Hz.
           destruct Hz as [->|Hz]; [lia|apply F; assumption].
        -- intro x. cbn. rewrite II. intuition congruence.
Qed.

Lemma keys_spec : forall l, StronglySorted Z.lt (keys l) /\ forall x, In x (keys l) <-> exists s, In s l /\ s_ts s = x.
Proof.
  induction l as [|a r [IS II]]; unfold keys in *; cbn [map fold_right].
  - split; [constructor|]. intro x. cbn. split; [tauto|]. intros [s [[] _]].
  - destruct (insert_key_spec (s_ts a) _ IS) as [S I]. split; [exact S|]. intro x. rewrite I, II. split.
    + intros [->|[s [Hs E]]]; [exists a; cbn; tauto|exists s; cbn; tauto].
    + intros [s [[->|Hs] E]]; [left; congruence|right; exists s; tauto].
Qed.

Lemma filter_filter_ts : forall k k' (l : list sample),
  filter (at_ts k) (filter (at_ts k') l) = if k' =? k then filter (at_ts k) l else [].
Proof.
  induction l as [|a r IH]; [destruct (k' =? k); reflexivity|].
  rewrite (filter_cons_at k' a), (filter_cons_at k a).
  destruct (s_ts a =? k') eqn:E1.
  - rewrite filter_cons_at, IH. apply Z.eqb_eq in E1. subst. destruct (s_ts a =? k); reflexivity.
  - rewrite IH. apply Z.eqb_neq in E1. destruct (k' =? k) eqn:E2; [|reflexivity]. apply Z.eqb_eq in E2. subst.
    destruct (s_ts a =? k) eqn:E3; [apply Z.eqb_eq in E3; contradiction|reflexivity].
Qed.

Lemma groups_filter : forall (l : list sample) k ks, StronglySorted Z.lt ks ->
  filter (at_ts k) (flat_map (fun k' => filter (at_ts k') l) ks) = if existsb (Z.eqb k) ks then filter (at_ts k) l else [].
Proof.
  induction ks as [|k' r IH]; intros S; cbn [flat_map existsb]; [reflexivity|].
  inversion S as [|? ? S' F]; subst. rewrite filter_app, filter_filter_ts, (IH S').
  rewrite (Z.eqb_sym k k'). destruct (k' =? k) eqn:E; cbn [orb]; [|reflexivity].
  apply Z.eqb_eq in E. subst. destruct (existsb (Z.eqb k) r) eqn:Ex.
  - apply existsb_exists in Ex. destruct Ex as [x [Hx Ex]]. apply Z.eqb_eq in Ex. subst.
    rewrite Forall_forall in F. specialize (F _ Hx). lia.
  - apply app_nil_r.
Qed.

Lemma filter_none : forall (f : sample -> bool) l, (forall s, In s l -> f s = false) -> filter f l = [].
Proof.
  induction l as [|x l IH]; intros N; [reflexivity|]. cbn [filter]. rewrite (N x (or_introl eq_refl)).
  apply IH. intros s Hs. apply N. right. assumption.
Qed.

Lemma sort_by_ts_group : forall k l, filter (at_ts k) (sort_by_ts l) = filter (at_ts k) l.
Proof.
  intros k l. destruct (keys_spec l) as [S I]. unfold sort_by_ts.
  change (fun k0 => filter (fun s => s_ts s =? k0) l) with (fun k0 => filter (at_ts k0) l).
  rewrite (groups_filter l k (keys l) S). destruct (existsb (Z.eqb k) (keys l)) eqn:E; [reflexivity|].
  symmetry. apply filter_none. intros s Hs. unfold at_ts. destruct (s_ts s =? k) eqn:Es; [|reflexivity].
  apply Z.eqb_eq in Es.
  assert (In k (keys l)) as Hk by (apply I; exists s; tauto).
  assert (existsb (Z.eqb k) (keys l) = true) by (apply existsb_exists; exists k; split; [assumption|apply Z.eqb_refl]).
  congruence.
Qed.

Lemma groups_sorted : forall (l : list sample) ks, StronglySorted Z.lt ks ->
  StronglySorted le_ts (flat_map (fun k' => filter (at_ts k') l) ks)
  /\ forall s, In s (flat_map (fun k' => filter (at_ts k') l) ks) -> In (s_ts s) ks.
Proof.
  induction ks as [|k r IH]; intros S; cbn [flat_map].
  - split; [constructor|]. intros s [].
  - inversion S as [|? ? S' F]; subst. destruct (IH S') as [IS II]. split.
    + assert (G : forall g, (forall s, In s g -> s_ts s = k) ->
                 StronglySorted le_ts (g ++ flat_map (fun k' => filter (at_ts k') l) r)).
      { induction g as [|x g IHg]; intros Hg; cbn [app]; [assumption|]. constructor.
        - apply IHg. intros s Hs. apply Hg. right. assumption.
        - rewrite Forall_forall. intros z Hz. apply in_app_or in Hz. unfold le_ts.
          rewrite (Hg x (or_introl eq_refl)). destruct Hz as [Hz|Hz].
          + rewrite (Hg z (or_intror Hz)). lia.
          + apply II in Hz. rewrite Forall_forall in F. specialize (F _ Hz). lia. }
      apply G. intros s Hs. apply filter_In in Hs. destruct Hs as [_ Hs]. apply Z.eqb_eq in Hs. exact Hs.
    + intros s Hs. apply in_app_or in Hs. destruct Hs as [Hs|Hs].
      * apply filter_In in Hs. destruct Hs as [_ Hs]. apply Z.eqb_eq in Hs. left. symmetry. exact Hs.
      * right. apply II. assumption.
Qed.

Lemma sort_by_ts_sorted : forall l, StronglySorted le_ts (sort_by_ts l).
Proof. intro l. destruct (keys_spec l) as [S _]. apply (groups_sorted l (keys l) S). Qed.

(* the driver's order IS the specified order *)
Theorem py_sort_asc_is_sort_by_ts : forall l, py_sort false l = sort_by_ts l.
Proof.
  intro l. apply sorted_unique; [apply sort_asc_sorted|apply sort_by_ts_sorted|].
  intro k. rewrite sort_asc_group, sort_by_ts_group. reflexivity.
Qed.

(* what [sort_by_ts] means, without reference to any algorithm: ascending timestamps, and under every timestamp exactly the
   samples of the input that carry it, in their input order; these two facts determine the list ([sorted_unique]) *)
Theorem sort_by_ts_characterized : forall l,
  StronglySorted le_ts (sort_by_ts l) /\ forall k, filter (at_ts k) (sort_by_ts l) = filter (at_ts k) l.
Proof. intro l. split; [apply sort_by_ts_sorted|intro k; apply sort_by_ts_group]. Qed.

(* ---------------------------------------------------------------------------------------------------------- *)
(* newest sample: descending stable sort, first record *)

Lemma hd_insert_desc : forall x l,
  hd_error (insert_desc x l) = match hd_error l with
                               | None => Some x
                               | Some y => if s_ts y <=? s_ts x then Some x else Some y
                               end.
Proof. intros x [|y r]; cbn; [reflexivity|]. destruct (s_ts y <=? s_ts x); reflexivity. Qed.

Theorem hd_sort_desc_is_newest : forall l, hd_error (py_sort true l) = newest l.
Proof.
  induction l as [|a r IH]; [reflexivity|]. cbn [py_sort fold_right newest] in *. rewrite hd_insert_desc, IH. reflexivity.
Qed.

(* what [newest] means: a sample of the list with the largest timestamp, the first such one *)
Theorem newest_characterized : forall l,
  match newest l with
  | None => l = []
  | Some b => exists l1 l2, l = l1 ++ b :: l2
                            /\ Forall (fun s => s_ts s < s_ts b) l1 /\ Forall (fun s => s_ts s <= s_ts b) l2
  end.
Proof.
  induction l as [|a r IH]; [reflexivity|]. cbn [newest]. destruct (newest r) as [b|].
  - destruct IH as [l1 [l2 [E [F1 F2]]]]. destruct (s_ts b <=? s_ts a) eqn:C.
    + apply Z.leb_le in C. exists [], r. split; [reflexivity|]. split; [constructor|]. subst r.
      apply Forall_app. split.
      * eapply Forall_impl; [|exact F1]. cbn. intros; lia.
      * constructor; [lia|]. eapply Forall_impl; [|exact F2]. cbn. intros; lia.
    + apply Z.leb_gt in C. exists (a :: l1), l2. subst r. split; [reflexivity|]. split; [constructor; assumption|assumption].
  - subst r. exists [], []. repeat split; constructor.
Qed.
