(* C18 — requests that overlap on a driver whose calls suspend (definitions only).

   core/history.py and the API functions are coroutines: between two `await`s that really suspend, a request runs alone.
   The suspension points that matter are the driver calls, so a request is cut into three atomic segments:
     IStart   argument handling, first loop of get_samples_by_timestamp (cache lookup, `samples_cache` = the port's dict
              OBJECT, created by setdefault), `_samples_cache.pop` of remove_samples, the value read by save_sample
     IDriver  the driver call itself (query / remove / insert on the stored records)
     IFinish  type adaptation, `results`, cache writes, the response.
   The port's cache dict is an object: remove_samples pops it (before the removal and again after it), and an in-flight query that still holds the popped dict
   writes into an orphan nobody reads.  The model keeps a generation number per port (incremented by pop) and drops the
   writes of a query whose generation is stale — observationally the same thing. *)
From QT Require Export C18.Model.
Open Scope Z_scope.

(* argument handling of get_port_history / delete_port_history, without the calls into core/history.py *)
Inductive parsed_get :=
| PGError (r : response)
| PGSlice (k : kind) (from : option Z) (to limit : Z)
| PGByTs (k : kind) (tss : list Z).

Definition parse_get (cfg : config) (now : Z) (p : Z) (q : query) : parsed_get :=
  match port_kind cfg p with
  | None => PGError RNoSuchPort
  | Some k =>
    if is_absent (q_from q) && (match q_timestamps q with None => true | Some _ => false end) then PGError (RMissing 1) else
    match (match q_from q with
           | QAbsent | QEmpty => Some None
           | a => match parse_nonneg a with Some z => Some (Some z) | None => None end
           end) with
    | None => PGError (RInvalid 1)
    | Some from =>
    match (match q_to q with QAbsent => Some now | a => parse_nonneg a end) with
    | None => PGError (RInvalid 2)
    | Some to =>
    match (match q_limit q with
           | QAbsent => Some 1000
           | QInt z => if (z <? 1) || (10000 <? z) then None else Some z
           | _ => None
           end) with
    | None => PGError (RInvalid 3)
    | Some limit =>
    match q_timestamps q with
    | Some l =>
        match parse_all l with
        | None => PGError (RInvalid 4)
        | Some tss => if existsb (fun t => t <? 0) tss then PGError (RInvalid 4) else PGByTs k tss
        end
    | None => PGSlice k from to limit
    end end end end
  end.

Inductive parsed_delete := PDError (r : response) | PDOk (from to : Z).

Definition parse_delete (cfg : config) (p : Z) (q : query) : parsed_delete :=
  match port_kind cfg p with
  | None => PDError RNoSuchPort
  | Some _ =>
    if is_absent (q_from q) then PDError (RMissing 1) else
    match parse_nonneg (q_from q) with
    | None => PDError (RInvalid 1)
    | Some from =>
    if is_absent (q_to q) then PDError (RMissing 2) else
    match parse_nonneg (q_to q) with
    | None => PDError (RInvalid 2)
    | Some to => PDOk from to
    end end
  end.

(* a request between its segments *)
Inductive flight :=
| FByTs (p : Z) (k : kind) (tss : list Z) (results : pydict) (missed : list Z) (now gen : Z) (samples : option (list (option Z)))
| FSlice (p : Z) (k : kind) (from : option Z) (to limit : Z) (answer : option (list (Z * Z)))
| FDelete (p from to : Z) (applied : bool)
| FSave (p now v : Z) (applied : bool).

Record istate := { i_st : state; i_gens : list (Z * Z); i_fly : list (Z * flight) }.

Inductive ievent :=
| ISeq (r : request)                 (* a request that runs alone from start to end *)
| IStart (id : Z) (r : request)
| IDriver (id : Z)
| IFinish (id : Z).

Definition gen_of (gens : list (Z * Z)) (p : Z) : Z := match assoc gens p with Some g => g | None => 0 end.
Definition gen_bump (gens : list (Z * Z)) (p : Z) : list (Z * Z) :=
  (p, gen_of gens p + 1) :: filter (fun e => negb (fst e =? p)) gens.

Fixpoint fly_get (l : list (Z * flight)) (id : Z) : option flight :=
  match l with [] => None | (i, f) :: r => if i =? id then Some f else fly_get r id end.
Definition fly_drop (l : list (Z * flight)) (id : Z) : list (Z * flight) := filter (fun e => negb (fst e =? id)) l.
Definition fly_set (l : list (Z * flight)) (id : Z) (f : flight) : list (Z * flight) := (id, f) :: fly_drop l id.

Definition with_st (s : istate) (st : state) : istate := {| i_st := st; i_gens := i_gens s; i_fly := i_fly s |}.
Definition with_fly (s : istate) (fl : list (Z * flight)) : istate := {| i_st := i_st s; i_gens := i_gens s; i_fly := fl |}.

Definition entries_of (results : pydict) (tss : list Z) : list (option (Z * value)) :=
  map (fun t => entry t (match dict_get results t with Some v => v | None => None end)) tss.

(* second loop of get_samples_by_timestamp; [live] = the dict this query holds is still the port's dict *)
Definition byts_finish (cfg : config) (c : cache) (live : bool) (p : Z) (k : kind) (tss : list Z) (results : pydict)
  (missed : list Z) (now : Z) (samples : list (option Z)) : cache * list (option (Z * value)) :=
  let fresh := combine missed (map (adapt_opt k) samples) in
  let results' := fold_left (fun d tv => dict_set d (fst tv) (snd tv)) fresh results in
  let c' := if live
            then fold_left (fun c tv => if now - fst tv >? cfg_min_age cfg then cache_set c p (fst tv) (snd tv) else c) fresh c
            else c in
  (c', entries_of results' tss).

Definition istart (cfg : config) (s : istate) (id : Z) (r : request) : istate * response :=
  let st := i_st s in
  match r with
  | ApiGet p q =>
      match parse_get cfg (st_now st) p q with
      | PGError e => (s, e)
      | PGSlice k from to limit => (with_fly s (fly_set (i_fly s) id (FSlice p k from to limit None)), RNone)
      | PGByTs k tss =>
          let '(results, missed) := lookup_pass (st_cache st) p tss in
          match missed with
          | [] => (s, REntries (entries_of results tss))          (* `if missed_timestamps:` not taken: no await *)
          | _ => (with_fly s (fly_set (i_fly s) id (FByTs p k tss results missed (st_now st) (gen_of (i_gens s) p) None)),
                  RNone)
          end
      end
  | ApiDelete p q =>
      match parse_delete cfg p q with
      | PDError e => (s, e)
      | PDOk from to =>
          ({| i_st := {| st_store := st_store st; st_cache := cache_pop (st_cache st) p; st_now := st_now st |};
              i_gens := gen_bump (i_gens s) p;
              i_fly := fly_set (i_fly s) id (FDelete p from to false) |}, RNone)
      end
  | ValueChange p v =>
      if negb (cfg_real_ms cfg <? st_now st) then (s, RNone)
      else if negb (port_on_change cfg p) then (s, RNone)
      else match v with
           | None => (s, RNone)
           | Some q => (with_fly s (fly_set (i_fly s) id (FSave p (st_now st) q false)), RNone)
           end
  | AdvanceClock d =>
      (with_st s {| st_store := st_store st; st_cache := st_cache st; st_now := st_now st + Z.of_N d |}, RNone)
  end.

Definition idriver (s : istate) (id : Z) : istate * response :=
  let st := i_st s in
  match fly_get (i_fly s) id with
  | Some (FByTs p k tss results missed now gen None) =>
      (with_fly s (fly_set (i_fly s) id
                     (FByTs p k tss results missed now gen (Some (base_get_samples_by_timestamp (st_store st) p missed)))), RNone)
  | Some (FSlice p k from to limit None) =>
      (with_fly s (fly_set (i_fly s) id
                     (FSlice p k from to limit (Some (base_get_samples_slice (st_store st) p from (Some to) (Some limit) false)))),
       RNone)
  | Some (FDelete p from to false) =>
      ({| i_st := {| st_store := base_remove_samples (st_store st) p (Some from) (Some to); st_cache := st_cache st;
                     st_now := st_now st |};
          i_gens := i_gens s; i_fly := fly_set (i_fly s) id (FDelete p from to true) |}, RNone)
  | Some (FSave p now v false) =>
      ({| i_st := {| st_store := base_save_sample (st_store st) p now v; st_cache := st_cache st; st_now := st_now st |};
          i_gens := i_gens s; i_fly := fly_set (i_fly s) id (FSave p now v true) |}, RNone)
  | _ => (s, ROther)
  end.

Definition ifinish (cfg : config) (s : istate) (id : Z) : istate * response :=
  let st := i_st s in
  match fly_get (i_fly s) id with
  | Some (FByTs p k tss results missed now gen (Some samples)) =>
      let '(c', out) := byts_finish cfg (st_cache st) (gen_of (i_gens s) p =? gen) p k tss results missed now samples in
      ({| i_st := {| st_store := st_store st; st_cache := c'; st_now := st_now st |};
          i_gens := i_gens s; i_fly := fly_drop (i_fly s) id |}, REntries out)
  | Some (FSlice p k from to limit (Some a)) =>
      (with_fly s (fly_drop (i_fly s) id), RSamples (map (fun x => (fst x, adapt k (snd x))) a))
  | Some (FDelete p from to true) =>
      (* back from the driver: the port's dict is popped a second time (6506e34) *)
      ({| i_st := {| st_store := st_store st; st_cache := cache_pop (st_cache st) p; st_now := st_now st |};
          i_gens := gen_bump (i_gens s) p; i_fly := fly_drop (i_fly s) id |}, RDone)
  | Some (FSave p now v true) => (with_fly s (fly_drop (i_fly s) id), RNone)
  | _ => (s, ROther)
  end.

Definition pops_cache (cfg : config) (r : request) : option Z :=
  match r with
  | ApiDelete p q => match parse_delete cfg p q with PDOk _ _ => Some p | PDError _ => None end
  | _ => None
  end.

Definition istep (cfg : config) (s : istate) (e : ievent) : istate * response :=
  match e with
  | ISeq r =>
      let '(st', o) := step cfg (i_st s) r in
      ({| i_st := st'; i_gens := match pops_cache cfg r with Some p => gen_bump (gen_bump (i_gens s) p) p | None => i_gens s end;
          i_fly := i_fly s |}, o)
  | IStart id r => istart cfg s id r
  | IDriver id => idriver s id
  | IFinish id => ifinish cfg s id
  end.

Fixpoint irun (cfg : config) (s : istate) (es : list ievent) : istate * list response :=
  match es with
  | [] => (s, [])
  | e :: rest => let '(s1, o) := istep cfg s e in let '(s2, os) := irun cfg s1 rest in (s2, o :: os)
  end.

Definition istate_of (st : state) : istate := {| i_st := st; i_gens := []; i_fly := [] |}.

(* executable form of the premise of the interleaving theorem (InterleaveThm.sched_ok): the clock is not advanced while a
   request is suspended, and a request starts under an identifier that is not in flight.  Evaluated by the harness on
   every schedule it runs. *)
Definition event_okb (s : istate) (e : ievent) : bool :=
  match e with
  | ISeq (AdvanceClock _) | IStart _ (AdvanceClock _) => match i_fly s with [] => true | _ => false end
  | IStart id _ => match fly_get (i_fly s) id with None => true | Some _ => false end
  | _ => true
  end.

Fixpoint sched_okb (cfg : config) (s : istate) (es : list ievent) : bool :=
  match es with
  | [] => true
  | e :: rest => event_okb s e && sched_okb cfg (fst (istep cfg s e)) rest
  end.
