(* C18 — dispatch used by the generated case files.
   A case = configuration, initial store, initial clock, and the request sequence together with what the real
   implementation did at every step (its response, the driver's records when they changed, the contents of
   core.history._samples_cache).  [bad_model] = cases where the model (Model.step) does something else;
   [bad_spec] = cases where the implementation contradicts the specification (Spec.spec_step).
   Both return  1000 * case index + index of the first offending step (as Z: unary nat results of this size are slow to build and print). *)
From QT Require Export C18.Spec C18.Interleave C18.SpecI.
Open Scope Z_scope.

Definition sample_eqb (a b : sample) : bool := (s_oid a =? s_oid b) && (s_ts a =? s_ts b) && (s_val a =? s_val b).
Definition tv_eqb (a b : Z * value) : bool := (fst a =? fst b) && value_eqb (snd a) (snd b).

Definition response_eqb (a b : response) : bool :=
  match a, b with
  | RSamples x, RSamples y => list_eqb tv_eqb x y
  | REntries x, REntries y => list_eqb (option_eqb tv_eqb) x y
  | RDone, RDone | RNoSuchPort, RNoSuchPort | RNone, RNone => true
  | RMissing x, RMissing y | RInvalid x, RInvalid y => x =? y
  | _, _ => false
  end.

(* observed cache (a dict, so keys are unique) against the model's association list (unique keys by construction) *)
Definition cache_same (obs model : cache) : bool :=
  (Nat.eqb (List.length obs) (List.length model))
  && forallb (fun e => match cache_get model (fst (fst e)) (snd (fst e)) with
                       | Some v => option_eqb value_eqb v (snd e)
                       | None => false
                       end) obs.

(* what the implementation did at one step *)
Definition observation := (response * option store * cache)%type.
(* a step of a case: an event of the interleaved model, or the harness replacing port p by a new port under the same id
   (all samples of p removed through history.remove_samples([port]), then the registry holds the kinds of cfg') *)
Inductive hstep := HEv (e : ievent) | HRetype (p : Z) (cfg' : config).
Definition case := (config * store * Z * list (hstep * observation))%type.

Definition forget_port (s : istate) (p : Z) : istate :=
  {| i_st := hist_remove_samples (i_st s) p None None; i_gens := gen_bump (gen_bump (i_gens s) p) p; i_fly := i_fly s |}.

Definition store_agrees (dump : option store) (st : store) : bool :=
  match dump with None => true | Some d => list_eqb sample_eqb d st end.

Fixpoint first_bad_model (cfg : config) (st : istate) (steps : list (hstep * observation)) (i : Z) : option Z :=
  match steps with
  | [] => None
  | (h, (resp, dump, c)) :: rest =>
      let '(cfg', st', out) := match h with
                               | HEv e => let '(st', out) := istep cfg st e in (cfg, st', out)
                               | HRetype p cfg' => (cfg', forget_port st p, RNone)
                               end in
      if response_eqb out resp && store_agrees dump (st_store (i_st st')) && cache_same c (st_cache (i_st st'))
      then first_bad_model cfg' st' rest (i + 1) else Some i
  end.

(* the premise of the interleaving theorem, epoch by epoch *)
Fixpoint sched_bad (cfg : config) (st : istate) (steps : list (hstep * observation)) : bool :=
  match steps with
  | [] => false
  | (HEv e, _) :: rest => negb (event_okb st e) || sched_bad cfg (fst (istep cfg st e)) rest
  | (HRetype p cfg', _) :: rest => (match i_fly st with [] => false | _ => true end) || sched_bad cfg' (forget_port st p) rest
  end.

(* tie-tolerant comparison of a slice answer: same length, ascending timestamps, and under every timestamp strictly
   below the last one the same values in some order (used for drivers without a stable order among equal timestamps) *)
Definition count_tv (x : Z * value) (l : list (Z * value)) : nat := List.length (filter (tv_eqb x) l).
Fixpoint ascending (l : list (Z * value)) : bool :=
  match l with
  | a :: ((b :: _) as r) => (fst a <=? fst b) && ascending r
  | _ => true
  end.
Definition slice_ok_relaxed (expected observed : list (Z * value)) (pool : list (Z * value)) : bool :=
  Nat.eqb (List.length expected) (List.length observed) && ascending observed
  && list_eqb Z.eqb (map fst expected) (map fst observed)
  && forallb (fun x => Nat.leb (count_tv x observed) (count_tv x pool)) observed
  && (let last_ts := last (map fst expected) 0 in
      forallb (fun x => (fst x =? last_ts) || Nat.eqb (count_tv x observed) (count_tv x expected)) (expected ++ observed)).

Definition spec_response_ok (strict : bool) (cfg : config) (s : store * Z) (r : request) (expected observed : response) : bool :=
  if strict then response_eqb expected observed else
  match abstract cfg (snd s) r, observed with
  | ASlice p k from to _, RSamples obs =>
      match expected with
      | RSamples e => slice_ok_relaxed e obs (map (fun x => (s_ts x, typed_like k (s_val x))) (filter (in_range p from to) (fst s)))
      | _ => false
      end
  | AByTimestamp p k tss, REntries obs =>
      Nat.eqb (List.length tss) (List.length obs) && forallb (fun te => newest_ok (fst s) p k (fst te) (snd te)) (combine tss obs)
  | _, _ => response_eqb expected observed
  end.

Definition store_same_multiset (a b : store) : bool :=
  Nat.eqb (List.length a) (List.length b) && forallb (fun x => Nat.eqb (List.length (filter (sample_eqb x) a)) (List.length (filter (sample_eqb x) b))) a.

(* requests that run alone are compared as before (exactly, or tie-tolerantly for drivers without a stable order);
   segments of overlapping requests go to SpecI.ispec_step *)
Definition spec_event (strict : bool) (cfg : config) (s : wstate) (e : ievent) (resp : response) : wstate * bool :=
  match e with
  | ISeq r =>
      let '(s', expected) := spec_step cfg (ws_store s, ws_now s) r in
      ({| ws_store := fst s'; ws_now := snd s'; ws_open := publish (ws_open s) (fst s') |},
       match expected with Some x => spec_response_ok strict cfg (ws_store s, ws_now s) r x resp | None => true end)
  | _ => ispec_step cfg s e resp
  end.

Fixpoint first_bad_spec (strict : bool) (cfg : config) (s : wstate) (steps : list (hstep * observation)) (i : Z)
  : option Z :=
  match steps with
  | [] => None
  | (h, (resp, dump, _)) :: rest =>
      let '(cfg', s', resp_ok) :=
        match h with
        | HEv e => let '(s', ok) := spec_event strict cfg s e resp in (cfg, s', ok)
        | HRetype p cfg' =>
            (* the old port and its history are gone; from now on answers are typed like the port registered now *)
            (cfg', {| ws_store := filter (fun x => negb (s_oid x =? p)) (ws_store s); ws_now := ws_now s; ws_open := [] |},
             response_eqb RNone resp)
        end in
      let store_ok := match dump with
                      | None => true
                      | Some d => if strict then list_eqb sample_eqb d (ws_store s') else store_same_multiset d (ws_store s')
                      end in
      if resp_ok && store_ok then first_bad_spec strict cfg' s' rest (i + 1) else Some i
  end.

Fixpoint collect (f : case -> option Z) (cases : list case) (i : Z) : list Z :=
  match cases with
  | [] => []
  | c :: rest => match f c with
                 | Some j => (1000 * i + j) :: collect f rest (i + 1)
                 | None => collect f rest (i + 1)
                 end
  end.

Definition bad_model (cases : list case) : list Z :=
  collect (fun '(cfg, st0, now0, steps) =>
             first_bad_model cfg (istate_of {| st_store := st0; st_cache := []; st_now := now0 |}) steps 0) cases 0.
(* schedules outside the premise of the interleaving theorem *)
Definition bad_sched (cases : list case) : list Z :=
  collect (fun '(cfg, st0, now0, steps) =>
             if sched_bad cfg (istate_of {| st_store := st0; st_cache := []; st_now := now0 |}) steps
             then Some 0 else None) cases 0.
Definition bad_spec (cases : list case) : list Z :=
  collect (fun '(cfg, st0, now0, steps) => first_bad_spec true cfg {| ws_store := st0; ws_now := now0; ws_open := [] |} steps 0) cases 0.
(* for drivers whose order among equal timestamps is unspecified (Redis sets, MongoDB) *)
Definition bad_spec_relaxed (cases : list case) : list Z :=
  collect (fun '(cfg, st0, now0, steps) => first_bad_spec false cfg {| ws_store := st0; ws_now := now0; ws_open := [] |} steps 0) cases 0.
