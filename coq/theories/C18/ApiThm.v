(* C18 — the API functions' argument handling against [Spec.abstract]; range queries, deletion, recording. *)
From QT Require Import C18.Spec C18.SortThm.
Open Scope Z_scope.

Ltac bools :=
  repeat match goal with
         | H : (_ <? _) = true |- _ => apply Z.ltb_lt in H
         | H : (_ <? _) = false |- _ => apply Z.ltb_ge in H
         | H : (_ <=? _) = true |- _ => apply Z.leb_le in H
         | H : (_ <=? _) = false |- _ => apply Z.leb_gt in H
         | H : (_ =? _) = true |- _ => apply Z.eqb_eq in H
         | H : (_ =? _) = false |- _ => apply Z.eqb_neq in H
         end.
Ltac split_tests :=
  repeat match goal with
         | |- context [?a <? ?b] => destruct (a <? b) eqn:?
         | |- context [?a <=? ?b] => destruct (a <=? b) eqn:?
         end; bools; try lia; cbn; try reflexivity.

Lemma adapt_typed : forall k q, adapt k q = typed_like k q.
Proof.
  intros [] q; cbn; try reflexivity.
  - destruct (Z.eq_dec q 0) as [->|N]; [reflexivity|]. f_equal. apply Z.eqb_neq in N. rewrite N. reflexivity.
  - f_equal. rewrite Z.quot_div by lia. change (Z.sgn 4) with 1. change (Z.abs 4) with 4. lia.
Qed.

Lemma parse_nonneg_eq : forall a, parse_nonneg a = nonneg_int a.
Proof. intros [| | |z]; try reflexivity. cbn. split_tests. Qed.

Lemma parse_all_ints : forall l,
  ints l = match parse_all l with
           | Some tss => if existsb (fun t => t <? 0) tss then None else Some tss
           | None => None
           end.
Proof.
  induction l as [|a r IH]; [reflexivity|]. cbn [ints parse_all]. rewrite IH. clear IH.
  destruct a as [| | |z]; try reflexivity.
  destruct (parse_all r) as [zs|]; cbn [nonneg_int existsb].
  - destruct (0 <=? z) eqn:E1; destruct (z <? 0) eqn:E2; bools; try lia; cbn [orb]; [|reflexivity].
    destruct (existsb (fun t => t <? 0) zs); reflexivity.
  - destruct (0 <=? z); reflexivity.
Qed.

Lemma matches_in_range : forall p from to s, filter_matches p from (Some to) None s = in_range p from to s.
Proof.
  intros. unfold filter_matches, in_range, opt_test. rewrite andb_true_r. destruct from; reflexivity.
Qed.

Lemma matches_at_or_before : forall p t s,
  filter_matches p None None (Some t) s = (s_oid s =? p) && (s_ts s <=? t).
Proof. intros. unfold filter_matches, opt_test. rewrite !andb_true_r. reflexivity. Qed.

Lemma hist_slice_is_spec : forall st p k from to limit,
  hist_get_samples_slice st p k from (Some to) (Some limit) false = slice_spec (st_store st) p k from to limit.
Proof.
  intros. unfold hist_get_samples_slice, base_get_samples_slice, drv_query, slice_spec, apply_limit.
  rewrite map_map. cbn [fst snd]. rewrite py_sort_asc_is_sort_by_ts.
  rewrite (filter_ext _ _ (matches_in_range p from to)).
  apply map_ext. intro s. rewrite adapt_typed. reflexivity.
Qed.

Lemma drv_remove_is_spec : forall st p from to, drv_remove st p (Some from) (Some to) = delete_spec st p from to.
Proof.
  induction st as [|s r IH]; intros; [reflexivity|]. cbn [drv_remove delete_spec filter].
  rewrite matches_in_range. destruct (in_range p (Some from) to s); cbn [negb]; [apply IH|]. f_equal. apply IH.
Qed.

Lemma cache_pop_idem : forall c p, cache_pop (cache_pop c p) p = cache_pop c p.
Proof.
  intros. unfold cache_pop. induction c as [|e r IH]; [reflexivity|]. cbn [filter].
  destruct (negb (fst (fst e) =? p)) eqn:E; cbn [filter]; [rewrite E, IH; reflexivity|exact IH].
Qed.

(* what every request does, in terms of the effective request [abstract] computes from the raw arguments *)
Definition step_matches (cfg : config) (st : state) (r : request) : Prop :=
  match abstract cfg (st_now st) r with
  | ASlice p k from to limit => step cfg st r = (st, RSamples (slice_spec (st_store st) p k from to limit))
  | AByTimestamp p k tss =>
      step cfg st r = (fst (hist_get_samples_by_timestamp EmitPerRequest cfg st p k tss),
                       REntries (snd (hist_get_samples_by_timestamp EmitPerRequest cfg st p k tss)))
  | ADelete p from to =>
      step cfg st r = ({| st_store := delete_spec (st_store st) p from to; st_cache := cache_pop (st_cache st) p;
                          st_now := st_now st |}, RDone)
  | ARecord p v =>
      step cfg st r = ({| st_store := record_spec (st_store st) p (st_now st) v; st_cache := st_cache st;
                          st_now := st_now st |}, RNone)
  | ATick d => step cfg st r = ({| st_store := st_store st; st_cache := st_cache st; st_now := st_now st + Z.of_N d |}, RNone)
  | ARejected => fst (step cfg st r) = st
  end.

Lemma limit_eq : forall a,
  match a with
  | QAbsent => Some 1000
  | QInt z => if (z <? 1) || (10000 <? z) then None else Some z
  | _ => None
  end
  = match a with
    | QAbsent => Some 1000
    | a => match nonneg_int a with Some z => if (1 <=? z) && (z <=? 10000) then Some z else None | None => None end
    end.
Proof. intros [| | |z]; try reflexivity. cbn. split_tests. Qed.

Lemma to_eq : forall now a,
  match a with QAbsent => Some now | a => parse_nonneg a end = match a with QAbsent => Some now | a => nonneg_int a end.
Proof. intros now [| | |z]; try reflexivity. apply parse_nonneg_eq. Qed.

Lemma from_eq : forall a,
  match a with
  | QAbsent | QEmpty => Some None
  | a => match parse_nonneg a with Some z => Some (Some z) | None => None end
  end
  = match a with
    | QAbsent | QEmpty => Some None
    | a => match nonneg_int a with Some z => Some (Some z) | None => None end
    end.
Proof. intros [| | |z]; try reflexivity. rewrite parse_nonneg_eq. reflexivity. Qed.

Theorem step_abstract : forall cfg st r, step_matches cfg st r.
Proof.
  intros cfg st r. unfold step_matches. destruct r as [p q|p q|p v|d].
  - (* GET *)
    cbn [abstract step step_gen]. unfold api_get_port_history.
    destruct (port_kind cfg p) as [k|]; [|reflexivity].
    rewrite limit_eq.
    destruct q as [qf qt ql qts]. cbn [q_from q_to q_limit q_timestamps].
    destruct qts as [l|].
    + (* by timestamps *)
      rewrite (parse_all_ints l). rewrite andb_false_r.
      destruct qf as [| | |zf], qt as [| | |zt], ql as [| | |zl]; rewrite ?parse_nonneg_eq;
        cbn [given nonneg_int is_absent andb];
        try (destruct (0 <=? zf)); try (destruct (0 <=? zt));
        try (destruct (0 <=? zl); [destruct ((1 <=? zl) && (zl <=? 10000))|]);
        (destruct (parse_all l) as [tss|]; [destruct (existsb (fun t => t <? 0) tss)|]);
        try reflexivity;
        match goal with
        | |- context [hist_get_samples_by_timestamp ?a ?b ?c ?d ?e ?f] =>
            destruct (hist_get_samples_by_timestamp a b c d e f); reflexivity
        end.
    + (* range *)
      rewrite andb_true_r.
      destruct qf as [| | |zf], qt as [| | |zt], ql as [| | |zl]; rewrite ?parse_nonneg_eq;
        cbn [given nonneg_int is_absent andb];
        try (destruct (0 <=? zf)); try (destruct (0 <=? zt));
        try (destruct (0 <=? zl); [destruct ((1 <=? zl) && (zl <=? 10000))|]);
        try reflexivity; rewrite hist_slice_is_spec; reflexivity.
  - (* DELETE *)
    cbn [abstract step step_gen]. unfold api_delete_port_history.
    destruct (port_kind cfg p) as [k|]; [|reflexivity].
    rewrite !parse_nonneg_eq. destruct q as [qf qt ql qts]. cbn [q_from q_to].
    destruct qf as [| | |zf]; cbn [nonneg_int is_absent]; try reflexivity.
    destruct (0 <=? zf); [|reflexivity].
    destruct qt as [| | |zt]; cbn [nonneg_int is_absent]; try reflexivity.
    destruct (0 <=? zt); [|reflexivity].
    unfold hist_remove_samples, base_remove_samples. rewrite drv_remove_is_spec, cache_pop_idem. reflexivity.
  - (* value change *)
    cbn [abstract step step_gen]. unfold hist_value_change. destruct v as [v|].
    + destruct (port_on_change cfg p); destruct (cfg_real_ms cfg <? st_now st); cbn [andb negb]; reflexivity.
    + destruct (negb (cfg_real_ms cfg <? st_now st)); [reflexivity|].
      destruct (negb (port_on_change cfg p)); reflexivity.
  - reflexivity.
Qed.
