(* C05 — model of the code that validates and performs API value writes.  Definitions only (total, computable).

   qtoggleserver/core/api/funcs/ports.py   patch_port_value, patch_port_sequence
   qtoggleserver/core/ports.py             get_value_schema, transform_and_write_value, adapt_value_type_sync
   qtoggleserver/core/api/schema.py        validate  (jsonschema.Draft4Validator, keywords enum / minimum / maximum / type)
   qtoggleserver/utils/json.py             dumps     (math.isinf(<int>) overflows on huge ints)

   Numbers are Python numbers (Base/PyNum.v: bool, unbounded int, binary64 as spec_float), arithmetic is CPython's.
   The step test exists in two versions, selected by [step_rule] (regenerated from the source on every run, Gen/C05Gen.v):
     SBinary   if ... and (value - min_) % step:                       -- binary float arithmetic (the code as found, F8)
     SDecimal  if ... and not _on_step_grid(value, min_, step):        -- exact, on the decimal representations (the fix) *)
From QT Require Export Base.Prelude Base.PyNum C05.Repr.
Open Scope Z_scope.

(* ------------------------------------------------------------------ JSON values as json.loads delivers them *)

Inductive json :=
| JNull
| JBool (b : bool)
| JInt (z : Z)
| JFloat (f : sf)            (* includes inf (from 1e400 / Infinity) and nan (from NaN): json.loads accepts them *)
| JStr (s : string)
| JArr (l : list json)
| JObj (l : list (string * json)).

(* the Python number a JSON value is, if it is one (bool is an int for arithmetic, as in Python) *)
Definition j_py (j : json) : option pyval :=
  match j with JBool b => Some (VBool b) | JInt z => Some (VInt z) | JFloat f => Some (VFloat f) | _ => None end.

(* ------------------------------------------------------------------ port definition *)

Inductive ptype := TBoolean | TNumber.

(* outcome of evaluating the write transform expression on a value *)
Inductive tres := TVal (v : pyval) | TUnavail | TErr.

Record portdef := {
  p_type : ptype;
  p_min : option pyval;                (* attribute values as the driver declares them: int or float *)
  p_max : option pyval;
  p_integer : bool;                    (* None and False behave alike: `if await self.get_attr('integer')` *)
  p_step : option pyval;
  p_choices : option (list pyval);     (* the 'value' of every choice *)
  p_transform : option (pyval -> tres);(* transform_write expression, abstracted as a function of the written value *)
  p_enabled : bool;
  p_writable : bool
}.

(* ------------------------------------------------------------------ get_value_schema *)

Inductive stype := TyInteger | TyBoolean | TyNumber.

Record schema := {
  s_enum : option (list pyval);
  s_minimum : option pyval;
  s_maximum : option pyval;
  s_type : option stype
}.

Definition get_value_schema (d : portdef) : schema :=
  match p_choices d with
  | Some c => {| s_enum := Some c; s_minimum := None; s_maximum := None; s_type := None |}
  | None =>
      {| s_enum := None; s_minimum := p_min d; s_maximum := p_max d;
         s_type := Some (if p_integer d then TyInteger
                         else match p_type d with TBoolean => TyBoolean | TNumber => TyNumber end) |}
  end.

(* ------------------------------------------------------------------ jsonschema 4.x, Draft4Validator, these keywords *)

(* TypeChecker: "integer" = int and not bool (3.0 is NOT an integer under draft 4); "number" = int/float and not bool *)
Definition is_type (t : stype) (j : json) : bool :=
  match t, j with
  | TyInteger, JInt _ => true
  | TyBoolean, JBool _ => true
  | TyNumber, JInt _ => true
  | TyNumber, JFloat _ => true
  | _, _ => false
  end.

(* the instance as a "number" in the sense of the type checker (what minimum / maximum constrain) *)
Definition j_number (j : json) : option pyval :=
  match j with JInt z => Some (VInt z) | JFloat f => Some (VFloat f) | _ => None end.

(* minimum: failed = instance < minimum (Python comparison: exact between int and float, False with NaN) *)
Definition minimum_ok (m : pyval) (j : json) : bool :=
  match j_number j with Some v => negb (py_lt v m) | None => true end.
Definition maximum_ok (m : pyval) (j : json) : bool :=
  match j_number j with Some v => negb (py_gt v m) | None => true end.

(* jsonschema._utils.equal: unbool(one) == unbool(two) — True/False equal only themselves, numbers compare as Python numbers *)
Definition j_equal (c : pyval) (j : json) : bool :=
  match c, j with
  | VBool a, JBool b => Bool.eqb a b
  | VBool _, _ => false
  | _, JBool _ => false
  | _, JInt z => py_eq c (VInt z)
  | _, JFloat f => py_eq c (VFloat f)
  | _, _ => false
  end.

Definition enum_ok (cs : list pyval) (j : json) : bool := existsb (fun c => j_equal c j) cs.

Definition opt_ok {A} (o : option A) (f : A -> bool) : bool := match o with Some a => f a | None => true end.

Definition validate (s : schema) (j : json) : bool :=
  opt_ok (s_enum s) (fun cs => enum_ok cs j)
  && opt_ok (s_minimum s) (fun m => minimum_ok m j)
  && opt_ok (s_maximum s) (fun m => maximum_ok m j)
  && opt_ok (s_type s) (fun t => is_type t j).

(* ------------------------------------------------------------------ exact decimal values (Repr.v: float.__repr__) *)

(* fractions.Fraction(repr(x)) for floats, fractions.Fraction(x) for ints and bools: (numerator, denominator > 0) *)
Definition dec_of (v : pyval) : option (Z * Z) :=
  match v with
  | VBool b => Some (if b then 1 else 0, 1)
  | VInt z => Some (z, 1)
  | VFloat f =>
      match f_repr_dec f with
      | Some (N, x) => Some (if 0 <=? x then (N * pow10 x, 1) else (N, pow10 (- x)))
      | None => None
      end
  end.

(* (v - m) % s == 0 on exact fractions  <->  (v - m) / s is an integer *)
Definition frac_on_grid (v m s : Z * Z) : bool :=
  let '(vn, vd) := v in let '(mn, md) := m in let '(sn, sd) := s in
  (* (vn/vd - mn/md) / (sn/sd) = (vn*md - mn*vd) * sd / (vd*md*sn) *)
  ((vn * md - mn * vd) * sd) mod (vd * md * sn) =? 0.

(* ------------------------------------------------------------------ the step test *)

Inductive step_rule := SBinary | SDecimal.
Inductive sres := SOk | SBad | SExc.     (* passes / 400 / the arithmetic raised (uncaught -> 500) *)

(* `(value - min_) % step` is truthy -> invalid *)
Definition step_binary (v m s : pyval) : sres :=
  match py_sub v m with
  | PErr _ => SExc
  | POk d =>
      match py_mod d s with
      | PErr _ => SExc
      | POk r => if py_truth r then SBad else SOk
      end
  end.

(* _on_step_grid(value, min_, step): exact test on the decimal representations; nan / inf are never on the grid *)
Definition step_decimal (v m s : pyval) : sres :=
  match dec_of v, dec_of m, dec_of s with
  | Some a, Some b, Some c => if frac_on_grid a b c then SOk else SBad
  | _, _, _ => SBad
  end.

Definition step_test (r : step_rule) (v m s : pyval) : sres :=
  match r with SBinary => step_binary v m s | SDecimal => step_decimal v m s end.

(* `None not in (step, min_) and step != 0 and <test>` *)
Definition step_check (r : step_rule) (d : portdef) (j : json) : sres :=
  match p_step d, p_min d with
  | Some s, Some m =>
      if py_eq s (VInt 0) then SOk
      else match j_py j with Some v => step_test r v m s | None => SExc end
  | _, _ => SOk
  end.

(* ------------------------------------------------------------------ transform_and_write_value *)

(* adapt_value_type_sync(type, integer, value) *)
Definition adapt (d : portdef) (v : pyval) : pyval + pyexc :=
  match p_type d with
  | TBoolean => inl (VBool (py_truth v))
  | TNumber =>
      if p_integer d then match py_int v with inl z => inl (VInt z) | inr e => inr e end
      else match py_float v with POk w => inl w | PErr e => inr e end
  end.

(* json_utils.dumps(value) is computed for the log line: math.isinf(<int>) raises OverflowError for huge ints *)
Definition dumps_ok (v : pyval) : bool :=
  match v with VInt z => match f_of_Z z with inl _ => true | inr _ => false end | _ => true end.

Inductive effect :=
| DriverWrite (v : option pyval)       (* write_value(v) reached the driver; None = Python None (value unavailable) *)
| SetSequence (vs : list pyval).       (* port.set_sequence(values, ...) *)

Inductive apierr := E404 | EInvalid | EDisabled | EReadOnly | EWithExpression | E500.
Inductive outcome := Accepted | Rejected (e : apierr).

Definition transform_and_write (d : portdef) (v : pyval) : outcome * list effect :=
  if negb (dumps_ok v) then (Rejected E500, []) else
  match p_transform d with
  | None => (Accepted, [DriverWrite (Some v)])
  | Some t =>
      match t v with
      | TErr => (Rejected E500, [])
      | TUnavail => (Accepted, [DriverWrite None])
      | TVal w =>
          match adapt d w with
          | inr _ => (Rejected E500, [])
          | inl w' => if dumps_ok w' then (Accepted, [DriverWrite (Some w')]) else (Rejected E500, [])
          end
      end
  end.

(* ------------------------------------------------------------------ PATCH /ports/{id}/value *)

(* the code's rules that are regenerated from the source: the step test, and whether non-finite floats are refused
   (`if isinstance(value, float) and not math.isfinite(value): raise APIError(400, ...)` after the schema validation) *)
Record rules := { r_step : step_rule; r_finite_guard : bool }.

Definition nonfinite (j : json) : bool := match j with JFloat f => negb (f_is_finite f) | _ => false end.

Definition patch_value (r : rules) (p : option portdef) (j : json) : outcome * list effect :=
  match p with
  | None => (Rejected E404, [])
  | Some d =>
      if negb (validate (get_value_schema d) j) then (Rejected EInvalid, []) else
      if r_finite_guard r && nonfinite j then (Rejected EInvalid, []) else
      match step_check (r_step r) d j with
      | SBad => (Rejected EInvalid, [])
      | SExc => (Rejected E500, [])
      | SOk =>
          if negb (p_enabled d) then (Rejected EDisabled, []) else
          if negb (p_writable d) then (Rejected EReadOnly, []) else
          match j_py j with
          | Some v => transform_and_write d v
          | None => (Rejected E500, [])       (* not reachable: every schema lets only booleans and numbers through *)
          end
      end
  end.

(* ------------------------------------------------------------------ PATCH /ports/{id}/sequence *)

(* PATCH_PORT_SEQUENCE on a body {"values": [...], "delays": [...], "repeat": r}: items boolean|number, ints, int *)
Definition seq_item_ok (j : json) : bool := match j with JBool _ | JInt _ | JFloat _ => true | _ => false end.
Definition is_jint (j : json) : bool := match j with JInt _ => true | _ => false end.

Definition seq_params_ok (values delays : list json) (repeat : json) : bool :=
  forallb seq_item_ok values && (Z.of_nat (length values) <=? 256)
  && forallb is_jint delays && (Z.of_nat (length delays) <=? 256) && is_jint repeat.

(* the loop over the values: first value that fails decides *)
Fixpoint seq_values_check (r : rules) (d : portdef) (values : list json) : sres :=
  match values with
  | [] => SOk
  | j :: rest =>
      if negb (validate (get_value_schema d) j) then SBad else
      if r_finite_guard r && nonfinite j then SBad else
      match step_check (r_step r) d j with
      | SOk => seq_values_check r d rest
      | other => other
      end
  end.

Fixpoint all_py (values : list json) : option (list pyval) :=
  match values with
  | [] => Some []
  | j :: rest => match j_py j, all_py rest with Some v, Some vs => Some (v :: vs) | _, _ => None end
  end.

Definition patch_sequence (r : rules) (p : option portdef) (values delays : list json) (repeat : json)
  : outcome * list effect :=
  match p with
  | None => (Rejected E404, [])
  | Some d =>
      if negb (seq_params_ok values delays repeat) then (Rejected EInvalid, []) else
      if negb (Nat.eqb (length values) (length delays)) then (Rejected EInvalid, []) else
      match seq_values_check r d values with
      | SBad => (Rejected EInvalid, [])
      | SExc => (Rejected E500, [])
      | SOk =>
          if negb (p_enabled d) then (Rejected EDisabled, []) else
          if negb (p_writable d) then (Rejected EReadOnly, []) else
          (* `if await port.get_attr('expression')`: the ports of this model have no expression *)
          match all_py values with
          | Some vs => (Accepted, [SetSequence vs])
          | None => (Rejected E500, [])
          end
      end
  end.

Definition model_accepts (r : rules) (p : option portdef) (j : json) : bool :=
  match fst (patch_value r p j) with Accepted => true | Rejected _ => false end.
