(* C05 — the executable oracle of Spec.v decides the declarative specification: acceptsb r p j = true <-> accepts r p j. *)
From QT Require Import C05.Spec.
From Coq Require Import Lia.
Open Scope Q_scope.

Lemma integralb_spec : forall v, integralb v = true <-> integral v.
Proof.
  intros [n d]. unfold integralb, integral. cbn [Qnum Qden]. split.
  - intro H. apply Z.eqb_eq in H. exists (n / Zpos d)%Z. unfold Qeq. cbn [Qnum Qden inject_Z].
    rewrite Z.mul_1_r. rewrite Z.mul_comm. apply Z.div_exact; [lia|assumption].
  - intros [k Hk]. unfold Qeq in Hk. cbn [Qnum Qden inject_Z] in Hk. rewrite Z.mul_1_r in Hk.
    apply Z.eqb_eq. rewrite Hk. apply Z.mod_mul. lia.
Qed.

Lemma on_gridb_spec : forall v m s, ~ s == 0 -> (on_gridb v m s = true <-> on_grid v m s).
Proof.
  intros v m s Hs. unfold on_gridb, on_grid. rewrite integralb_spec. unfold integral. split.
  - intros [k Hk]. exists k. rewrite <- Hk. rewrite Qmult_comm. symmetry. apply Qmult_div_r. exact Hs.
  - intros [k Hk]. exists k. rewrite Hk. apply Qdiv_mult_l. exact Hs.
Qed.

Lemma representableb_spec : forall v, representableb v = true <-> representable v.
Proof.
  intros v. unfold representableb, representable. rewrite negb_true_iff. split.
  - intro H. apply Qnot_le_lt. intro L. apply Qle_bool_iff in L. congruence.
  - intro H. destruct (Qle_bool (inject_Z float_limit) (Qabs v)) eqn:E; [|reflexivity].
    apply Qle_bool_iff in E. exfalso. exact (Qlt_not_le _ _ H E).
Qed.

Lemma opt_ok_spec : forall {A} (o : option A) (f : A -> bool) (P : A -> Prop),
  (forall a, f a = true <-> P a) -> (opt_ok o f = true <-> opt_P o P).
Proof. intros A [a|] f P H; cbn; [apply H|split; auto]. Qed.

Lemma num_domainb_spec : forall r d v, num_domainb r d v = true <-> num_domain r d v.
Proof.
  intros r d v. unfold num_domainb, num_domain. rewrite !andb_true_iff.
  rewrite representableb_spec.
  rewrite (opt_ok_spec (bound r (p_min d)) _ (fun m => m <= v)) by (intro; apply Qle_bool_iff).
  rewrite (opt_ok_spec (bound r (p_max d)) _ (fun M => v <= M)) by (intro; apply Qle_bool_iff).
  assert (Hi : negb (p_integer d) || integralb v = true <-> (p_integer d = true -> integral v)).
  { rewrite <- integralb_spec. destruct (p_integer d); cbn; split; auto. intros _ H; discriminate H. }
  rewrite Hi.
  assert (Hg : opt_ok (bound r (p_step d)) (fun s => opt_ok (bound r (p_min d)) (fun m => Qeq_bool s 0 || on_gridb v m s)) = true
               <-> opt_P (bound r (p_step d)) (fun s => opt_P (bound r (p_min d)) (fun m => ~ s == 0 -> on_grid v m s))).
  { apply opt_ok_spec. intro s. apply opt_ok_spec. intro m.
    destruct (Qeq_bool s 0) eqn:E; cbn [orb].
    - apply Qeq_bool_iff in E. split; [intros _ H; contradiction|reflexivity].
    - assert (~ s == 0) as Hs by (intro H; apply Qeq_bool_iff in H; congruence).
      rewrite (on_gridb_spec v m s Hs). split; auto. }
  rewrite Hg. tauto.
Qed.

Lemma num_choice_spec : forall (x y : option Q),
  match x, y with Some a, Some b => Qeq_bool a b | _, _ => false end = true
  <-> match x, y with Some a, Some b => a == b | _, _ => False end.
Proof.
  intros [a|] [b|]; try (split; [discriminate|contradiction]). apply Qeq_bool_iff.
Qed.

Lemma is_choiceb_spec : forall r c j, is_choiceb r c j = true <-> is_choice r c j.
Proof.
  intros r c j. unfold is_choiceb, is_choice.
  destruct c as [a|z|f]; destruct j as [|b|z'|f'|s|l|l];
    try (split; [discriminate|contradiction]);
    try apply eqb_true_iff; try apply num_choice_spec.
Qed.

Lemma in_domainb_spec : forall r d j, in_domainb r d j = true <-> in_domain r d j.
Proof.
  intros r d j. unfold in_domainb, in_domain. destruct (p_choices d) as [cs|].
  - rewrite existsb_exists. split; intros (c & Hin & Hc); exists c; split; try assumption; apply is_choiceb_spec; assumption.
  - destruct (p_type d).
    + destruct j; split; try discriminate; try contradiction; auto.
    + destruct (jnum r j); [apply num_domainb_spec|split; [discriminate|contradiction]].
Qed.

Theorem acceptsb_spec : forall r p j, acceptsb r p j = true <-> accepts r p j.
Proof.
  intros r p j. unfold acceptsb, accepts. destruct p as [d|].
  - rewrite !andb_true_iff, in_domainb_spec. split.
    + intros [[He Hw] Hd]. exists d. repeat split; assumption.
    + intros (d' & Hp & He & Hw & Hd). inversion Hp; subst. repeat split; assumption.
  - split; [discriminate|]. intros (d & Hp & _). discriminate Hp.
Qed.

Theorem seq_acceptsb_spec : forall r p vs ds rp, seq_acceptsb r p vs ds rp = true <-> seq_accepts r p vs ds rp.
Proof.
  intros r p vs ds rp. unfold seq_acceptsb, seq_accepts, seq_wellformed. rewrite !andb_true_iff, Nat.eqb_eq.
  assert (Hf : forall d, forallb (in_domainb r d) vs = true <-> Forall (in_domain r d) vs).
  { intro d. rewrite forallb_forall, Forall_forall. split; intros H x Hx; apply in_domainb_spec; auto. }
  destruct p as [d|].
  - rewrite !andb_true_iff, Hf. split.
    + intros [[Hp Hl] [[He Hw] Hd]]. split; [split; assumption|]. exists d. repeat split; assumption.
    + intros [[Hp Hl] (d' & Hq & He & Hw & Hd)]. inversion Hq; subst. repeat split; assumption.
  - split; [intros [_ H]; discriminate H|]. intros [_ (d & Hp & _)]. discriminate Hp.
Qed.
