(* C05 — theorems about the model that need no arithmetic: a rejected request has no effect, an accepted one delivers
   coerce (transform v), both entry points apply the same per-value checks, keyword-by-keyword schema semantics. *)
From QT Require Import C05.Spec.
From Coq Require Import Lia.
Open Scope Z_scope.

(* ------------------------------------------------------------------ the per-value validation shared by both entry points *)

Definition value_valid (r : rules) (d : portdef) (j : json) : bool :=
  validate (get_value_schema d) j && negb (r_finite_guard r && nonfinite j)
  && match step_check (r_step r) d j with SOk => true | _ => false end.

Lemma transform_and_write_effects :
  forall d v o es, transform_and_write d v = (o, es) ->
    match o with
    | Rejected _ => es = []
    | Accepted =>
        (p_transform d = None /\ es = [DriverWrite (Some v)])
        \/ (exists t x w, p_transform d = Some t /\ t v = TVal x /\ coerce d x = Some w /\ es = [DriverWrite (Some w)])
        \/ (exists t, p_transform d = Some t /\ t v = TUnavail /\ es = [DriverWrite None])
    end.
Proof.
  intros d v o es H. unfold transform_and_write in H.
  destruct (dumps_ok v); cbn [negb] in H; [|inversion H; reflexivity].
  destruct (p_transform d) as [t|] eqn:Ht.
  - destruct (t v) as [x| |] eqn:Htv.
    + unfold coerce. destruct (adapt d x) as [w|e] eqn:Ha.
      * destruct (dumps_ok w); inversion H; subst; [|reflexivity].
        right; left. exists t, x, w. rewrite Ha. repeat split; try assumption; reflexivity.
      * inversion H; reflexivity.
    + inversion H; subst. right; right. exists t. repeat split; try assumption; reflexivity.
    + inversion H; reflexivity.
  - inversion H; subst. left. split; reflexivity.
Qed.

(* what patch_value does, as one case analysis *)
Lemma patch_value_cases :
  forall r p j o es, patch_value r p j = (o, es) ->
    match o with
    | Rejected _ => es = []
    | Accepted =>
        exists d v, p = Some d /\ j_py j = Some v /\ value_valid r d j = true /\ p_enabled d = true /\ p_writable d = true
                    /\ transform_and_write d v = (Accepted, es)
    end.
Proof.
  intros r p j o es H. unfold patch_value in H.
  destruct p as [d|]; [|inversion H; reflexivity].
  destruct (validate (get_value_schema d) j) eqn:Hval; cbn [negb andb] in H; [|inversion H; reflexivity].
  destruct (r_finite_guard r && nonfinite j) eqn:Hg; [inversion H; reflexivity|].
  destruct (step_check (r_step r) d j) eqn:Hs; try (inversion H; reflexivity).
  destruct (p_enabled d) eqn:He; cbn [negb] in H; [|inversion H; reflexivity].
  destruct (p_writable d) eqn:Hw; cbn [negb] in H; [|inversion H; reflexivity].
  destruct (j_py j) as [v|] eqn:Hv; [|inversion H; reflexivity].
  destruct o.
  - exists d, v. unfold value_valid. rewrite Hval, Hg, Hs. repeat split; try reflexivity; assumption.
  - pose proof (transform_and_write_effects _ _ _ _ H) as E. exact E.
Qed.

(* C05_reject_no_effect *)
Theorem reject_no_effect :
  forall r p j e, fst (patch_value r p j) = Rejected e -> snd (patch_value r p j) = [].
Proof.
  intros r p j e H. destruct (patch_value r p j) as [o es] eqn:E. cbn in *. subst o.
  exact (patch_value_cases _ _ _ _ _ E).
Qed.

Theorem model_rejects_no_effect :
  forall r p j, model_accepts r p j = false -> snd (patch_value r p j) = [].
Proof.
  intros r p j H. unfold model_accepts in H.
  destruct (patch_value r p j) as [o es] eqn:E. cbn in *. destruct o; [discriminate|].
  exact (patch_value_cases _ _ _ _ _ E).
Qed.

(* C05_delivered_value *)
Theorem delivered_value :
  forall r p j es, patch_value r p j = (Accepted, es) ->
    exists d v, p = Some d /\ j_py j = Some v
      /\ ((p_transform d = None /\ es = [DriverWrite (Some v)])
          \/ (exists t x w, p_transform d = Some t /\ t v = TVal x /\ coerce d x = Some w /\ es = [DriverWrite (Some w)])
          \/ (exists t, p_transform d = Some t /\ t v = TUnavail /\ es = [DriverWrite None])).
Proof.
  intros r p j es H. destruct (patch_value_cases _ _ _ _ _ H) as (d & v & Hp & Hv & _ & _ & _ & Ht).
  exists d, v. repeat split; try assumption. exact (transform_and_write_effects _ _ _ _ Ht).
Qed.

(* a write whose transform fails to evaluate on the value, or whose result cannot be coerced to the port type, is refused:
   error answer, no driver call *)
Theorem failing_transform_refused :
  forall r d j v t,
    j_py j = Some v -> p_transform d = Some t ->
    (t v = TErr \/ exists x, t v = TVal x /\ coerce d x = None) ->
    exists e, patch_value r (Some d) j = (Rejected e, []).
Proof.
  intros r d j v t Hv Ht Hf. destruct (patch_value r (Some d) j) as [o es] eqn:E.
  pose proof (patch_value_cases _ _ _ _ _ E) as C. destruct o as [|e]; [|exists e; rewrite C; reflexivity].
  exfalso. destruct C as (d' & v' & Hd & Hv' & _ & _ & _ & Hw). inversion Hd; subst d'. rewrite Hv in Hv'. inversion Hv'; subst v'.
  pose proof (transform_and_write_effects _ _ _ _ Hw) as [[Hn _]|[(t' & x & w & Ht' & Htv & Hc & _)|(t' & Ht' & Htv & _)]].
  - rewrite Ht in Hn. discriminate Hn.
  - rewrite Ht in Ht'. inversion Ht'; subst t'. destruct Hf as [Hf|(x' & Hx & Hc')]; rewrite Htv in *; [discriminate Hf|].
    inversion Hx; subst x'. rewrite Hc in Hc'. discriminate Hc'.
  - rewrite Ht in Ht'. inversion Ht'; subst t'. destruct Hf as [Hf|(x' & Hx & _)]; rewrite Htv in *; discriminate.
Qed.

(* an accepted write passed every check, in particular enabled and writable *)
Theorem accepted_checks :
  forall r p j, model_accepts r p j = true ->
    exists d, p = Some d /\ value_valid r d j = true /\ p_enabled d = true /\ p_writable d = true.
Proof.
  intros r p j H. unfold model_accepts in H. destruct (patch_value r p j) as [o es] eqn:E. cbn in H.
  destruct o; [|discriminate].
  destruct (patch_value_cases _ _ _ _ _ E) as (d & v & Hp & _ & Hvv & He & Hw & _). exists d. repeat split; assumption.
Qed.

(* the order of the errors: validation first, then disabled, then read-only *)
Theorem error_order :
  forall r d j,
    (value_valid r d j = false -> exists e, fst (patch_value r (Some d) j) = Rejected e /\ (e = EInvalid \/ e = E500))
    /\ (value_valid r d j = true -> p_enabled d = false -> fst (patch_value r (Some d) j) = Rejected EDisabled)
    /\ (value_valid r d j = true -> p_enabled d = true -> p_writable d = false ->
        fst (patch_value r (Some d) j) = Rejected EReadOnly).
Proof.
  intros r d j. unfold value_valid, patch_value.
  destruct (validate (get_value_schema d) j); cbn [negb andb].
  2:{ repeat split; try discriminate. intros _. exists EInvalid. split; [reflexivity|left; reflexivity]. }
  destruct (r_finite_guard r && nonfinite j); cbn [negb andb].
  1:{ repeat split; try discriminate. intros _. exists EInvalid. split; [reflexivity|left; reflexivity]. }
  destruct (step_check (r_step r) d j).
  - repeat split; try discriminate.
    + intros _ He. rewrite He. reflexivity.
    + intros _ He Hw. rewrite He, Hw. reflexivity.
  - repeat split; try discriminate. intros _. exists EInvalid. split; [reflexivity|left; reflexivity].
  - repeat split; try discriminate. intros _. exists E500. split; [reflexivity|right; reflexivity].
Qed.

(* ------------------------------------------------------------------ sequences: same checks on every element *)

Lemma seq_values_check_ok :
  forall r d vs, seq_values_check r d vs = SOk <-> forallb (value_valid r d) vs = true.
Proof.
  intros r d vs. induction vs as [|j vs IH]; cbn [seq_values_check forallb].
  - split; reflexivity.
  - unfold value_valid at 1.
    destruct (validate (get_value_schema d) j); cbn [negb andb]; [|split; discriminate].
    destruct (r_finite_guard r && nonfinite j); cbn [negb andb]; [split; discriminate|].
    destruct (step_check (r_step r) d j); cbn [andb]; try (split; discriminate). exact IH.
Qed.

Theorem sequence_cases :
  forall r p vs ds rp o es, patch_sequence r p vs ds rp = (o, es) ->
    match o with
    | Rejected _ => es = []
    | Accepted =>
        exists d ws, p = Some d /\ seq_params_ok vs ds rp = true /\ length vs = length ds
                     /\ forallb (value_valid r d) vs = true /\ p_enabled d = true /\ p_writable d = true
                     /\ all_py vs = Some ws /\ es = [SetSequence ws]
    end.
Proof.
  intros r p vs ds rp o es H. unfold patch_sequence in H.
  destruct p as [d|]; [|inversion H; reflexivity].
  destruct (seq_params_ok vs ds rp) eqn:Hp; cbn [negb] in H; [|inversion H; reflexivity].
  destruct (Nat.eqb (length vs) (length ds)) eqn:Hl; cbn [negb] in H; [|inversion H; reflexivity].
  destruct (seq_values_check r d vs) eqn:Hc; try (inversion H; reflexivity).
  destruct (p_enabled d) eqn:He; cbn [negb] in H; [|inversion H; reflexivity].
  destruct (p_writable d) eqn:Hw; cbn [negb] in H; [|inversion H; reflexivity].
  destruct (all_py vs) as [ws|] eqn:Ha; inversion H; subst; [|reflexivity].
  exists d, ws. apply seq_values_check_ok in Hc. apply Nat.eqb_eq in Hl. repeat split; assumption.
Qed.

Theorem sequence_reject_no_effect :
  forall r p vs ds rp e, fst (patch_sequence r p vs ds rp) = Rejected e -> snd (patch_sequence r p vs ds rp) = [].
Proof.
  intros r p vs ds rp e H. destruct (patch_sequence r p vs ds rp) as [o es] eqn:E. cbn in *. subst o.
  exact (sequence_cases _ _ _ _ _ _ _ E).
Qed.

(* a value is accepted in a sequence exactly when the single-value entry point validates it *)
Theorem sequence_validates_like_value :
  forall r d vs ds rp,
    seq_params_ok vs ds rp = true -> length vs = length ds -> p_enabled d = true -> p_writable d = true ->
    (fst (patch_sequence r (Some d) vs ds rp) = Accepted <-> forallb (value_valid r d) vs = true).
Proof.
  intros r d vs ds rp Hp Hl He Hw. unfold patch_sequence. rewrite Hp, He, Hw.
  apply Nat.eqb_eq in Hl. rewrite Hl. cbn [negb].
  split.
  - intro H. apply seq_values_check_ok. destruct (seq_values_check r d vs); try discriminate H. reflexivity.
  - intro H. pose proof H as H'. apply seq_values_check_ok in H. rewrite H.
    assert (exists ws, all_py vs = Some ws) as [ws Hws].
    { clear - H'. induction vs as [|j vs IH]; [exists []; reflexivity|].
      cbn [forallb] in H'. apply andb_prop in H' as [Hj Hr]. destruct (IH Hr) as [ws Hws].
      unfold value_valid in Hj. apply andb_prop in Hj as [Hj _]. apply andb_prop in Hj as [Hj _].
      assert (exists v, j_py j = Some v) as [v Hv].
      { unfold validate, get_value_schema in Hj.
        destruct (p_choices d) as [cs|]; cbn [s_enum s_minimum s_maximum s_type opt_ok] in Hj.
        - rewrite !andb_true_r in Hj. unfold enum_ok in Hj. apply existsb_exists in Hj as (c & _ & Hc).
          destruct c, j; cbn in Hc; try discriminate; eexists; reflexivity.
        - apply andb_prop in Hj as [_ Ht].
          destruct (p_integer d), (p_type d), j; cbn in Ht; try discriminate; eexists; reflexivity. }
      exists (v :: ws). cbn [all_py]. rewrite Hv, Hws. reflexivity. }
    rewrite Hws. reflexivity.
Qed.

(* ------------------------------------------------------------------ schema semantics, keyword by keyword *)

Lemma py_lt_int : forall a b, py_lt (VInt a) (VInt b) = (a <? b).
Proof. intros. unfold py_lt. cbn. unfold Z.ltb. destruct (a ?= b); reflexivity. Qed.
Lemma py_gt_int : forall a b, py_gt (VInt a) (VInt b) = (b <? a).
Proof. intros. unfold py_gt. cbn. rewrite (Z.compare_antisym b a). unfold Z.ltb. destruct (b ?= a); reflexivity. Qed.
Lemma py_eq_int : forall a b, py_eq (VInt a) (VInt b) = (a =? b).
Proof.
  intros. unfold py_eq. cbn. destruct (Z.compare_spec a b) as [->|H|H].
  - symmetry. apply Z.eqb_refl.
  - symmetry. apply Z.eqb_neq. lia.
  - symmetry. apply Z.eqb_neq. lia.
Qed.

Lemma minimum_inclusive : forall m z, minimum_ok (VInt m) (JInt z) = true <-> m <= z.
Proof. intros. unfold minimum_ok. cbn [j_number]. rewrite py_lt_int. rewrite negb_true_iff, Z.ltb_ge. reflexivity. Qed.

Lemma maximum_inclusive : forall m z, maximum_ok (VInt m) (JInt z) = true <-> z <= m.
Proof. intros. unfold maximum_ok. cbn [j_number]. rewrite py_gt_int. rewrite negb_true_iff, Z.ltb_ge. reflexivity. Qed.

Lemma enum_int_by_value : forall c z, j_equal (VInt c) (JInt z) = true <-> c = z.
Proof. intros. cbn [j_equal]. rewrite py_eq_int. apply Z.eqb_eq. Qed.

Lemma validated_is_number_or_bool : forall d j, validate (get_value_schema d) j = true -> exists v, j_py j = Some v.
Proof.
  intros d j H. unfold validate, get_value_schema in H.
  destruct (p_choices d) as [cs|]; cbn [s_enum s_minimum s_maximum s_type opt_ok] in H.
  - rewrite !andb_true_r in H. unfold enum_ok in H. apply existsb_exists in H as (c & _ & Hc).
    destruct c, j; cbn in Hc; try discriminate; eexists; reflexivity.
  - apply andb_prop in H as [_ Ht].
    destruct (p_integer d), (p_type d), j; cbn in Ht; try discriminate; eexists; reflexivity.
Qed.

Lemma choices_replace_keywords : forall d cs j, p_choices d = Some cs -> validate (get_value_schema d) j = enum_ok cs j.
Proof. intros d cs j H. unfold validate, get_value_schema. rewrite H. cbn. rewrite !andb_true_r. reflexivity. Qed.

Theorem schema_semantics :
  (* minimum / maximum are inclusive *)
  (forall m z, minimum_ok (VInt m) (JInt z) = true <-> m <= z)
  /\ (forall m z, maximum_ok (VInt m) (JInt z) = true <-> z <= m)
  (* a boolean is not a number: neither "number" nor "integer" allow it, minimum / maximum do not look at it *)
  /\ (forall b, is_type TyNumber (JBool b) = false /\ is_type TyInteger (JBool b) = false)
  /\ (forall m b, minimum_ok m (JBool b) = true /\ maximum_ok m (JBool b) = true)
  (* a number is not a boolean *)
  /\ (forall z f, is_type TyBoolean (JInt z) = false /\ is_type TyBoolean (JFloat f) = false)
  (* draft 4: no float is an "integer", not even 3.0 *)
  /\ (forall f, is_type TyInteger (JFloat f) = false)
  (* enum: True is not 1, 1 is not True; integers by value *)
  /\ (forall b c, j_equal (VInt c) (JBool b) = false /\ j_equal (VBool b) (JInt c) = false)
  /\ (forall c z, j_equal (VInt c) (JInt z) = true <-> c = z)
  (* null, strings, arrays, objects pass no port's schema *)
  /\ (forall d j, validate (get_value_schema d) j = true -> exists v, j_py j = Some v)
  (* choices replace every other keyword *)
  /\ (forall d cs j, p_choices d = Some cs -> validate (get_value_schema d) j = enum_ok cs j).
Proof.
  split; [exact minimum_inclusive|]. split; [exact maximum_inclusive|].
  split; [intros; split; reflexivity|]. split; [intros; split; reflexivity|].
  split; [intros; split; reflexivity|]. split; [intros; reflexivity|].
  split; [intros; split; reflexivity|]. split; [exact enum_int_by_value|].
  split; [exact validated_is_number_or_bool|]. exact choices_replace_keywords.
Qed.
