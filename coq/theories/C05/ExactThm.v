(* C05 — arithmetic theorems.
   1. The exact decimal step test (rule SDecimal, the fix) decides the decimal reading of "on the grid min + k*step" for ALL
      Python numbers — no exactness premise: [step_decimal_exact].
   2. On integer-valued inputs (JSON integer; min / max / step / choices integers) the model — with either step test —
      accepts exactly what the specification accepts, under either reading: [accept_iff_exact].
      Integer arithmetic is exact by construction; for floats the binary test is NOT exact (History/C05Old.v). *)
From QT Require Import C05.Spec C05.ModelThm.
From Coq Require Import Lia.
Open Scope Z_scope.

(* ------------------------------------------------------------------ 1. the decimal step test *)

Lemma pow10_pos : forall k, 0 <= k -> 0 < pow10 k.
Proof. intros k H. unfold pow10. apply Z.pow_pos_nonneg; lia. Qed.

Lemma dec_of_den_pos : forall v n d, dec_of v = Some (n, d) -> 0 < d.
Proof.
  intros v n d H. destruct v as [b|z|f]; cbn [dec_of] in H.
  - inversion H; lia.
  - inversion H; lia.
  - destruct (f_repr_dec f) as [[N x]|]; [|discriminate].
    destruct (0 <=? x) eqn:E; inversion H; subst; [lia|]. apply pow10_pos. apply Z.leb_gt in E. lia.
Qed.

(* the spec's decimal value of a number is the fraction the model computes *)
Lemma num_of_decimal : forall v, num_of RDecimal v = option_map Q_of_frac (dec_of v).
Proof.
  intros [b|z|f]; cbn [num_of dec_of option_map Q_of_frac].
  - destruct b; reflexivity.
  - reflexivity.
  - cbn [sf_value]. unfold sf_decimal. destruct (f_repr_dec f) as [[N x]|]; [|reflexivity].
    destruct (0 <=? x); reflexivity.
Qed.

Lemma frac_on_grid_spec :
  forall vn vd mn md sn sd, 0 < vd -> 0 < md -> 0 < sd -> sn <> 0 ->
    (frac_on_grid (vn, vd) (mn, md) (sn, sd) = true
     <-> on_grid (Q_of_frac (vn, vd)) (Q_of_frac (mn, md)) (Q_of_frac (sn, sd))).
Proof.
  intros vn vd mn md sn sd Hv Hm Hs Hn. unfold frac_on_grid, on_grid, Q_of_frac.
  rewrite Z.eqb_eq. rewrite Z.mod_divide by nia. unfold Z.divide.
  split; intros [k H]; exists k.
  - unfold Qeq, Qminus, Qplus, Qopp, Qmult, inject_Z. cbn [Qnum Qden].
    rewrite !Pos2Z.inj_mul, !Z2Pos.id by lia. nia.
  - unfold Qeq, Qminus, Qplus, Qopp, Qmult, inject_Z in H. cbn [Qnum Qden] in H.
    rewrite !Pos2Z.inj_mul, !Z2Pos.id in H by lia. nia.
Qed.

Lemma Q_of_frac_zero : forall n d, 0 < d -> (Q_of_frac (n, d) == 0)%Q <-> n = 0.
Proof. intros n d H. unfold Q_of_frac, Qeq. cbn [Qnum Qden]. lia. Qed.

(* the exact decimal step test never raises, fails on inf / nan, and otherwise decides the decimal grid *)
Theorem step_decimal_exact :
  forall v m s a b c,
    num_of RDecimal v = Some a -> num_of RDecimal m = Some b -> num_of RDecimal s = Some c -> ~ (c == 0)%Q ->
    (step_decimal v m s = SOk <-> on_grid a b c).
Proof.
  intros v m s a b c Hv Hm Hs Hc. rewrite num_of_decimal in Hv, Hm, Hs. unfold step_decimal.
  destruct (dec_of v) as [[vn vd]|] eqn:Ev; [|discriminate].
  destruct (dec_of m) as [[mn md]|] eqn:Em; [|discriminate].
  destruct (dec_of s) as [[sn sd]|] eqn:Es; [|discriminate].
  cbn [option_map] in Hv, Hm, Hs. inversion Hv; inversion Hm; inversion Hs; subst a b c.
  pose proof (dec_of_den_pos _ _ _ Ev). pose proof (dec_of_den_pos _ _ _ Em). pose proof (dec_of_den_pos _ _ _ Es).
  assert (sn <> 0) by (intro; apply Hc; apply Q_of_frac_zero; assumption).
  pose proof (frac_on_grid_spec vn vd mn md sn sd H H0 H1 H2) as G. unfold Q_of_frac in G.
  destruct (frac_on_grid (vn, vd) (mn, md) (sn, sd)); split; intro K; try reflexivity; try discriminate K.
  - apply G. reflexivity.
  - apply G in K. discriminate K.
Qed.

Theorem step_decimal_total : forall v m s, step_decimal v m s <> SExc.
Proof.
  intros v m s. unfold step_decimal.
  destruct (dec_of v) as [a|], (dec_of m) as [b|], (dec_of s) as [c|]; try discriminate.
  destruct (frac_on_grid a b c); discriminate.
Qed.

Theorem step_decimal_nonfinite :
  forall v m s, num_of RDecimal v = None \/ num_of RDecimal m = None \/ num_of RDecimal s = None -> step_decimal v m s = SBad.
Proof.
  intros v m s H. rewrite !num_of_decimal in H. unfold step_decimal.
  destruct (dec_of v), (dec_of m), (dec_of s); cbn in H; try reflexivity;
    destruct H as [H|[H|H]]; discriminate H.
Qed.

(* ------------------------------------------------------------------ 2. integer-valued inputs *)

Definition int_attr (o : option pyval) : Prop :=
  match o with None => True | Some (VInt _) => True | Some _ => False end.

Definition is_vint (v : pyval) : Prop := match v with VInt _ => True | _ => False end.

(* the definition's numbers are integers; a boolean port is not declared integer; choices do not come with min + step
   (carve-outs (b), (c) of Spec.v) *)
Definition int_inputs (d : portdef) : Prop :=
  int_attr (p_min d) /\ int_attr (p_max d) /\ int_attr (p_step d)
  /\ match p_choices d with Some cs => Forall is_vint cs /\ (p_step d = None \/ p_min d = None) | None => True end
  /\ (p_type d = TBoolean -> p_integer d = false).

(* the write transform yields a value that can be coerced and logged (the property presumes it) *)
Definition transform_ok (d : portdef) (v : pyval) : Prop :=
  match p_transform d with
  | None => True
  | Some t => match t v with
              | TVal x => exists y, adapt d x = inl y /\ dumps_ok y = true
              | TUnavail => True
              | TErr => False
              end
  end.

(* the integer has a binary64: stated in the spec's terms and in the model's (float(z) does not overflow) *)
Definition has_binary64 (z : Z) : Prop := Z.abs z < float_limit /\ dumps_ok (VInt z) = true.

Lemma step_tests_agree_int :
  forall rule z m s, s <> 0 -> (step_test rule (VInt z) (VInt m) (VInt s) = SOk <-> (z - m) mod s = 0)
                              /\ step_test rule (VInt z) (VInt m) (VInt s) <> SExc.
Proof.
  intros rule z m s Hs. destruct rule; cbn [step_test].
  - unfold step_binary. cbn [py_sub as_num py_mod]. apply Z.eqb_neq in Hs. rewrite Hs. cbn [py_truth].
    destruct ((z - m) mod s =? 0) eqn:E; cbn [negb]; split; try discriminate.
    + apply Z.eqb_eq in E. split; auto.
    + apply Z.eqb_neq in E. split; [discriminate|contradiction].
  - unfold step_decimal. cbn [dec_of frac_on_grid].
    replace ((z * 1 - m * 1) * 1) with (z - m) by ring. replace (1 * 1 * s) with s by ring.
    destruct ((z - m) mod s =? 0) eqn:E; split; try discriminate.
    + apply Z.eqb_eq in E. split; auto.
    + apply Z.eqb_neq in E. split; [discriminate|contradiction].
Qed.

Lemma inject_Z_eq0 : forall s, (inject_Z s == 0)%Q <-> s = 0.
Proof. intro s. unfold Qeq, inject_Z. cbn. lia. Qed.

Lemma on_grid_int : forall z m s, s <> 0 -> (on_grid (inject_Z z) (inject_Z m) (inject_Z s) <-> (z - m) mod s = 0).
Proof.
  intros z m s Hs. unfold on_grid. rewrite Z.mod_divide by assumption. unfold Z.divide.
  split; intros [k H]; exists k.
  - unfold Qeq, Qminus, Qplus, Qopp, Qmult, inject_Z in H. cbn in H. lia.
  - unfold Qeq, Qminus, Qplus, Qopp, Qmult, inject_Z. cbn. lia.
Qed.

Lemma bound_int : forall r o, int_attr o ->
  match o with Some (VInt m) => bound r o = Some (inject_Z m) | None => bound r o = None | _ => False end.
Proof. intros r [[b|m|f]|] H; cbn in *; try contradiction; reflexivity. Qed.

(* the step check on integers *)
Lemma step_check_int :
  forall rule rd d z, int_attr (p_step d) -> int_attr (p_min d) ->
    (step_check rule d (JInt z) = SOk
     <-> opt_P (bound rd (p_step d)) (fun s => opt_P (bound rd (p_min d)) (fun m => ~ (s == 0)%Q -> on_grid (inject_Z z) m s)))
    /\ step_check rule d (JInt z) <> SExc.
Proof.
  intros rule rd d z Hs Hm. unfold step_check.
  destruct (p_step d) as [[b|s|f]|]; cbn in Hs; try contradiction;
    destruct (p_min d) as [[b'|m|f']|]; cbn in Hm; try contradiction; cbn [bound num_of opt_P j_py];
    try (split; [split; auto|discriminate]).
  rewrite py_eq_int. destruct (s =? 0) eqn:E.
  - apply Z.eqb_eq in E. subst s. split; [|discriminate]. split; auto. intros _ H. exfalso. apply H. reflexivity.
  - apply Z.eqb_neq in E. destruct (step_tests_agree_int rule z m s E) as [H1 H2]. split; [|exact H2].
    rewrite H1. rewrite <- (on_grid_int z m s E). split; auto. intro H. apply H. rewrite inject_Z_eq0. exact E.
Qed.

Lemma representable_int : forall z, Z.abs z < float_limit -> representable (inject_Z z).
Proof.
  intros z H. unfold representable. assert (Qabs (inject_Z z) = inject_Z (Z.abs z)) as -> by (destruct z; reflexivity).
  rewrite <- Zlt_Qlt. exact H.
Qed.

Lemma integral_int : forall z, integral (inject_Z z).
Proof. intro z. exists z. reflexivity. Qed.

(* validation of an integer on a number port without choices *)
Lemma value_valid_number_int :
  forall rl rd d z, int_inputs d -> p_choices d = None -> p_type d = TNumber -> Z.abs z < float_limit ->
    (value_valid rl d (JInt z) = true <-> num_domain rd d (inject_Z z)).
Proof.
  intros rl rd d z (Hmin & Hmax & Hstep & _ & _) Hc Ht Hz.
  unfold value_valid, validate, get_value_schema, num_domain. rewrite Hc, Ht.
  cbn [s_enum s_minimum s_maximum s_type opt_ok nonfinite]. rewrite andb_false_r. cbn [negb andb].
  assert (Hty : is_type (if p_integer d then TyInteger else TyNumber) (JInt z) = true) by (destruct (p_integer d); reflexivity).
  rewrite Hty, !andb_true_r.
  destruct (step_check_int (r_step rl) rd d z Hstep Hmin) as [Hs1 Hs2].
  assert (Hlo : opt_ok (p_min d) (fun m => minimum_ok m (JInt z)) = true <-> opt_P (bound rd (p_min d)) (fun m => (m <= inject_Z z)%Q)).
  { destruct (p_min d) as [[b|m|f]|]; cbn in Hmin; try contradiction; cbn [opt_ok bound num_of opt_P]; [|split; auto].
    rewrite minimum_inclusive. rewrite Zle_Qle. reflexivity. }
  assert (Hhi : opt_ok (p_max d) (fun m => maximum_ok m (JInt z)) = true <-> opt_P (bound rd (p_max d)) (fun m => (inject_Z z <= m)%Q)).
  { destruct (p_max d) as [[b|m|f]|]; cbn in Hmax; try contradiction; cbn [opt_ok bound num_of opt_P]; [|split; auto].
    rewrite maximum_inclusive. rewrite Zle_Qle. reflexivity. }
  rewrite !andb_true_iff, Hlo, Hhi.
  split.
  - intros [[Ha Hb] Hcstep]. repeat split; try assumption.
    + apply representable_int; assumption.
    + intros _. apply integral_int.
    + apply Hs1. destruct (step_check (r_step rl) d (JInt z)); [reflexivity|discriminate|discriminate].
  - intros (_ & Ha & Hb & _ & Hg). repeat split; try assumption.
    apply Hs1 in Hg. rewrite Hg. reflexivity.
Qed.

(* validation of an integer against integer choices *)
Lemma value_valid_choices_int :
  forall rl rd d cs z, int_inputs d -> p_choices d = Some cs ->
    (value_valid rl d (JInt z) = true <-> exists c, In c cs /\ is_choice rd c (JInt z)).
Proof.
  intros rl rd d cs z (_ & _ & _ & Hcs & _) Hc. rewrite Hc in Hcs. destruct Hcs as [Hall Hns].
  unfold value_valid, validate, get_value_schema. rewrite Hc.
  cbn [s_enum s_minimum s_maximum s_type opt_ok nonfinite]. rewrite andb_false_r, !andb_true_r. cbn [negb].
  assert (Hstep : step_check (r_step rl) d (JInt z) = SOk).
  { unfold step_check. destruct Hns as [-> | ->]; [reflexivity|]. destruct (p_step d); reflexivity. }
  rewrite Hstep, andb_true_r. unfold enum_ok. rewrite existsb_exists.
  assert (Heq : forall c, In c cs -> (j_equal c (JInt z) = true <-> is_choice rd c (JInt z))).
  { intros c Hin. rewrite Forall_forall in Hall. specialize (Hall c Hin). destruct c as [b|k|f]; cbn in Hall; try contradiction.
    rewrite enum_int_by_value. cbn [is_choice num_of jnum]. unfold Qeq, inject_Z. cbn. lia. }
  split; intros (c & Hin & H); exists c; split; try assumption; apply (Heq c Hin); assumption.
Qed.

Lemma model_accepts_unfold :
  forall rl d j v, j_py j = Some v ->
    model_accepts rl (Some d) j
    = value_valid rl d j && p_enabled d && p_writable d
      && match fst (transform_and_write d v) with Accepted => true | Rejected _ => false end.
Proof.
  intros rl d j v Hv. unfold model_accepts, patch_value, value_valid. rewrite Hv.
  destruct (validate (get_value_schema d) j); [|reflexivity]. cbn [negb andb].
  destruct (r_finite_guard rl && nonfinite j); [reflexivity|]. cbn [negb andb].
  destruct (step_check (r_step rl) d j); try reflexivity. cbn [andb].
  destruct (p_enabled d); [|reflexivity]. destruct (p_writable d); reflexivity.
Qed.

Lemma transform_ok_accepts :
  forall d v, dumps_ok v = true -> transform_ok d v -> fst (transform_and_write d v) = Accepted.
Proof.
  intros d v Hd Ht. unfold transform_and_write, transform_ok in *. rewrite Hd. cbn [negb].
  destruct (p_transform d) as [t|]; [|reflexivity].
  destruct (t v) as [x| |]; [|reflexivity|contradiction].
  destruct Ht as (y & Ha & Hy). rewrite Ha, Hy. reflexivity.
Qed.

(* C05_accept_iff_exact *)
Theorem accept_iff_exact :
  forall rl rd p z,
    (forall d, p = Some d -> int_inputs d /\ transform_ok d (VInt z)) -> has_binary64 z ->
    (model_accepts rl p (JInt z) = true <-> accepts rd p (JInt z)).
Proof.
  intros rl rd p z Hp [Hz Hdumps]. destruct p as [d|].
  2:{ split; [discriminate|]. intros (d & H & _). discriminate H. }
  destruct (Hp d eq_refl) as [Hin Htr].
  rewrite (model_accepts_unfold rl d (JInt z) (VInt z) eq_refl).
  rewrite (transform_ok_accepts d (VInt z) Hdumps Htr), andb_true_r.
  assert (Hdom : value_valid rl d (JInt z) = true <-> in_domain rd d (JInt z)).
  { unfold in_domain. destruct (p_choices d) as [cs|] eqn:Hc.
    - apply (value_valid_choices_int rl rd d cs z Hin Hc).
    - destruct (p_type d) eqn:Ht.
      + (* boolean port, no choices: an integer is refused by both *)
        destruct Hin as (_ & _ & _ & _ & Hb). specialize (Hb Ht).
        unfold value_valid, validate, get_value_schema. rewrite Hc, Ht, Hb. cbn.
        rewrite !andb_false_r. split; [discriminate|contradiction].
      + cbn [jnum]. apply (value_valid_number_int rl rd d z Hin Hc Ht Hz). }
  unfold accepts. rewrite !andb_true_iff, Hdom. split.
  - intros [[Hv He] Hw]. exists d. repeat split; assumption.
  - intros (d' & Hq & He & Hw & Hv). inversion Hq; subst d'. repeat split; assumption.
Qed.

(* the same for sequences of integers *)
Theorem sequence_accept_iff_exact :
  forall rl rd d zs ds rp,
    int_inputs d -> Forall (fun z => Z.abs z < float_limit) zs ->
    (fst (patch_sequence rl (Some d) (map JInt zs) ds rp) = Accepted <-> seq_accepts rd (Some d) (map JInt zs) ds rp).
Proof.
  intros rl rd d zs ds rp Hin Hz.
  assert (Hdom : forall z, In z zs -> (value_valid rl d (JInt z) = true <-> in_domain rd d (JInt z))).
  { intros z Hzin. rewrite Forall_forall in Hz. specialize (Hz z Hzin).
    unfold in_domain. destruct (p_choices d) as [cs|] eqn:Hc.
    - apply (value_valid_choices_int rl rd d cs z Hin Hc).
    - destruct (p_type d) eqn:Ht.
      + destruct Hin as (_ & _ & _ & _ & Hb). specialize (Hb Ht).
        unfold value_valid, validate, get_value_schema. rewrite Hc, Ht, Hb. cbn.
        rewrite !andb_false_r. split; [discriminate|contradiction].
      + cbn [jnum]. apply (value_valid_number_int rl rd d z Hin Hc Ht Hz). }
  assert (Hall : forallb (value_valid rl d) (map JInt zs) = true <-> Forall (in_domain rd d) (map JInt zs)).
  { rewrite forallb_forall, Forall_forall. split; intros H j Hj; apply in_map_iff in Hj as (z & <- & Hzin);
      apply (Hdom z Hzin); apply H; apply in_map; assumption. }
  unfold seq_accepts, seq_wellformed. split.
  - intro H. destruct (patch_sequence rl (Some d) (map JInt zs) ds rp) as [o es] eqn:E. cbn in H. subst o.
    destruct (sequence_cases _ _ _ _ _ _ _ E) as (d' & ws & Hq & Hp & Hl & Hv & He & Hw & _). inversion Hq; subst d'.
    split; [split; assumption|]. exists d. repeat split; try assumption. apply Hall. exact Hv.
  - intros [[Hp Hl] (d' & Hq & He & Hw & Hv)]. inversion Hq; subst d'.
    apply (sequence_validates_like_value rl d _ ds rp Hp Hl He Hw). apply Hall. exact Hv.
Qed.
