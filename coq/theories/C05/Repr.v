(* C05 — float.__repr__ as an exact decimal: the shortest decimal string that reads back as the same binary64, the nearest
   to the float's exact value if several have that length (CPython: dtoa mode 0).  Used by the model of the fixed step test
   (fractions.Fraction(repr(x))) and by the decimal reading of the specification ("the number the user wrote").
   Definitions only.  Tied to CPython by the harness on every float that occurs in a generated case (Run.bad_repr). *)
From QT Require Export Base.Prelude Base.PyNum.
Open Scope Z_scope.

(* value = num / den with num, den > 0 *)
Definition f_abs_ratio (m : positive) (e : Z) : Z * Z :=
  if 0 <=? e then (Zpos m * 2 ^ e, 1) else (Zpos m, 2 ^ (- e)).

Definition pow10 (k : Z) : Z := 10 ^ k.

(* num/den >= 10^k ? *)
Definition ge_pow10 (num den k : Z) : bool :=
  if 0 <=? k then den * pow10 k <=? num else den <=? num * pow10 (- k).

(* k with 10^k <= num/den < 10^(k+1): estimate from the bit lengths, then correct (the estimate is off by at most 1) *)
Definition floor_log10 (num den : Z) : Z :=
  let est := (Z.log2 num - Z.log2 den) * 30103 / 100000 in
  let k := if ge_pow10 num den (est + 1) then (if ge_pow10 num den (est + 2) then est + 2 else est + 1)
           else if ge_pow10 num den est then est
           else if ge_pow10 num den (est - 1) then est - 1 else est - 2 in
  k.

(* does the decimal N * 10^x (N > 0) round (to nearest, ties to even) to the float m * 2^e ?  Decided on the rounding
   interval of the float: [(m - 1/2) 2^e, (m + 1/2) 2^e], closed iff m is even; the lower half-gap is 2^(e-2) when m is the
   first mantissa of a binade above the subnormal range.  Everything is scaled by 4 to stay in Z. *)
Definition rounds_to (m : positive) (e : Z) (N x : Z) : bool :=
  let lo4 := if (Zpos m =? 2 ^ 52) && (-1074 <? e) then 4 * Zpos m - 1 else 4 * Zpos m - 2 in
  let hi4 := 4 * Zpos m + 2 in
  let '(un, ud) := if 0 <=? e then (2 ^ e, 1) else (1, 2 ^ (- e)) in          (* 2^e = un / ud *)
  let '(cn, cd) := if 0 <=? x then (N * pow10 x, 1) else (N, pow10 (- x)) in   (* candidate = cn / cd *)
  (* compare  4 * cn / cd  with  lo4 * un / ud  and  hi4 * un / ud *)
  let c := 4 * cn * ud in
  let l := lo4 * un * cd in
  let h := hi4 * un * cd in
  if Z.even (Zpos m) then (l <=? c) && (c <=? h) else (l <? c) && (c <? h).

(* try n = 1, 2, ... significant digits.  [d17] = floor (value / 10^(k-16)) holds the first 17 digits, [exact17] tells that
   nothing follows them, [cmp17] compares the rest with half a unit of the 17th digit.  The n-digit decimals around the value
   are lo and lo + 1 (in units 10^x, x = k - (n - 1)); take the one that reads back as the float, the nearer one if both do
   (ties: even). *)
Fixpoint repr_search (fuel : nat) (m : positive) (e : Z) (d17 : Z) (exact17 : bool) (cmp17 : comparison) (k n : Z)
  : option (Z * Z) :=
  match fuel with
  | O => None
  | S fuel' =>
      let x := k - (n - 1) in                                   (* unit of the last digit *)
      let u := pow10 (17 - n) in
      let lo := d17 / u in
      let r := d17 mod u in
      let lo_ok := (0 <? lo) && rounds_to m e lo x in
      let hi_ok := rounds_to m e (lo + 1) x in
      let nearer :=
        if n =? 17 then cmp17
        else match 2 * r ?= u with Eq => if exact17 then Eq else Gt | c => c end in
      if lo_ok && hi_ok then
        match nearer with
        | Lt => Some (lo, x)
        | Gt => Some (lo + 1, x)
        | Eq => Some (if Z.even lo then lo else lo + 1, x)
        end
      else if lo_ok then Some (lo, x)
      else if hi_ok then Some (lo + 1, x)
      else repr_search fuel' m e d17 exact17 cmp17 k (n + 1)
  end.

(* the decimal number float.__repr__ prints (shortest string that reads back as the same float, nearest if several);
   None for inf / nan *)
Definition f_repr_dec (f : sf) : option (Z * Z) :=
  match f with
  | S754_zero _ => Some (0, 0)
  | S754_finite s m e =>
      let '(num, den) := f_abs_ratio m e in
      let k := floor_log10 num den in
      let x := k - 16 in
      let '(sn, sd) := if 0 <=? x then (num, den * pow10 x) else (num * pow10 (- x), den) in   (* value / 10^x *)
      let d17 := sn / sd in
      let r17 := sn - d17 * sd in
      match repr_search 17 m e d17 (r17 =? 0) (2 * r17 ?= sd) k 1 with
      | Some (N, x) => Some (if s then - N else N, x)
      | None => None
      end
  | _ => None
  end.
